"""C03 bounded stand-in: every permutation of the lines of a valid document builds the same Gfa."""
import itertools, random
from bounded import harness, state, universe, oracle
import gfapy


def check(case):
    version, ids, perms = case
    lines = universe.lines_of(version, ids)
    fails = []
    def fail(kind, what, order):
        fails.append(dict(signature="C03:%s" % kind, what=what, case=dict(version=version, lines=lines, order=order),
                          reproducer="import gfapy\nfrom bounded import state\na = gfapy.Gfa(%r)\nb = gfapy.Gfa(%r)\nprint(state.snap_diff_c(state.canon_snapshot(a), state.canon_snapshot(b)))" % (lines, order)))
    try:
        ref = state.canon_snapshot(gfapy.Gfa(lines, vlevel=1))
    except Exception as e:
        fail("reference-order-raises-" + type(e).__name__, harness.short(e), lines)
        return dict(key=(version, tuple(ids)), nontrivial=True, failures=fails)
    n = 0
    onames = [l.split("\t")[1] if l.startswith("O\t") else None for l in lines]
    for p in perms:
        order = [lines[i] for i in p]
        # same-identifier O lines are concatenated in arrival order (C17): their relative order is part of the document
        seq = [i for i in p if onames[i] is not None and onames.count(onames[i]) > 1]
        if seq != sorted(seq):
            continue
        n += 1
        try:
            g = gfapy.Gfa(order, vlevel=1)
        except Exception as e:
            fail("order-raises-%s" % type(e).__name__, harness.short(e, 200), order)
            continue
        virt = [state.ident(x) for x in state.registered(g) if x.virtual]
        if virt:
            fail("placeholder-remains", str(virt[:3]), order)
        s = state.canon_snapshot(g)
        if s != ref:
            for k in ("version", "names", "content", "lines"):
                if s[k] != ref[k]:
                    rts = sorted({str(x)[2:3] for x in set(map(str, s[k])) ^ set(map(str, ref[k]))}) if k in ("content", "lines") else []
                    fail("differs:%s:%s" % (k, "".join(rts)), str(sorted(set(map(str, s[k])) ^ set(map(str, ref[k])))[:4])[:600], order)
                    break
        errs = state.wf_errors(g)
        if errs:
            fail("wf:" + errs[0][0], errs[0][1], order)
    return dict(key=(version, tuple(ids)), nontrivial=len(lines) > 1, failures=fails, sample=dict(lines=lines, permutations=n))


def ambiguous(version, ids):
    """a path with unspecified overlaps over a segment pair joined by parallel links does not determine its links"""
    if version != "gfa1":
        return False
    tm = oracle.TextModel(universe.text_of(version, ids), version)
    for r in tm.recs:
        if r.rt == "P":
            for step in tm.path_links(r):
                if sum(1 for y in tm.recs if y.rt == "L" and tm.supports(y, step)) > 1:
                    return True
    return False


def cases(tier, seed):
    rng = random.Random(seed)
    out = []
    maxp = 2 if tier == "quick" else 3
    cap = 120 if tier == "quick" else 360
    for version in ("gfa1", "gfa2"):
        docs = list(universe.documents(version, maxp))
        if tier != "quick":
            # every document of <=2 primary lines, and a seeded sample of those with 3 (all of them, with all their orders, would take hours)
            small = list(universe.documents(version, 2))
            keys = {tuple(sorted(d)) for d in small}
            big = [d for d in docs if tuple(sorted(d)) not in keys]
            docs = small + rng.sample(big, min(1500, len(big)))
        for ids in docs:
            if ambiguous(version, ids):
                continue
            n = len(ids)
            if n <= 5 or (tier != "quick" and n <= 6):
                perms = list(itertools.permutations(range(n)))
            else:
                perms = [tuple(rng.sample(range(n), n)) for _ in range(cap)]
            if len(perms) > cap:
                perms = rng.sample(perms, cap)
            out.append((version, ids, perms))
    return out


if __name__ == "__main__":
    tier, seed = harness.args()
    cs = cases(tier, seed)
    res = harness.run(cs, check,
                      rule="for every closed document of <=%d primary catalogue lines: all permutations of its lines when it has <=%d lines, else %d seeded permutations; "
                           "each arrival order must give the same version, identifier namespace, canonical content, per-line reference targets and back-reference sets as the catalogue order, "
                           "no placeholder may remain, WF must hold. one evaluation = one document (all its permutations)" % ((2, 5, 120) if tier == "quick" else (3, 6, 360)),
                      bound="documents <=%d primary lines%s; all permutations up to %d lines" % ((2, "", 5) if tier == "quick" else (3, " (all with <=2, a seeded sample of 1500 per version with 3)", 6)), exhaustive=False)
    harness.emit(res)
