"""Independent oracles of the bounded tier (no gfapy import): GFA text tokenizer and canonical view, CIGAR algebra,
link complement, text-level model of rm / rename cascades, union-find components.
Written from the GFA1/GFA2 specifications and doc/tutorial/references.rst."""
import json, re
from collections import Counter

G1_POS = {"H": 0, "S": 2, "L": 5, "C": 6, "P": 3}
G2_POS = {"H": 0, "S": 3, "E": 8, "F": 7, "G": 5, "O": 2, "U": 2}
TAG_RE = re.compile(r"^([A-Za-z][A-Za-z0-9]):([AifZJHB]):(.+)$", re.S)


def inv(o):
    return {"+": "-", "-": "+", "L": "R", "R": "L"}[o]


# --------------------------------------------------------------------------------------------- CIGAR
def cigar_ops(s):
    if s == "*":
        return None
    return [(int(n), c) for n, c in re.findall(r"([0-9]+)([MIDNSHPX=])", s)]


def cigar_str(ops):
    return "*" if ops is None else ("".join("%d%s" % (n, c) for n, c in ops) or "*")


def cigar_complement(s):
    ops = cigar_ops(s)
    if ops is None:
        return "*"
    sw = {"I": "D", "D": "I", "S": "D", "N": "I"}
    return cigar_str([(n, sw.get(c, c)) for n, c in reversed(ops)])


def cigar_len_ref(s):
    return sum(n for n, c in cigar_ops(s) if c in "M=XDN")


def cigar_len_qry(s):
    return sum(n for n, c in cigar_ops(s) if c in "M=XIS")


# --------------------------------------------------------------------------------------------- tags
def canon_tag(dt, v):
    """canonical value of a tag (the documented normalisations: spelling of numbers / JSON / array subtype)"""
    try:
        if dt == "i":
            return ("i", int(v))
        if dt == "f":
            return ("f", float(v))
        if dt == "J":
            return ("J", json.dumps(json.loads(v), sort_keys=True))
        if dt == "H":
            return ("H", v.upper())
        if dt == "B":
            st, *el = v.split(",")
            if st == "f":
                return ("B", "f", tuple(float(x) for x in el))
            return ("B", "int", tuple(int(x) for x in el))
    except Exception:
        pass
    return (dt, v)


class Rec:
    __slots__ = ("rt", "pos", "tags", "raw")

    def __init__(self, rt, pos, tags, raw=None):
        self.rt, self.pos, self.tags, self.raw = rt, list(pos), tags, raw

    def key(self):
        return (self.rt, tuple(self.pos), tuple(sorted((k, canon_tag(*v)) for k, v in self.tags.items())))

    def text(self):
        if self.rt == "#":
            return "#" + self.pos[0]
        return "\t".join([self.rt] + self.pos + ["%s:%s:%s" % (k, v[0], v[1]) for k, v in self.tags.items()])

    def copy(self):
        return Rec(self.rt, list(self.pos), dict(self.tags), self.raw)

    def __repr__(self):
        return "Rec(%s)" % self.text()


def version_of(lines):
    """version by content: VN header, else first version-specific record / segment syntax; None if undetermined"""
    for l in lines:
        f = l.split("\t")
        if f[0] == "H":
            for t in f[1:]:
                if t.startswith("VN:Z:"):
                    return {"1.0": "gfa1", "2.0": "gfa2"}.get(t[5:], t[5:])
    for l in lines:
        f = l.split("\t")
        if f[0] in ("E", "F", "G", "O", "U"):
            return "gfa2"
        if f[0] == "S":
            if len(f) >= 4 and re.fullmatch(r"[0-9]+", f[2]) and not TAG_RE.match(f[3] if len(f) > 3 else ""):
                return "gfa2"
            if len(f) >= 3 and TAG_RE.match(f[2]) is None and len(f) >= 4 and TAG_RE.match(f[3]) is None:
                return "gfa2"
            return "gfa1"
    for l in lines:
        if l.split("\t")[0] in ("L", "C", "P"):
            return "gfa1"
    return None


def tokenize(line, version):
    f = line.split("\t")
    rt = f[0]
    if rt == "#" or line.startswith("#"):
        return Rec("#", [line[1:]], {}, line)
    table = G1_POS if version == "gfa1" else G2_POS
    if rt in table:
        n = table[rt]
    else:
        # custom record: the tags are the maximal run of fields at the END of the line each of which can be a tag (tag syntax, a name
        # not carried by a later tag, a value its datatype accepts); everything before is positional
        n = len(f) - 1
        seen = set()
        for i in range(len(f) - 1, 0, -1):
            m = TAG_RE.match(f[i])
            if not m or m.group(1) in seen:
                break
            try:
                from specs import grammar as _g
                if _g.value_ok(m.group(2), m.group(3)) is False:
                    break
            except Exception:
                pass
            seen.add(m.group(1))
            n = i - 1
    pos, rest = f[1:1 + n], f[1 + n:]
    tags = {}
    for t in rest:
        m = TAG_RE.match(t)
        if not m:
            raise ValueError("bad tag %r in %r" % (t, line))
        if m.group(1) in tags:
            raise ValueError("duplicate tag")
        tags[m.group(1)] = (m.group(2), m.group(3))
    return Rec(rt, pos, tags, line)


def parse_text(text, version=None):
    lines = [l for l in text.split("\n") if l != ""]
    v = version or version_of(lines) or "gfa1"
    return v, [tokenize(l, v) for l in lines]


def link_canon(pos):
    """a link and its complement are one edge: pick the lexicographically smaller of the two spellings"""
    a = list(pos)
    b = [pos[2], inv(pos[3]), pos[0], inv(pos[1]), cigar_complement(pos[4])]
    return min(a, b)


def view(text, version=None, merge_groups=True):
    """canonical multiset of the records of a document, under the documented normalisations:
    one H line per tag; a link identified with its complement; same-identifier O/U lines concatenated in arrival order
    (U items as a multiset); records grouped by type (order ignored); virtual-line marker dropped is NOT a normalisation."""
    v, recs = parse_text(text, version)
    out = Counter()
    groups = {}
    order = []
    for r in recs:
        if r.rt == "H":
            for k, val in r.tags.items():
                out[("H", (), ((k, canon_tag(*val)),))] += 1
            continue
        r = r.copy()
        if r.rt == "L" and v == "gfa1":
            r.pos = link_canon(r.pos)
        if merge_groups and r.rt in ("O", "U") and v == "gfa2" and r.pos and r.pos[0] != "*":
            k = (r.rt, r.pos[0])
            if k in groups:
                g = groups[k]
                g.pos[1] = g.pos[1] + " " + r.pos[1]
                for tk, tv in r.tags.items():
                    g.tags.setdefault(tk, tv)
                continue
            groups[k] = r
            order.append(r)
            continue
        out[r.key()] += 1
    for g in order:
        if g.rt == "U":
            g.pos[1] = " ".join(sorted(g.pos[1].split(" ")))
        out[g.key()] += 1
    return v, out


def view_diff(a, b):
    return {"missing": sorted(map(str, (a - b).elements()))[:6], "extra": sorted(map(str, (b - a).elements()))[:6]}


# --------------------------------------------------------------------------------------------- text model of mutations
def _strip(x):
    return x[:-1] if x and x[-1] in "+-" else x


class TextModel:
    """a document as a list of records, with the documented semantics of rm and rename"""

    def __init__(self, text, version=None):
        self.version, recs = parse_text(text, version)
        self.recs = []
        for r in recs:
            self.add(r)

    def add(self, r):
        """documented merges: a link supplied in both complement forms is stored once; O (U) lines sharing an identifier
        form one group (items concatenated in arrival order, tags united)"""
        if self.version == "gfa1" and r.rt == "L":
            if any(x.rt == "L" and link_canon(x.pos) == link_canon(r.pos) for x in self.recs):
                return
        if self.version == "gfa2" and r.rt in ("O", "U") and r.pos[0] != "*":
            for x in self.recs:
                if x.rt == r.rt and x.pos[0] == r.pos[0]:
                    x.pos[1] = x.pos[1] + " " + r.pos[1]
                    for k, v in r.tags.items():
                        x.tags.setdefault(k, v)
                    return
        self.recs.append(r)

    def copy(self):
        t = TextModel.__new__(TextModel)
        t.version, t.recs = self.version, [r.copy() for r in self.recs]
        return t

    def text(self):
        return "\n".join(r.text() for r in self.recs)

    def name_of(self, r):
        if self.version == "gfa1":
            if r.rt in ("S", "P"):
                return r.pos[0]
            if r.rt in ("L", "C") and "ID" in r.tags:
                return r.tags["ID"][1]
            return None
        if r.rt in ("S", "E", "G", "O", "U"):
            return r.pos[0] if r.pos[0] != "*" else None
        return None

    def find(self, name):
        for r in self.recs:
            if self.name_of(r) == name:
                return r
        return None

    def mentions(self, r):
        """identifiers mentioned by record r: list of (identifier, role)"""
        if self.version == "gfa1":
            if r.rt in ("L", "C"):
                return [(r.pos[0], "seg"), (r.pos[2], "seg")]
            if r.rt == "P":
                return [(_strip(x), "seg") for x in r.pos[1].split(",")]
            return []
        if r.rt in ("E", "G"):
            return [(_strip(r.pos[1]), "seg"), (_strip(r.pos[2]), "seg")]
        if r.rt == "F":
            return [(r.pos[0], "seg")]
        if r.rt == "O":
            return [(_strip(x), "item") for x in r.pos[1].split(" ")]
        if r.rt == "U":
            return [(x, "item") for x in r.pos[1].split(" ")]
        return []

    def path_links(self, r):
        """(from, fo, to, to_o, cigar) steps a GFA1 path traverses (cigar '*' when the overlaps are unspecified)"""
        segs = r.pos[1].split(",")
        ovl = r.pos[2].split(",")
        out = []
        n = len(segs)
        circular = n > 1 and r.pos[2] != "*" and len(ovl) == n
        for i in range(n - 1 + (1 if circular else 0)):
            a, b = segs[i], segs[(i + 1) % n]
            c = ovl[i] if (r.pos[2] != "*" and i < len(ovl)) else "*"
            out.append((a[:-1], a[-1], b[:-1], b[-1], c))
        return out

    def supports(self, link, step):
        """link record `link` can serve path step `step` (same oriented ends in either reading, compatible overlap)"""
        a = link_canon(link.pos)
        b = link_canon(list(step))
        if a[:4] != b[:4]:
            return False
        return link.pos[4] == "*" or step[4] == "*" or a[4] == b[4]

    def rm_record(self, r):
        """remove r and, transitively, its documented dependants; drop other mentions (a gap listed in a set)"""
        if r not in self.recs:
            return
        self.recs.remove(r)
        name = self.name_of(r)
        if self.version == "gfa1":
            if r.rt == "S":
                for x in list(self.recs):
                    if x in self.recs and any(m == name for m, _ in self.mentions(x)):
                        self.rm_record(x)
            elif r.rt == "L":
                for x in list(self.recs):
                    if x in self.recs and x.rt == "P":
                        for step in self.path_links(x):
                            if self.supports(r, step) and not any(y.rt == "L" and self.supports(y, step) for y in self.recs):
                                self.rm_record(x)
                                break
            return
        # gfa2
        if name is None:
            return
        for x in list(self.recs):
            if x not in self.recs:
                continue
            if not any(m == name for m, _ in self.mentions(x)):
                continue
            if r.rt == "G":
                # a gap has no dependants: the mention is dropped from sets / paths
                sep = " "
                items = [i for i in x.pos[1].split(sep) if _strip(i) != name or (x.rt == "U" and i != name)]
                x.pos[1] = sep.join(items)
                if not items:
                    self.rm_record(x)            # a group that mentioned nothing else cannot be written: it goes too, with the groups over it
            elif r.rt == "S":
                self.rm_record(x)
            elif r.rt in ("E", "O", "U"):
                if x.rt in ("O", "U"):
                    self.rm_record(x)

    def _other_link(self, lk):
        return any(x.rt == "L" and link_canon(x.pos)[:4] == lk for x in self.recs)

    def rm(self, name):
        r = self.find(name)
        if r is None:
            raise KeyError(name)
        self.rm_record(r)

    def rename(self, old, new):
        r = self.find(old)
        if r is None:
            raise KeyError(old)
        if new != "*" and self.find(new) is not None:
            raise ValueError("in use")
        for x in self.recs:
            if x is r:
                if self.version == "gfa1" and x.rt in ("L", "C"):
                    x.tags["ID"] = ("Z", new)
                else:
                    x.pos[0] = new
                continue
            if self.version == "gfa1":
                if x.rt in ("L", "C"):
                    for i in (0, 2):
                        if x.pos[i] == old:
                            x.pos[i] = new
                elif x.rt == "P":
                    x.pos[1] = ",".join((new + s[-1]) if s[:-1] == old else s for s in x.pos[1].split(","))
            else:
                if x.rt in ("E", "G"):
                    for i in (1, 2):
                        if x.pos[i][:-1] == old:
                            x.pos[i] = new + x.pos[i][-1]
                elif x.rt == "F" and x.pos[0] == old:
                    x.pos[0] = new
                elif x.rt == "O":
                    x.pos[1] = " ".join((new + s[-1]) if s[:-1] == old else s for s in x.pos[1].split(" "))
                elif x.rt == "U":
                    x.pos[1] = " ".join(new if s == old else s for s in x.pos[1].split(" "))


# --------------------------------------------------------------------------------------------- graph oracles
class UF:
    def __init__(self, xs):
        self.p = {x: x for x in xs}

    def find(self, x):
        while self.p[x] != x:
            self.p[x] = self.p[self.p[x]]
            x = self.p[x]
        return x

    def union(self, a, b):
        self.p[self.find(a)] = self.find(b)

    def classes(self):
        d = {}
        for x in self.p:
            d.setdefault(self.find(x), set()).add(x)
        return sorted(sorted(c) for c in d.values())


def e_kind(b, e, L=None):
    """interval kind of one side of an E line from its textual positions"""
    bl, el = b.endswith("$"), e.endswith("$")
    bv, ev = int(b.rstrip("$")), int(e.rstrip("$"))
    if bv == 0 and el:
        return "whole"
    if bv == 0:
        return "pfx"
    if el:
        return "sfx"
    return "internal"


def e_class(pos):
    """(class, end1, end2) of an E record [eid,sid1,sid2,b1,e1,b2,e2,aln]: class in dovetail/containment/internal"""
    o1, o2 = pos[1][-1], pos[2][-1]
    k1, k2 = e_kind(pos[3], pos[4]), e_kind(pos[5], pos[6])
    if k1 == "whole" or k2 == "whole":
        return ("containment", k1, k2)
    if k1 in ("pfx", "sfx") and k2 in ("pfx", "sfx") and ((o1 == o2) == (k1 != k2)):
        return ("dovetail", "L" if k1 == "pfx" else "R", "L" if k2 == "pfx" else "R")
    return ("internal", None, None)


def dovetail_ends(text, version=None):
    """list of ((segA,endA),(segB,endB)) for every dovetail record of the document"""
    v, recs = parse_text(text, version)
    out = []
    for r in recs:
        if v == "gfa1" and r.rt == "L":
            out.append(((r.pos[0], "R" if r.pos[1] == "+" else "L"), (r.pos[2], "L" if r.pos[3] == "+" else "R")))
        elif v == "gfa2" and r.rt == "E":
            c, e1, e2 = e_class(r.pos)
            if c == "dovetail":
                out.append(((r.pos[1][:-1], e1), (r.pos[2][:-1], e2)))
    return out


def components(text, version=None):
    v, recs = parse_text(text, version)
    segs = [r.pos[0] for r in recs if r.rt == "S"]
    uf = UF(segs)
    for (a, _), (b, _) in dovetail_ends(text, v):
        if a in uf.p and b in uf.p:
            uf.union(a, b)
    return uf.classes()


def rc(seq):
    # IUPAC nucleotide codes (written from the IUPAC table, not from gfapy): A<->T, C<->G, R(AG)<->Y(CT), K(GT)<->M(AC), B(CGT)<->V(ACG),
    # D(AGT)<->H(ACT); S(CG), W(AT) and N are their own complements
    pairs = "AT CG RY KM BV DH SS WW NN"
    comp = {}
    for p in pairs.split():
        a, b = p[0], p[1]
        comp[a] = b; comp[b] = a; comp[a.lower()] = b.lower(); comp[b.lower()] = a.lower()
    return "".join(comp.get(c, c) for c in reversed(seq))


def collections(text, version=None):
    """{(segment, collection): sorted list of canonical record keys} as the specification assigns them (C11)"""
    v, recs = parse_text(text, version)
    out = {}
    def put(seg, coll, r):
        rr = r.copy()
        if rr.rt == "L" and v == "gfa1":
            rr.pos = link_canon(rr.pos)
        out.setdefault((seg, coll), []).append(str(rr.key()))
    for r in recs:
        if v == "gfa1" and r.rt == "L":
            put(r.pos[0], "dovetails_" + ("R" if r.pos[1] == "+" else "L"), r)
            put(r.pos[2], "dovetails_" + ("L" if r.pos[3] == "+" else "R"), r)
        elif v == "gfa1" and r.rt == "C":
            put(r.pos[0], "edges_to_contained", r)
            put(r.pos[2], "edges_to_containers", r)
        elif v == "gfa2" and r.rt == "E":
            c, x1, x2 = e_class(r.pos)
            s1, s2 = r.pos[1][:-1], r.pos[2][:-1]
            if c == "dovetail":
                put(s1, "dovetails_" + x1, r); put(s2, "dovetails_" + x2, r)
            elif c == "internal":
                put(s1, "internals", r); put(s2, "internals", r)
            else:
                if x1 == "whole" and x2 == "whole":
                    put(s1, "containment_either", r); put(s2, "containment_either", r)
                elif x1 == "whole":
                    put(s1, "edges_to_containers", r); put(s2, "edges_to_contained", r)
                else:
                    put(s1, "edges_to_contained", r); put(s2, "edges_to_containers", r)
        elif v == "gfa2" and r.rt == "G":
            put(r.pos[1][:-1], "gaps_" + ("R" if r.pos[1][-1] == "+" else "L"), r)
            put(r.pos[2][:-1], "gaps_" + ("L" if r.pos[2][-1] == "+" else "R"), r)
    return {k: sorted(x) for k, x in out.items()}
