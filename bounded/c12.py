"""C12 bounded stand-in: a link and its complement are one edge (line level and graph level)."""
import itertools, random
from bounded import harness, oracle, state
import gfapy

OPS = "MIDP=XH"


def cigars(rng, n):
    out = ["*", "3M", "1M1D2M", "2M1I1M", "1I3M", "2M2D", "1H2M1P1X1=", "4M"]
    for _ in range(n):
        k = rng.randrange(1, 5)
        out.append("".join("%d%s" % (rng.randrange(1, 4), rng.choice(OPS)) for _ in range(k)))
    return out


def check(case):
    a, oa, b, ob, cg, other = case
    text = "L\t%s\t%s\t%s\t%s\t%s" % (a, oa, b, ob, cg)
    segs = ["S\t%s\t*" % s for s in sorted({a, b, "Q"})]
    fails = []
    def fail(sig, what):
        fails.append(dict(signature="C12:" + sig, what=what, case=dict(link=text, other=other),
                          reproducer="import gfapy\nl = gfapy.Line(%r)\nc = l.complement()\nprint(l, '|', c, '|', c.complement(), l.is_complement(c), c.is_complement(l))" % text))
    try:
        l = gfapy.Line(text, version="gfa1")
        before = str(l)
        c = l.complement()
        want_c = [b, oracle.inv(ob), a, oracle.inv(oa), oracle.cigar_complement(cg)]
        if str(c).split("\t")[1:6] != want_c:
            fail("complement-fields", "%s -> %s, expected %s" % (text, c, want_c))
        if str(l) != before:
            fail("complement-modifies-receiver", "%s -> %s" % (before, l))
        cc = c.complement()
        if str(cc) != before:
            fail("complement-not-involutive", "%s -> %s" % (before, cc))
        if cg != "*":
            if c.overlap.length_on_reference() != oracle.cigar_len_qry(cg) or c.overlap.length_on_query() != oracle.cigar_len_ref(cg):
                fail("complement-does-not-exchange-lengths", "%s: ref %d qry %d" % (cg, c.overlap.length_on_reference(), c.overlap.length_on_query()))
            if l.overlap.length_on_reference() != oracle.cigar_len_ref(cg) or l.overlap.length_on_query() != oracle.cigar_len_qry(cg):
                fail("cigar-length", "%s" % cg)
        r = [(l.is_complement(c), c.is_complement(l), l.is_eql(c), c.is_eql(l), l.is_same(c) == c.is_same(l)) for _ in range(2)]
        if r[0] != r[1]:
            fail("equivalence-not-repeatable", str(r))
        if not (r[0][0] and r[0][1] and r[0][2] and r[0][3] and r[0][4]):
            fail("equivalence-not-symmetric", "%s: %s" % (text, r[0]))
        if hash(l) != hash(c):
            fail("hash-of-complement-differs", text)
        # a different edge
        o = gfapy.Line(other, version="gfa1")
        same_edge = oracle.link_canon(str(o).split("\t")[1:6]) == oracle.link_canon(text.split("\t")[1:6])
        got = (l.is_eql(o), o.is_eql(l), l.is_complement(o) or l.is_same(o))
        if got[0] != got[1]:
            fail("is_eql-not-symmetric", "%s vs %s" % (text, other))
        if got[0] != same_edge:
            fail("is_eql-wrong:%s" % ("says-different" if same_edge else "says-same"), "%s vs %s" % (text, other))
        # graph level
        g = gfapy.Gfa(segs + [text], vlevel=1)
        t0 = str(g)
        try:
            g.add_line(str(c))
        except Exception as e:
            fail("adding-complement-raises-%s" % type(e).__name__, harness.short(e, 150))
        if str(g) != t0:
            fail("adding-complement-changes-graph", harness.short(t0, 150) + " -> " + harness.short(str(g), 150))
        stored = g._gfa1_links[0]
        for q1, q2, qc, label in ((l.oriented_from, l.oriented_to, l.overlap, "direct"), (c.oriented_from, c.oriented_to, c.overlap, "complement")):
            f1 = gfapy.OrientedLine(q1.name, q1.orient); f2 = gfapy.OrientedLine(q2.name, q2.orient)
            if g._search_link(f1, f2, qc) is not stored:
                fail("search_link-misses-%s-form" % label, text)
        if not same_edge:
            try:
                g2 = gfapy.Gfa(segs + [text], vlevel=1)
                n0 = len(g2._gfa1_links)
                g2.add_line(other)
                ends_equal = oracle.link_canon(str(o).split("\t")[1:6])[:4] == oracle.link_canon(text.split("\t")[1:6])[:4]
                if len(g2._gfa1_links) != n0 + 1:
                    fail("different-link-not-added", "%s then %s" % (text, other))
            except gfapy.NotUniqueError:
                # parallel link with a placeholder overlap on one side is refused by design (compatible with everything)
                if not (("*" in (cg, str(o).split("\t")[5])) and oracle.link_canon(str(o).split("\t")[1:6])[:4] == oracle.link_canon(text.split("\t")[1:6])[:4]):
                    fail("different-link-refused", "%s then %s" % (text, other))
        # paths in both directions record the traversal direction
        if True:
            variants = [("pf", "%s%s,%s%s" % (a, oa, b, ob), cg, "+"), ("pr", "%s%s,%s%s" % (b, oracle.inv(ob), a, oracle.inv(oa)), oracle.cigar_complement(cg), "-")]
            hairpin = a == b and oa != ob
            if not hairpin:
                # exactly one of the two overlaps unspecified: the ends alone decide the direction
                if cg != "*":
                    variants += [("pf", "%s%s,%s%s" % (a, oa, b, ob), "*", "+"), ("pr", "%s%s,%s%s" % (b, oracle.inv(ob), a, oracle.inv(oa)), "*", "-")]
                else:
                    variants += [("pf", "%s%s,%s%s" % (a, oa, b, ob), "2M1I", "+"), ("pr", "%s%s,%s%s" % (b, oracle.inv(ob), a, oracle.inv(oa)), "1D2M", "-")]
            for pname, segsp, ov, direction in variants:
                for first in (True, False):
                    lines = segs + ([text] if first else []) + ["P\t%s\t%s\t%s" % (pname, segsp, ov)] + ([] if first else [text])
                    g3 = gfapy.Gfa(lines, vlevel=1)
                    p = g3.line(pname)
                    lk = p.links
                    if not first:
                        # after the placeholder link was replaced: nothing of it is left, and a later path resolves to the stored link
                        stale = [str(x) for sg in g3.segments for x in sg.dovetails if x.virtual]
                        if stale:
                            fail("placeholder-link-left-after-replacement", "%s: %s" % (lines, stale))
                        g3.add_line("P\tq\t%s\t%s" % (segsp, ov))
                        lq = g3.line("q").links
                        if len(lq) != 1 or lq[0].line is not g3._gfa1_links[0] or lq[0].line.virtual:
                            fail("later-path-does-not-resolve-to-stored-link", str(lines))
                    if len(lk) != 1 or lk[0].line is not g3._gfa1_links[0] or len(g3._gfa1_links) != 1:
                        fail("path-does-not-resolve-to-stored-link:%s:%s" % (direction, "link-first" if first else "path-first"), str(lines))
                    elif lk[0].orient != direction:
                        # self-complementary links (same ends, palindromic cigar) may report either direction
                        selfc = [a, oa, b, ob] == [b, oracle.inv(ob), a, oracle.inv(oa)] and (cg == oracle.cigar_complement(cg) or "*" in (cg, ov))
                        if not selfc:
                            fail("path-direction-wrong:%s:%s" % (direction, "link-first" if first else "path-first"), "%s got %s" % (lines, lk[0].orient))
    except gfapy.Error as e:
        fail("raises-%s" % type(e).__name__, harness.short(e, 200))
    except Exception as e:
        fail("foreign-%s" % type(e).__name__, harness.short(e, 200))
    return dict(key=case, nontrivial=cg != "*", failures=fails, sample=dict(link=text, other=other))


def cases(tier, seed):
    rng = random.Random(seed)
    cg = cigars(rng, 12 if tier == "quick" else 60)
    out = []
    for (a, b) in (("A", "B"), ("A", "A")):
        for oa in "+-":
            for ob in "+-":
                for c in cg:
                    # 'other': same ends other cigar / complement spelling / different orientation
                    o1 = "L\t%s\t%s\t%s\t%s\t%s" % (a, oa, b, ob, rng.choice([x for x in cg if x != c]))
                    o2 = "L\t%s\t%s\t%s\t%s\t%s" % (b, oracle.inv(ob), a, oracle.inv(oa), oracle.cigar_complement(c))
                    o3 = "L\t%s\t%s\t%s\t%s\t%s" % (a, oracle.inv(oa), b, ob, c)
                    o4 = "L\t%s\t%s\t%s\t%s\t%s" % (b, oracle.inv(ob), a, oracle.inv(oa), c)
                    for o in (o1, o2, o3, o4):
                        out.append((a, oa, b, ob, c, o))
    return out


if __name__ == "__main__":
    tier, seed = harness.args()
    cs = cases(tier, seed)
    res = harness.run(cs, check,
                      rule="every orientation pair x (distinct segments | self-link/hairpin) x CIGAR pool over M,I,D,P,=,X,H (fixed + seeded random) x 4 'other' links (same ends other overlap, complement spelling, "
                           "one orientation flipped, complement with the overlap not complemented): complement fields vs the independent oracle, receiver unchanged, involution, length exchange, symmetric and "
                           "repeatable equivalence tests, equal hashes, is_eql iff same canonical edge; graph level: adding the complement adds nothing and raises nothing, _search_link finds the stored link from "
                           "both forms, a different link is added, paths in both directions (link before/after path) resolve to the stored link with the right direction",
                      bound="CIGARs of <=4 operations with lengths <=3", exhaustive=False)
    harness.emit(res)
