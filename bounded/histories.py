"""History space of the bounded tier: a start document from the catalogue, then up to `depth` legal mutation steps.
Steps are generated from (and mirrored on) the independent TextModel, so every history has an oracle text."""
import itertools, random
from bounded import oracle, universe

TAGTYPE = {int: "i", float: "f", str: "Z"}
NAMED1 = ("S", "P")
NAMED2 = ("S", "E", "G", "O", "U")
ANON = {"gfa1": ("L", "C"), "gfa2": ("E", "G", "F")}


def legal_steps(tm, version, present_ids, with_tags=False):
    steps = []
    for r in tm.recs:
        nm = tm.name_of(r)
        if nm is not None and r.rt != "H":
            steps.append(("rm", nm))
            for new in ("Zz", "7"):
                if tm.find(new) is None:
                    steps.append(("rename", nm, new))
            if version == "gfa2" and r.rt in ("E", "G", "O", "U") and not any(m == nm for x in tm.recs for m, _ in tm.mentions(x)):
                steps.append(("rename", nm, "*"))          # an optional identifier can be dropped when nothing mentions it
            if with_tags and r.rt == "S":
                # a tag keeps its datatype while it exists; a deleted tag is as if never present (the next value decides the datatype)
                for tag in (("xy", "kl") if nm == "D" else ("xy",)):
                    for v in (5, 1.5, "ab"):
                        if tag not in r.tags or r.tags[tag][0] == TAGTYPE[type(v)]:
                            steps.append(("settag", nm, tag, v))
                    if tag in r.tags:
                        steps.append(("deltag", nm, tag))
                if "RC" in r.tags:
                    steps.append(("deltag", nm, "RC"))
            if with_tags and r.rt in ("L", "C") and "ID" in r.tags and not any(m == nm for x in tm.recs for m, _ in tm.mentions(x)):
                steps.append(("deltag", nm, "ID"))         # the identifier of a link / containment is a tag: deleting it makes the line anonymous
        elif r.rt in ANON[version]:
            steps.append(("rm_line", r.text()))
    cat = universe.CAT[version]
    for i, (text, req) in cat.items():
        if i in present_ids or text.startswith("H") or text.startswith("#"):
            continue
        if all(q in present_ids for q in req):
            r = oracle.tokenize(text, version)
            if r.rt == "L" and version == "gfa1" and any(x.rt == "L" and oracle.link_canon(x.pos)[:4] == oracle.link_canon(r.pos)[:4] for x in tm.recs):
                continue      # parallel / equal links: refused or merged by design, not a legal 'add' step here
            nm = tm.name_of(r)
            if nm is not None and tm.find(nm) is not None and r.rt not in ("O", "U"):
                continue
            steps.append(("add", text, i))
    return steps


def apply_model(tm, step, present_ids):
    """mirror of the step on the text model; returns the new set of catalogue ids that are still intact (for 'add' legality)"""
    op = step[0]
    if op == "rm":
        tm.rm(step[1])
    elif op == "rm_line":
        for r in tm.recs:
            if same_line(r.text(), step[1], tm.version):
                tm.rm_record(r)
                break
    elif op == "rename":
        tm.rename(step[1], step[2])
    elif op == "add":
        tm.add(oracle.tokenize(step[1], tm.version))
    elif op == "settag":
        r = tm.find(step[1]); r.tags[step[2]] = (TAGTYPE[type(step[3])], str(step[3]))
    elif op == "deltag":
        r = tm.find(step[1]); r.tags.pop(step[2], None)
    texts = {r.text() for r in tm.recs}
    cat = universe.CAT[tm.version]
    ids = {i for i in present_ids | ({step[2]} if op == "add" else set()) if cat[i][0] in texts}
    return ids


def same_line(a, b, version):
    """two written lines denote the same record (a link being identified with its complement)"""
    if a == b:
        return True
    if version == "gfa1" and a.startswith("L\t") and b.startswith("L\t"):
        ra, rb = oracle.tokenize(a, version), oracle.tokenize(b, version)
        return oracle.link_canon(ra.pos) == oracle.link_canon(rb.pos)
    return False


def histories(version, ids, depth, rng=None, cap=None, with_tags=False):
    """all step sequences of length <= depth (each prefix included once as its own history)"""
    text = universe.text_of(version, ids)
    out = []
    def go(tm, present, prefix, d):
        if d == 0:
            return
        steps = legal_steps(tm, version, present, with_tags)
        if cap is not None and rng is not None and len(steps) > cap:
            steps = rng.sample(steps, cap)
        for st in steps:
            tm2 = tm.copy()
            try:
                present2 = apply_model(tm2, st, set(present))
            except Exception:
                continue
            h = prefix + [st]
            out.append(h)
            go(tm2, present2, h, d - 1)
    go(oracle.TextModel(text, version), set(ids), [], depth)
    return out


def replay_model(version, ids, history):
    tm = oracle.TextModel(universe.text_of(version, ids), version)
    present = set(ids)
    for st in history:
        present = apply_model(tm, st, present)
    return tm


def case_space(tier, seed, with_tags=False, maxp=None, depth=None):
    rng = random.Random(seed)
    cases = []
    maxp = maxp if maxp is not None else (2 if tier == "quick" else 3)
    depth = depth if depth is not None else (2 if tier == "quick" else 3)
    for version in ("gfa1", "gfa2"):
        for ids in universe.documents(version, maxp):
            if not any(not universe.CAT[version][i][0].startswith(("H", "#")) for i in ids):
                continue
            for rev in (False, True):
                order = list(reversed(ids)) if rev else list(ids)
                cases.append((version, order, []))
                cap = None if (tier == "quick" and len(ids) <= 3) else (3 if tier == "quick" else 5)
                for h in histories(version, ids, depth if len(ids) <= 6 else max(1, depth - 1), rng, cap, with_tags):
                    if rev and len(h) > 1:
                        continue
                    cases.append((version, order, h))
    return cases


def describe(version, order, history):
    return dict(version=version, lines=universe.lines_of(version, order), history=[list(s[:4]) for s in history])


def reproducer(version, order, history, tail=""):
    src = ["import gfapy", "from bounded import state", "g = gfapy.Gfa(%r)" % universe.lines_of(version, order)]
    for st in history:
        src.append("state.apply_step(g, %r)" % (tuple(st[:4]),))
    src.append(tail or "print(str(g)); print(state.wf_errors(g))")
    return "\n".join(src)
