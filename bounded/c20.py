"""C20 bounded stand-in: a value assigned to a tag is written in the syntax of its datatype and read back equal."""
import random, math, json
from bounded import harness
from specs import grammar
import gfapy


def smallest_subtype(vals):
    lo, hi = min(vals), max(vals)
    order = ["C", "S", "I"] if lo >= 0 else ["c", "s", "i"]
    for st in order:
        a, b = grammar.SUBTYPE_RANGE[st]
        if a <= lo and hi < b:
            return st
    return None


def values():
    out = []      # (python value, declared datatype or None, expected default datatype, valid)
    ints = [0, 1, -1, 127, 128, -128, -129, 255, 256, 32767, 32768, -32768, -32769, 65535, 65536, 2**31 - 1, 2**31, -2**31, -2**31 - 1, 2**32 - 1, 2**32, 10**20]
    for n in ints:
        out.append((n, None, "i", True))
        out.append((n, "i", "i", True))
    for x in [0.0, 1.5, -2.25, 1e-7, 1e20, 3.0, 1.0000000001]:
        out.append((x, None, "f", True)); out.append((x, "f", "f", True))
    for x in [float("inf"), float("-inf"), float("nan")]:
        out.append((x, None, "f", False)); out.append((x, "f", "f", False))
    for s in ["hello", "a b", "x", " lead", "1", "3.5", "*", "a:b", "~!"]:
        out.append((s, None, "Z", True)); out.append((s, "Z", "Z", True))
    for s in ["a\tb", "a\nb", "é", "\x7f", "", "abc\n", "\n", "abc\r", "abc\n\n"]:
        out.append((s, "Z", "Z", False))
    for s in ["abc\n", "a\tb"]:
        out.append((s, None, "Z", False))
    for c in ["x", "!", "~"]:
        out.append((c, "A", "A", True))
    for c in ["xy", " ", "\t", "x\n", "\n"]:
        out.append((c, "A", "A", False))
    for j in [[1, 2], {"a": 1}, {"k": [1, {"z": None}], "s": "v w"}, [], [[]], ["a\"b"], ["x", 1.5]]:
        if isinstance(j, list) and (all(isinstance(x, int) for x in j) or all(isinstance(x, float) for x in j)):
            # a plain list of ints (or of floats) is an array: documented default B; the empty list is not pinned
            out.append((j, None, "B", True if j else None))
        else:
            out.append((j, None, "J", True))
        out.append((j, "J", "J", True))
    # strings inside JSON may hold anything: the encoder escapes what the field cannot contain (\t, \u00e9): printable text, read back equal
    for j in [{"a": "x\ty"}, ["é"], {"author": "Müller", "n": ["日本", 1]}, {"é": 1}, ["a\nb", "\x7f"]]:
        out.append((j, "J", "J", True)); out.append((j, None, "J", True))
    # what JSON cannot represent, or represents as something else, is reported: non-finite numbers, keys which are not strings, tuples, sets
    for j in [{"a": float("nan")}, [float("inf"), "x"], {1: "a"}, [1, (2, 3)], [{1, 2}], {"a": object}]:
        out.append((j, "J", "J", False)); out.append((j, None, "J", False))
    # booleans are not integers of a tag, nor elements of a numeric array; a float array holds finite values; an integer too large for a float
    out.append((True, None, "i", False)); out.append((False, "i", "i", False))
    out.append(([True, False], None, "J", True)); out.append(([True, False], "B", "B", False)); out.append(([float("inf")], None, "B", False)); out.append(([1.5, float("nan")], "B", "B", False))
    out.append((10**400, "f", "f", False)); out.append((-10**400, "f", "f", False))
    out.append((2**70, "f", "f", True))
    # a string given for an H tag is hex text: an odd number of digits is not a byte array
    out.append(("ABC", "H", "H", False)); out.append(("0g", "H", "H", False))
    for lo_hi in [(0, 255), (0, 256), (-128, 127), (-129, 0), (-1, 128), (0, 65535), (0, 65536), (-32768, 32767), (-32769, 1), (0, 2**32 - 1), (-2**31, 2**31 - 1)]:
        arr = [lo_hi[0], 3, lo_hi[1]]
        out.append((gfapy.NumericArray(arr), None, "B", True)); out.append((gfapy.NumericArray(arr), "B", "B", True))
    for arr in [[0, 2**32], [-1, 2**31], [-2**31 - 1, 0]]:
        out.append((gfapy.NumericArray(arr), "B", "B", False))
    for arr in [[1.5, 2.5], [0.0]]:
        out.append((gfapy.NumericArray(arr), None, "B", True))
    out.append((gfapy.NumericArray([1, 2.5]), "B", "B", False))
    # a mixed array is refused wherever the element of the other kind stands (first, middle, last); a bool is not an integer
    for arr in [[2.5, 1, 2], [1, 2.5, 2], [1, 2, 2.5], [True, 1, 2], [1, True, 2], [1, 2, True], [1.5, 2], [2, 1.5], [1.5, True], ["1", 2], [2, "1"], [None, 1]]:
        out.append((gfapy.NumericArray(arr), "B", "B", False))
    out.append((gfapy.NumericArray([]), "B", "B", False))
    for b in [[0], [1, 2, 255], list(range(16))]:
        out.append((gfapy.ByteArray(b), None, "H", True)); out.append((gfapy.ByteArray(b), "H", "H", True))
    out.append((gfapy.ByteArray([]), "H", "H", False))
    return out


def same(a, b):
    if isinstance(a, float) and isinstance(b, float):
        return a == b or (math.isnan(a) and math.isnan(b))
    if isinstance(a, (gfapy.NumericArray, list)) and isinstance(b, (gfapy.NumericArray, list)):
        return list(a) == list(b)
    return a == b and (type(a) is type(b) or isinstance(a, (int, float)) and isinstance(b, (int, float)) and not isinstance(a, bool))


def header_case(case):
    """the same value set on the header of a Gfa: the tag is written through the header split (one H line per tag)"""
    idx, vlevel, tagname, version, _ = case
    value, declared, default, valid = values()[idx]
    fails = []
    dt = declared or default
    def fail(sig, what):
        fails.append(dict(signature="C20:header:" + sig, what=what, case=dict(value=repr(value), declared=declared, vlevel=vlevel, tag=tagname),
                          reproducer="import gfapy\ng = gfapy.Gfa(vlevel=%d, version=%r)\n%sg.header.set(%r, %r)\nprint(str(g)); print([str(h) for h in g.headers])" % (vlevel, version, ("g.header.set_datatype(%r, %r)\n" % (tagname, declared)) if declared else "", tagname, value)))
    try:
        g = gfapy.Gfa(vlevel=vlevel, version=version)
        if declared:
            g.header.set_datatype(tagname, declared)
        g.header.set(tagname, value)
        hs = [str(h) for h in g.headers if tagname + ":" in str(h)]
        ts = [x for x in str(g).split("\n") if x.startswith("H\t") and tagname + ":" in x]
        if hs != ts or len(hs) != 1:
            fail("headers-and-text-differ", "%r vs %r" % (hs, ts))
        else:
            n, d, v = hs[0].split("\t")[-1].split(":", 2)
            if d != dt:
                fail("written-datatype:%s-instead-of-%s" % (d, dt), hs[0])
            elif grammar.value_ok(dt, v) is False:
                fail("written-value-not-in-grammar:%s" % dt, hs[0])
            else:
                g2 = gfapy.Gfa([hs[0]], vlevel=max(vlevel, 1))
                if g2.header.get_datatype(tagname) != dt:
                    fail("reparsed-datatype-differs:%s" % dt, hs[0])
                elif not same(g2.header.get(tagname), value):
                    fail("read-back-differs:%s" % dt, "%r -> %s -> %r" % (value, hs[0], g2.header.get(tagname)))
    except gfapy.Error as e:
        fail("raises-%s" % type(e).__name__, harness.short(e, 150))
    except Exception as e:
        fail("foreign-%s:%s" % (type(e).__name__, dt), harness.short(e, 150))
    return dict(key=case, nontrivial=True, failures=fails, sample=dict(value=repr(value), declared=declared, vlevel=vlevel, carrier="header"))


def check(case):
    if len(case) == 5:
        return header_case(case)
    idx, vlevel, tagname, version = case
    value, declared, default, valid = values()[idx]
    base = "S\tA\t*" if version == "gfa1" else "S\tA\t8\t*"
    fails = []
    def fail(sig, what):
        fails.append(dict(signature="C20:" + sig, what=what, case=dict(value=repr(value), declared=declared, vlevel=vlevel, tag=tagname),
                          reproducer="import gfapy\nl = gfapy.Line(%r, vlevel=%d)\n%sl.set(%r, %r)\nprint(str(l)); l.validate()" % (base, vlevel, ("l.set_datatype(%r, %r)\n" % (tagname, declared)) if declared else "", tagname, value)))
    dt = declared or default
    try:
        l = gfapy.Line(base, vlevel=vlevel)
        if declared:
            l.set_datatype(tagname, declared)
        reported = None
        text = None
        try:
            l.set(tagname, value)
        except gfapy.Error as e:
            reported = "set"
        if reported is None:
            try:
                text = str(l)
                if "INVALID" in text:
                    reported = "write-marker"
            except gfapy.Error:
                reported = "write"
        vrep = None
        if reported != "set":
            try:
                l.validate()
            except gfapy.Error:
                vrep = "validate"
        if valid is True:
            if reported or vrep:
                fail("valid-value-rejected:%s:%s" % (dt, reported or vrep), repr(value))
            else:
                if l.get_datatype(tagname) != dt:
                    fail("datatype:%s-instead-of-%s" % (l.get_datatype(tagname), dt), repr(value))
                f = text.split("\t")[-1]
                n, d, v = f.split(":", 2)
                if n != tagname or d != dt:
                    fail("written-tag-header:%s" % dt, f)
                ok = grammar.value_ok(dt, v)
                if ok is False:
                    fail("written-value-not-in-grammar:%s" % dt, f)
                if dt == "B" and not isinstance(list(value)[0], float):
                    if v.split(",")[0] != smallest_subtype(list(value)):
                        fail("array-subtype-not-smallest", "%s for %r" % (v.split(",")[0], list(value)))
                l2 = gfapy.Line(text, vlevel=max(vlevel, 1))
                back = l2.get(tagname)
                if l2.get_datatype(tagname) != dt:
                    fail("reparsed-datatype-differs:%s" % dt, f)
                if not same(back, value):
                    fail("read-back-differs:%s" % dt, "%r -> %s -> %r" % (value, f, back))
                if same(l.get(tagname), value) is False:
                    fail("get-after-set-differs:%s" % dt, "%r -> %r" % (value, l.get(tagname)))
                # deleting the tag and setting it again gives the same line (a deleted tag is as if it had never been there)
                try:
                    l.delete(tagname)
                    if declared:
                        l.set_datatype(tagname, declared)
                    l.set(tagname, value)
                    if str(l) != text:
                        fail("set-delete-set-differs:%s" % dt, "%r then %r" % (text, str(l)))
                except gfapy.Error as e:
                    fail("set-after-delete-raises-%s:%s" % (type(e).__name__, dt), harness.short(e, 120))
                # the same through the attribute syntax (the line knows the tag name by now): a new tag takes the default datatype of its value
                if not declared:
                    try:
                        l.delete(tagname)
                        setattr(l, tagname, value)
                        t2 = str(l)
                        if t2 != text:
                            fail("delete-then-attribute-assignment-differs:%s" % dt, "%r then %r" % (text, t2))
                        elif l.get_datatype(tagname) != dt:
                            fail("delete-then-attribute-assignment-datatype:%s-instead-of-%s" % (l.get_datatype(tagname), dt), repr(value))
                    except gfapy.Error as e:
                        fail("attribute-assignment-after-delete-raises-%s:%s" % (type(e).__name__, dt), harness.short(e, 120))
                    # a tag removed by assigning None is gone with its datatype: a value of another kind then makes a new tag
                    try:
                        l.set(tagname, None)
                        other, odt, otext = ("s", "Z", "s") if not isinstance(value, str) else (7, "i", "7")
                        l.set(tagname, other)
                        f2 = [x for x in str(l).split("\t") if x.startswith(tagname + ":")]
                        if f2 != ["%s:%s:%s" % (tagname, odt, otext)]:
                            fail("none-then-new-value-keeps-old-datatype:%s" % dt, "%r then %r written %r" % (value, other, f2))
                    except gfapy.Error as e:
                        fail("set-after-none-raises-%s:%s" % (type(e).__name__, dt), harness.short(e, 120))
        elif valid is False:
            if reported is None and vrep is None:
                fail("unrepresentable-value-not-reported:%s" % dt, "%r written as %r" % (value, text))
            elif vlevel >= 2 and reported is None:
                fail("unrepresentable-value-written-at-level%d:%s" % (vlevel, dt), "%r written as %r" % (value, text))
            elif reported != "set" and vrep is None:
                # "reported by validation (and by writing at level >= 2)": validate() itself must object, not only the writer
                fail("unrepresentable-value-passes-validate:%s" % dt, "%r (written as %r)" % (value, text))
    except gfapy.Error as e:
        fail("raises-%s" % type(e).__name__, harness.short(e, 150))
    except Exception as e:
        fail("foreign-%s:%s" % (type(e).__name__, dt), harness.short(e, 150))
    return dict(key=case, nontrivial=True, failures=fails, sample=dict(value=repr(value), declared=declared, vlevel=vlevel))


def cases(tier, seed):
    n = len(values())
    out = []
    for i in range(n):
        for vlevel in (0, 1, 2, 3):
            for tag, version in (("xx", "gfa1"), ("a1", "gfa2")):
                out.append((i, vlevel, tag, version))
                if values()[i][3] is True:
                    out.append((i, vlevel, tag, version, "header"))
    return out


if __name__ == "__main__":
    tier, seed = harness.args()
    cs = cases(tier, seed)
    res = harness.run(cs, check,
                      rule="value pool per Python type (integers at every B-subtype boundary +-1 and beyond 2^32, finite and non-finite floats, strings with spaces/tabs/newlines/non-ASCII, single characters, "
                           "nested JSON, integer arrays spanning each subtype range and just outside, float/mixed/empty arrays, byte arrays incl. empty) x declared datatype or new tag x vlevel 0-3 x 2 tag names: "
                           "default datatype, written syntax vs the grammar oracle, smallest array subtype, reparse returns an equal value and the same datatype; unrepresentable values are reported "
                           "by validate() and by writing at level >= 2; every valid value is also set on the header of a Gfa and observed through Gfa.headers / str(Gfa) (header split). exhaustive over the pool", bound="value pool of bounded/c20.py", exhaustive=True)
    harness.emit(res)
