"""C04 bounded stand-in: exhaustive short strings per datatype and single-point mutations of valid lines, against the
independent grammar oracle (specs/grammar.py).  Also records every foreign exception (shared with C07)."""
import itertools, random, sys
from bounded import harness, universe
from specs import grammar
import gfapy

ALPHABET = "01+-_.eE$*, aAfM:\x0b"
ALIGNMENT_ALPHABET = "12M=XSI,*-"
DATATYPES = [d for d in grammar.GRAMMAR if d not in ("comment",)]


def field_case(case):
    _, dt, s = case
    mod = gfapy.Field.FIELD_MODULE[dt]
    want = grammar.value_ok(dt, s)
    fails = []
    def fail(sig, what):
        fails.append(dict(signature=sig, what=what, case=dict(datatype=dt, string=s),
                          reproducer="import gfapy\nm = gfapy.Field.FIELD_MODULE[%r]\nprint(m.decode(%r)); m.validate_encoded(%r)" % (dt, s, s)))
    res = {}
    for fn in ("decode", "validate_encoded", "unsafe_decode"):
        try:
            # unsafe_decode is reached by the public API only through the field parser (vlevel 0)
            v = getattr(mod, fn)(s) if fn != "unsafe_decode" else gfapy.Field._parse_gfa_field(s, dt, safe=False)
            res[fn] = (True, v)
        except gfapy.Error as e:
            res[fn] = (False, e)
        except Exception as e:
            res[fn] = (False, e)
            fail("C07:foreign-exception:%s.%s:%s" % (dt, fn, type(e).__name__), "%s(%r) raised %s: %s" % (fn, s, type(e).__name__, harness.short(e, 120)))
    if want is not None:
        for fn in ("decode", "validate_encoded"):
            if dt == "B" and fn == "validate_encoded":
                continue          # the subtype range is a value rule: checked by decode and at line level
            ok = res[fn][0]
            if ok and not want:
                fail("C04:%s.%s:accepts-invalid" % (dt, fn), "%s(%r) accepted, grammar says invalid" % (fn, s))
            if (not ok) and want and isinstance(res[fn][1], gfapy.Error):
                fail("C04:%s.%s:rejects-valid" % (dt, fn), "%s(%r) rejected (%s), grammar says valid" % (fn, s, type(res[fn][1]).__name__))
    if res["decode"][0] and want is not None:
        if not res["unsafe_decode"][0]:
            fail("C18:%s:unsafe_decode-rejects-what-decode-accepts" % dt, repr(s))
        try:
            mod.validate_decoded(res["decode"][1])
        except Exception as e:
            fail("C04:%s:validate_decoded-rejects-decoded-value:%s" % (dt, type(e).__name__), "%r -> %s" % (s, harness.short(e, 120)))
    return dict(key=(dt, s), nontrivial=bool(want) or res["decode"][0], failures=fails, sample=dict(datatype=dt, string=s, oracle=want, decode_ok=res["decode"][0]))


def mutations(line, rng, n):
    out = set()
    chars = "0A+-*$,:\t x"
    for _ in range(n * 3):
        i = rng.randrange(len(line) + 1)
        k = rng.randrange(3)
        if k == 0 and i < len(line):
            out.add(line[:i] + line[i + 1:])
        elif k == 1:
            out.add(line[:i] + rng.choice(chars) + line[i:])
        elif i < len(line):
            out.add(line[:i] + rng.choice(chars) + line[i + 1:])
        if len(out) >= n:
            break
    f = line.split("\t")
    if len(f) > 2:
        out.add("\t".join(f[:-1]))
        out.add("\t".join(f + [f[-1]]))
    return sorted(out)


def line_case(case):
    _, version, line, vlevel = case
    want = grammar.line_ok(line, version)
    fails = []
    def fail(sig, what):
        fails.append(dict(signature=sig, what=what, case=dict(version=version, line=line, vlevel=vlevel),
                          reproducer="import gfapy\nl = gfapy.Line(%r, version=%r, vlevel=%d)\nl.validate()\nprint(l)" % (line, version, vlevel)))
    ok = None
    try:
        l = gfapy.Line(line, version=version, vlevel=vlevel)
        ok = True
        try:
            l.validate()
        except gfapy.Error as e:
            ok = False            # refused by the explicit validation: still 'not silently kept'
            if want:
                fail("C04:line:%s:accepted-then-validate-fails" % line[:1], "%r: %s" % (line, harness.short(e, 150)))
        if ok and want:
            if str(l).split("\t")[0] != line.split("\t")[0]:
                fail("C04:line:record-type-changed", "%r -> %r" % (line, str(l)))
    except gfapy.Error:
        ok = False
    except Exception as e:
        ok = False
        fail("C07:foreign-exception:Line:%s:%s" % (line[:1] if line else "empty", type(e).__name__), "Line(%r, version=%s, vlevel=%d) raised %s: %s" % (line, version, vlevel, type(e).__name__, harness.short(e, 120)))
    if want is True and ok is False and not fails:
        fail("C04:line:%s:rejects-valid" % line[:1], repr(line))
    if want is False and ok is True:
        # cross-field rules may be enforced when the line joins a Gfa (construction or Gfa.validate)
        segs = [universe.CAT[version][i][0] for i in ("sA", "sB", "sC")]
        if version == "gfa1" and line.startswith("P\t"):
            segs = segs + ["L\tA\t+\tB\t+\t*", "L\tB\t+\tC\t-\t*", "L\tC\t-\tA\t+\t*"]      # the links a path over A+,B+,C- may need
        try:
            g = gfapy.Gfa(segs + [line], version=version, vlevel=vlevel)
            g.validate()
            why = ""
            if version == "gfa2" and line[:1] in "EF":
                f = line.split("\t")
                ps = f[4:8] if line[0] == "E" else f[3:7]
                try:
                    if any(b.endswith("$") and e.endswith("$") and b != e for b, e in ((ps[0], ps[1]), (ps[2], ps[3]))):
                        # both positions claim to be the last one: one of them is not. The segments of this context have no sequence ('*'), so this
                        # is the known finding KF-dollar-not-checked-against-slen seen at line level
                        why = ":dollar-on-two-different-positions"
                except Exception:
                    pass
            fail("C04:line:%s:accepts-invalid%s" % (line[:1], why), repr(line))
        except gfapy.Error:
            pass
        except Exception as e:
            fail("C07:foreign-exception:Gfa:%s:%s" % (line[:1], type(e).__name__), "%r: %s" % (line, harness.short(e, 120)))
    return dict(key=(version, line), nontrivial=want is not None, failures=fails, sample=dict(line=line, version=version, oracle=want, accepted=ok))


def doc_case(case):
    """document-level cross-line rule: `$` only on the last position of the segment (its declared length slen)"""
    _, seq1, seq2, pair, positions, vlevel = case
    lines = ["S\tA\t8\t%s" % seq1, "S\tB\t8\t%s" % seq2]
    p = {"1": ("0", "2"), "2": ("0", "2")}
    p[pair] = positions
    el = "E\te\tA+\tB-\t%s\t%s\t%s\t%s\t*" % (p["1"] + p["2"])
    want = grammar.line_ok(el, "gfa2")
    fails = []
    if want is True:
        for x in positions:
            if x.endswith("$") and int(x[:-1]) != 8:
                want = False
    try:
        g = gfapy.Gfa(lines + [el], vlevel=vlevel)
        g.validate()
        ok = True
    except gfapy.Error:
        ok = False
    except Exception as e:
        ok = None
        fails.append(dict(signature="C07:foreign-exception:Gfa:E:%s" % type(e).__name__, what="%r: %s" % (el, harness.short(e, 120)), case=dict(lines=lines + [el], vlevel=vlevel)))
    seq = seq1 if pair == "1" else seq2
    if want is False and ok is True:
        fails.append(dict(signature="C04:doc:E:accepts-invalid:dollar-on-non-last-position:sequence-%s" % ("unknown" if seq == "*" else "known"),
                          what="%r accepted although segment %s has length 8" % (el, "A" if pair == "1" else "B"), case=dict(lines=lines + [el], vlevel=vlevel),
                          reproducer="import gfapy\ng = gfapy.Gfa(%r, vlevel=%d); g.validate(); print('accepted')" % (lines + [el], vlevel)))
    if want is True and ok is False:
        fails.append(dict(signature="C04:doc:E:rejects-valid", what=repr(el), case=dict(lines=lines + [el], vlevel=vlevel)))
    return dict(key=case, nontrivial=want is not None, failures=fails, sample=dict(lines=lines + [el], oracle=want, accepted=ok))


RGFA_S_TAGS = {"SN": "Z", "SO": "i", "SR": "i"}
RGFA_L_TAGS = {"SR": "i", "L1": "i", "L2": "i"}
_RGFA_VAL = {"Z": "chr1", "i": "0", "f": "3.0", "A": "x", "J": "1"}


def rgfa_case(case):
    """rGFA dialect (oracle written from the rGFA specification): S lines carry SN:Z, SO:i, SR:i; L lines may carry SR, L1, L2, all of type i; overlaps are 0M;
    no H, C, P lines.  case = ("rgfa", tags of S line 1 as ((name, type), ...), tags of the L line, overlap, extra line or None, vlevel)"""
    _, stags, ltags, ov, extra, vlevel = case
    tg = lambda tags: "".join("\t%s:%s:%s" % (n, t, _RGFA_VAL[t]) for n, t in tags)
    lines = ["S\ts1\t*" + tg(stags), "S\ts2\t*\tSN:Z:chr1\tSO:i:10\tSR:i:0", "L\ts1\t+\ts2\t+\t%s" % ov + tg(ltags)] + ([extra] if extra else [])
    sd, ld = dict(stags), dict(ltags)
    want = (all(sd.get(n) == t for n, t in RGFA_S_TAGS.items()) and all(ld[n] == t for n, t in RGFA_L_TAGS.items() if n in ld) and ov == "0M" and extra is None)
    fails = []
    try:
        g = gfapy.Gfa(lines, vlevel=vlevel, dialect="rgfa")
        g.validate()
        ok = True
    except gfapy.Error:
        ok = False
    except Exception as e:
        ok = None
        fails.append(dict(signature="C07:foreign-exception:Gfa:rgfa:%s" % type(e).__name__, what="%r: %s" % (lines, harness.short(e, 120)), case=dict(lines=lines, vlevel=vlevel)))
    rep = "import gfapy\ng = gfapy.Gfa(%r, vlevel=%d, dialect='rgfa'); g.validate(); print('accepted')" % (lines, vlevel)
    if want is False and ok is True:
        why = ("S-tags" if not all(sd.get(n) == t for n, t in RGFA_S_TAGS.items()) else "L-tag-datatype" if not all(ld[n] == t for n, t in RGFA_L_TAGS.items() if n in ld)
               else "overlap" if ov != "0M" else "record-type-%s" % extra[0])
        fails.append(dict(signature="C04:doc:rgfa:accepts-invalid:%s" % why, what="%r accepted in the rGFA dialect" % (lines,), case=dict(lines=lines, vlevel=vlevel), reproducer=rep))
    if want is True and ok is False:
        fails.append(dict(signature="C04:doc:rgfa:rejects-valid", what=repr(lines), case=dict(lines=lines, vlevel=vlevel), reproducer=rep))
    return dict(key=case, nontrivial=True, failures=fails, sample=dict(lines=lines, oracle=want, accepted=ok))


def check(case):
    if case[0] == "rgfa":
        return rgfa_case(case)
    if case[0] == "doc":
        return doc_case(case)
    return field_case(case) if case[0] == "field" else line_case(case)


def cases(tier, seed):
    rng = random.Random(seed)
    out = []
    maxlen = 3 if tier == "quick" else 4
    strings = [""]
    for k in range(1, maxlen + 1):
        strings.extend("".join(t) for t in itertools.product(ALPHABET, repeat=k))
    if tier == "quick":
        strings += ["".join(rng.choice(ALPHABET) for _ in range(4)) for _ in range(3000)]
    extra = ["1_0", " 5", "+5 ", "inf", "nan", "1_0.5", "1e400", "0a", "0A", "ABC", "{}", "[1]", "1", "\"x\"", "NaN", "c,1", "c,128", "C,-1", "C,256", "i,1,2", "f,1.5", "f,x",
             "S,65536", "c,1,", ",1", "3M", "3M1I", "1,2,3", "5", "3M,1", "A+", "A+,B-", "A+ B-", "A B", "A  B", "a,+", ",+", "x+,", "*", "**", "3Q", "10$", "$", "1$2"]
    strings += extra
    # values as the API can hand them over: a valid text followed by a newline, or with a tab inside
    strings += ["5\n", "abc\n", "A\n", "1.5\n", "0A\n", "3M\n", "*\n", "A+\n", "c,1\n", "[1]\n", "10$\n", "A+,B-\n", "A B\n", "\n", "a\tb", "5\t"]
    for dt in DATATYPES:
        for s in strings:
            if ("\t" in s or "\n" in s) and dt in ("generic", "comment"):
                continue                     # (free text: pinned on what a document field can be)
            out.append(("field", dt, s))
    # alignments over their own alphabet (digits, every CIGAR operation class of either version, the trace separator and sign, the placeholder)
    astrings = []
    for k in range(1, (4 if tier == "quick" else 5) + 1):
        astrings.extend("".join(t) for t in itertools.product(ALIGNMENT_ALPHABET, repeat=k))
    for dt in ("alignment_gfa1", "alignment_gfa2", "alignment_list_gfa1"):
        if dt in DATATYPES:
            for s_ in astrings:
                out.append(("field", dt, s_))
    # cross-field shapes: P lines with 1-4 segments and 0-5 overlaps (all '*', all CIGARs, mixed)
    segs = ["A+", "B+", "C-"]
    for ns in range(1, 4):
        for no in range(1, 6):
            for ovk in ("star", "cigar", "mixed"):
                ov = ["*" if (ovk == "star" or (ovk == "mixed" and k % 2)) else "1M" for k in range(no)]
                for vlevel in (1, 2, 3):
                    out.append(("line", "gfa1", "P\tp\t%s\t%s" % (",".join(segs[:ns]), ",".join(ov)), vlevel))
    # interval grids on lines taken alone: F lines (both intervals) and E lines that are not connected
    posv = ["0", "2", "5", "8$", "5$", "0$"]
    for b in posv:
        for e in posv:
            for vlevel in (1, 2, 3):
                out.append(("line", "gfa2", "F\tA\tx+\t%s\t%s\t0\t4\t*" % (b, e), vlevel))
                out.append(("line", "gfa2", "F\tA\tx+\t0\t4\t%s\t%s\t*" % (b, e), vlevel))
                out.append(("line", "gfa2", "E\t*\tA+\tB-\t%s\t%s\t0\t4\t*" % (b, e), vlevel))
                out.append(("line", "gfa2", "E\te1\tA+\tB-\t0\t4\t%s\t%s\t*" % (b, e), vlevel))
    # document level: `$` against the length of the segment, for known and unknown sequences of either segment
    for seq1 in ("*", "ACGTACGT"):
        for seq2 in ("*", "ACGTACGT"):
            for pair in "12":
                for positions in (("0", "8$"), ("0", "5$"), ("8$", "8$"), ("5$", "5$"), ("0", "8"), ("3", "5"), ("0", "9$")):
                    for vlevel in (1, 2, 3):
                        out.append(("doc", seq1, seq2, pair, positions, vlevel))
    # the rGFA dialect: mandatory S tags (present / absent / wrongly typed), optional L tags (each absent / typed i / wrongly typed), overlap, forbidden record types
    good_s = (("SN", "Z"), ("SO", "i"), ("SR", "i"))
    s_variants = [good_s] + [tuple(x for x in good_s if x[0] != n) for n in RGFA_S_TAGS] + [tuple((a, (bad if a == n else t)) for a, t in good_s) for n in RGFA_S_TAGS for bad in ("f", "A")]
    l_variants = [()] + [((n, t),) for n in RGFA_L_TAGS for t in ("i", "Z", "f", "J")] + [(("SR", "i"), ("L1", "i"), ("L2", "i")), (("SR", "i"), ("L1", "i"), ("L2", "Z")), (("SR", "i"), ("L1", "f"), ("L2", "i"))]
    for vlevel in (1, 2, 3):
        for sv in s_variants:
            out.append(("rgfa", sv, (), "0M", None, vlevel))
        for lv in l_variants:
            out.append(("rgfa", good_s, lv, "0M", None, vlevel))
        for ov_ in ("*", "1M", "0M1I"):
            out.append(("rgfa", good_s, (), ov_, None, vlevel))
        for extra in ("H\tVN:Z:1.0", "C\ts1\t+\ts2\t+\t0\t*", "P\tp\ts1+,s2+\t0M"):
            out.append(("rgfa", good_s, (), "0M", extra, vlevel))
    nmut = 12 if tier == "quick" else 40
    for version in ("gfa1", "gfa2"):
        for i, (text, req) in universe.CAT[version].items():
            if text.startswith("#"):
                continue
            for vlevel in (1, 2, 3):
                out.append(("line", version, text, vlevel))
            for m in mutations(text, rng, nmut):
                out.append(("line", version, m, rng.choice([1, 2, 3])))
    return out


if __name__ == "__main__":
    tier, seed = harness.args()
    cs = cases(tier, seed)
    res = harness.run(cs, check,
                      rule="field level: every string of length <=%d over the %d-character alphabet %r (+ %s) x %d datatypes, decode/validate_encoded verdict vs the oracle grammar (cells marked ~ skipped); "
                           "line level: every catalogue line and single-point mutations (delete/insert/replace one character, drop/duplicate last field), gfapy.Line at vlevel 1-3 vs oracle line_ok. "
                           "rGFA dialect: 96 documents (mandatory S tags present / absent / wrongly typed, optional L tags SR L1 L2 absent / typed i / wrongly typed, overlap 0M or not, an H / C / P line) at vlevel 1-3, Gfa(..., dialect='rgfa') + validate() vs the rGFA rules. "
                           "non-trivial = the oracle pins the verdict; distinct = distinct (datatype,string) / (version,line)" % (3 if tier == "quick" else 4, len(ALPHABET), ALPHABET, "3000 random length-4 strings and a list of edge cases" if tier == "quick" else "edge cases", len(DATATYPES)),
                      bound="strings of length <=%d exhaustively" % (3 if tier == "quick" else 4), exhaustive=False)
    harness.emit(res)
