"""C01 bounded stand-in: parse -> write round trip on the shared universe, against the independent tokenizer/view."""
import os, random, sys, tempfile, itertools
from bounded import harness, oracle, universe
import gfapy

TAGPOOL = {
    "A": ["x", "!", "~"],
    "i": ["0", "-5", "+7", "007", "2147483648"],
    "f": ["1.5", "-0.25", "1e3", ".5", "2", "1E-2"],
    "Z": ["hello world", "a:b:c", " lead", "x"],
    "J": ['{"a":1}', '[1, 2, {"b": [null, true]}]', '{"k": "v w"}', "[]"],
    "H": ["00", "1A2B", "FFFF"],
    "B": ["c,1,-2", "C,1,255", "i,5", "S,65535", "f,1.5,2", "I,4294967295", "s,-32768,32767", "s,-1,128", "i,-5,12,32768", "c,-128,127", "i,-1,2147483647",
          "S,256", "I,65536", "s,-129,0"],
}


def build(entry, lines, vlevel, version=None):
    kw = dict(vlevel=vlevel)
    if version:
        kw["version"] = version
    if entry == "string":
        return gfapy.Gfa("\n".join(lines), **kw)
    if entry == "string_nl":
        return gfapy.Gfa("\n".join(lines) + "\n", **kw)
    if entry == "list":
        return gfapy.Gfa(list(lines), **kw)
    eol = "\r\n" if entry == "crlf" else "\n"
    fd, path = tempfile.mkstemp(prefix="gfapy_verif_c01_", suffix=".gfa")
    try:
        with os.fdopen(fd, "w", newline="") as f:
            f.write(eol.join(lines) + eol)
        return gfapy.Gfa.from_file(path, **kw)
    finally:
        os.unlink(path)


def check(case):
    version, lines, entry, vlevel, explicit = case
    T = "\n".join(lines)
    fails = []
    key = (version, tuple(sorted(lines)))
    def fail(sig, what):
        fails.append(dict(signature=sig, what=what, case=dict(version=version, lines=lines, entry=entry, vlevel=vlevel, explicit=explicit),
                          reproducer="import gfapy\ng = gfapy.Gfa(%r, vlevel=%d)\nprint(str(g))" % (T, vlevel)))
    try:
        g = build(entry, lines, vlevel, version if explicit else None)
        W = str(g)
    except Exception as e:
        fail("C01:valid-document-rejected:%s:%s" % (type(e).__name__, entry if entry == "string_nl" else "any"), "%s: %s" % (type(e).__name__, harness.short(e)))
        return dict(key=key, nontrivial=True, failures=fails)
    try:
        vt, want = oracle.view(T, version)
        vw, got = oracle.view(W, version)
        # a link supplied in both complement forms is stored once
        for k in list(want):
            if k[0] == "L" and want[k] > 1:
                want[k] = 1
        if g.version != version and (explicit or oracle.version_of(lines) is not None):
            fail("C01:version", "version %s != %s" % (g.version, version))
        if "INVALID" in W:
            fail("C01:invalid-marker", harness.short(W))
        if want != got:
            d = oracle.view_diff(want, got)
            rts = sorted(set(x.split("'")[1] if "'" in x else "?" for x in d["missing"] + d["extra"]))
            fail("C01:view-differs:" + ",".join(rts), str(d))
        W2 = str(gfapy.Gfa(W, vlevel=vlevel))
        if W2 != W:
            fail("C01:not-a-fixed-point", harness.short(W) + " ### " + harness.short(W2))
    except Exception as e:
        fail("C01:oracle-or-reparse-error:%s" % type(e).__name__, "%s: %s" % (type(e).__name__, harness.short(e)))
    return dict(key=key, nontrivial=len(lines) > 0, failures=fails, sample=dict(text=T, entry=entry, vlevel=vlevel))


def cases(tier, seed):
    rng = random.Random(seed)
    out = []
    maxp = 2 if tier == "quick" else 3
    for version in ("gfa1", "gfa2"):
        docs = list(universe.documents(version, maxp))
        for ids in docs:
            lines = universe.lines_of(version, ids)
            for rev in (False, True):
                ls = list(reversed(lines)) if rev else lines
                if tier == "quick":
                    combos = [(rng.choice(["string", "list", "lf", "crlf", "string_nl"]), rng.choice([0, 1, 2, 3]), rng.random() < 0.3)]
                    if len(ids) <= 4:
                        combos += [("string", 1, False), ("crlf", 0, False)]
                else:
                    combos = [(e, v, x) for e in ("string", "list", "lf", "crlf", "string_nl") for v in (0, 1, 2, 3) for x in (False, True)]
                    combos = rng.sample(combos, 6)
                for e, v, x in combos:
                    out.append((version, ls, e, v, x))
    # tag datatypes x value pool on S / L / custom / header lines
    for version in ("gfa1", "gfa2"):
        seg = "S\tA\t*" if version == "gfa1" else "S\tA\t8\t*"
        for dt, vals in TAGPOOL.items():
            for val in vals:
                for vlevel in (0, 1, 2, 3):
                    out.append((version, [seg + "\txx:%s:%s" % (dt, val)], "string", vlevel, False))
                    out.append((version, [seg, "H\txx:%s:%s" % (dt, val)], "list", vlevel, False))
                if version == "gfa2":
                    out.append((version, [seg, "X\tq\txx:%s:%s" % (dt, val)], "string", 1, False))
        for (d1, v1), (d2, v2) in itertools.combinations([(d, v[0]) for d, v in TAGPOOL.items()], 2):
            out.append((version, [seg + "\txx:%s:%s\tyy:%s:%s" % (d1, v1, d2, v2)], "string", 1, False))
    return out


if __name__ == "__main__":
    tier, seed = harness.args()
    cs = cases(tier, seed)
    res = harness.run(cs, check,
                      rule="documents = subsets of <=%d non-segment catalogue lines closed under their references (GFA1 and GFA2), forward and reverse order, "
                           "entry point x vlevel x explicit version sampled per document with VERIF_SEED; plus every tag datatype x value pool on S/H/custom lines at levels 0-3. "
                           "non-trivial = non-empty document; distinct = distinct (version, set of lines)" % (2 if tier == "quick" else 3),
                      bound="<=%d primary lines per document" % (2 if tier == "quick" else 3), exhaustive=False)
    harness.emit(res)
