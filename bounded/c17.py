"""C17 bounded stand-in: GFA2 groups resolve to the paths and sets the specification defines (reference implementation on text)."""
import itertools, random
from bounded import harness, oracle
import gfapy

SEGS = ["A", "B", "C", "D"]
BASE = ["S\t%s\t8\t*" % s for s in SEGS]
EDGES = {
    "e1": ("A+", "B+"), "e2": ("B+", "C+"), "e3": ("C+", "D+"), "e4": ("A+", "C-"), "e5": ("B+", "C+"), "e6": ("D-", "A+"), "e7": ("B-", "A-"),
    "e8": ("A+", "A+"),                 # an edge of a segment with itself (listed twice among the edges of A)
}
EPOS = {"e1": "6\t8$\t0\t2", "e2": "6\t8$\t0\t2", "e3": "6\t8$\t0\t2", "e4": "6\t8$\t6\t8$", "e5": "5\t8$\t0\t3", "e6": "0\t2\t0\t2", "e7": "0\t2\t6\t8$", "e8": "6\t8$\t0\t2"}


def eline(e):
    return "E\t%s\t%s\t%s\t%s\t*" % (e, EDGES[e][0], EDGES[e][1], EPOS[e])


def inv(t):
    return t[:-1] + oracle.inv(t[-1])


class NotFound(Exception): pass
class NotUnique(Exception): pass
class Unsupported(Exception): pass


def fit(edges, x, y):
    """edges fitting the adjacent oriented segments x -> y, with the direction of traversal"""
    out = []
    for e in edges:
        s1, s2 = EDGES[e]
        if {s1, s2} == {x, y} and (s1 != s2 or x == y):
            out.append(e + "+")
        elif {s1, s2} == {inv(x), inv(y)}:
            out.append(e + "-")
    return out


def boundary_is_edge(name, last, groups, edges, depth=0):
    """whether the group's item list, with nested references substituted, ends (last=True) / begins (last=False) with an edge item"""
    items = groups[name]
    if not items or depth > 6:
        return False
    it = items[-1] if last else items[0]
    n, o = it[:-1], it[-1]
    if n in edges:
        return True
    if n in groups:
        return boundary_is_edge(n, last if o == "+" else not last, groups, edges, depth + 1)
    return False


def walk_of(name, groups, edges, depth=0):
    """Reference walk.  Two readings of 'nested paths inlined' exist: (T) the nested group's ITEMS are substituted and implied elements
    added afterwards (tutorial: 'references to subgroups are resolved and implicit elements are added'), (W) the nested group's WALK is
    substituted.  They differ only at the two boundaries of a nested reference: when the boundary item is an edge, (T) treats the boundary
    segment as supplied by that edge, (W) as an explicit segment.  Only item lists on which both readings agree are pinned; the rest is
    Unsupported (never judged), and the reading-independent relation 'a group consisting of one nested reference behaves as that
    reference' is checked separately (alias_case)."""
    if depth > 6:
        raise Unsupported("nesting")
    tokens = []
    items = groups[name]
    for idx, it in enumerate(items):
        n, o = it[:-1], it[-1]
        if n in SEGS:
            tokens.append(("S", it))
        elif n in edges:
            tokens.append(("E", it))
        elif n in groups:
            sub = walk_of(n, groups, edges, depth + 1)
            if o == "-":
                sub = [inv(t) for t in reversed(sub)]
            begins = boundary_is_edge(n, o != "+", groups, edges)       # in the direction of traversal
            ends = boundary_is_edge(n, o == "+", groups, edges)
            if begins and tokens:
                raise Unsupported("nested path beginning with an edge after other items: readings differ")
            if ends and idx + 1 < len(items) and items[idx + 1][:-1] not in edges:
                raise Unsupported("nested path ending with an edge followed by a segment or path: readings differ")
            for t in sub:
                tokens.append(("S" if t[:-1] in SEGS else "E", t))
            tokens.append(("B", None))            # boundary: the last segment of the inlined walk counts as explicit
        else:
            raise Unsupported("item " + it)
    es = [t[:-1] for k, t in tokens if k == "E"]
    if len(es) != len(set(es)):
        raise Unsupported("the same edge listed twice: not pinned")
    walk = []
    supplied = False
    for i, (k, t) in enumerate(tokens):
        if k == "B":
            supplied = False
            continue
        if k == "S":
            if not walk:
                walk.append(t)
            elif walk[-1][:-1] in SEGS:
                if supplied:
                    if walk[-1] != t:
                        raise NotFound("expected %s found %s" % (walk[-1], t))
                else:
                    f = fit(edges, walk[-1], t)
                    if not f:
                        raise NotFound("no edge %s -> %s" % (walk[-1], t))
                    if len(f) > 1:
                        raise NotUnique(str(f))
                    walk.append(f[0]); walk.append(t)
            else:
                raise NotFound("edge followed by unexpected segment")
            supplied = False
        else:
            e, o = t[:-1], t[-1]
            s1, s2 = EDGES[e]
            ends = [s1, s2] if o == "+" else [inv(s2), inv(s1)]
            if not walk:
                # orientation of the first edge is fixed by what follows, when it says anything
                if i + 1 < len(tokens):
                    nk, nt = tokens[i + 1]
                    if nk == "S" and nt == ends[0] and nt != ends[1]:
                        ends.reverse()
                    elif nk == "E":
                        n1, n2 = EDGES[nt[:-1]]
                        nends = {n1, n2} if nt[-1] == "+" else {inv(n1), inv(n2)}
                        if ends[0] in nends and ends[1] in nends:
                            raise Unsupported("two consecutive parallel edges: direction not pinned")
                        if ends[0] in nends and ends[1] not in nends:
                            ends.reverse()
                walk += [ends[0], t, ends[1]]
            else:
                last = walk[-1]
                if last == ends[0]:
                    walk += [t, ends[1]]
                elif last == ends[1] and s1 != s2:
                    walk += [t, ends[0]]
                else:
                    raise NotFound("edge %s does not continue %s" % (t, last))
            supplied = True
    used = [t[:-1] for t in walk if t[:-1] not in SEGS]
    if len(used) != len(set(used)):
        raise Unsupported("walk through the same edge twice: not pinned")
    return walk


def induced(name, groups, usets, edges, depth=0):
    if depth > 6:
        raise Unsupported("nesting")
    segs = []
    for it in usets[name]:
        if it in SEGS:
            segs.append(it)
        elif it in edges:
            segs += [EDGES[it][0][:-1], EDGES[it][1][:-1]]
        elif it in groups:
            segs += [t[:-1] for t in walk_of(it, groups, edges) if t[:-1] in SEGS]
        elif it in usets:
            segs += induced(it, groups, usets, edges, depth + 1)[0]
        else:
            raise Unsupported(it)
    sset = []
    for s in segs:
        if s not in sset:
            sset.append(s)
    eset = [e for e in edges if EDGES[e][0][:-1] in sset and EDGES[e][1][:-1] in sset]
    return sset, eset


def check(case):
    edges, groups, usets, order_seed = case
    lines = BASE + [eline(e) for e in edges]
    glines = []
    for n, items in groups.items():
        glines.append("O\t%s\t%s" % (n, " ".join(items)))
    for n, items in usets.items():
        glines.append("U\t%s\t%s" % (n, " ".join(items)))
    rng = random.Random(order_seed)
    alll = lines + glines
    rng.shuffle(alll)
    fails = []
    def fail(sig, what):
        fails.append(dict(signature="C17:" + sig, what=what, case=dict(lines=alll),
                          reproducer="import gfapy\ng = gfapy.Gfa(%r)\nfor o in g._gfa2_paths: print(o.name, [str(x) for x in o.captured_path])\nfor u in g.sets: print(u.name, [x.name for x in u.induced_set])" % (alll,)))
    try:
        g = gfapy.Gfa(alll, vlevel=1)
    except Exception as e:
        fail("construct-raises-%s" % type(e).__name__, harness.short(e, 200))
        return dict(key=(tuple(alll),), nontrivial=True, failures=fails)
    for n in groups:
        try:
            want = ("ok", walk_of(n, groups, edges))
        except NotFound:
            want = ("err", "NotFoundError")
        except NotUnique:
            want = ("err", "NotUniqueError")
        except Unsupported:
            continue
        try:
            got = ("ok", [str(x) for x in g.line(n).captured_path])
        except gfapy.Error as e:
            got = ("err", type(e).__name__)
        except RecursionError:
            got = ("err", "RecursionError")
        except Exception as e:
            got = ("foreign", type(e).__name__)
        if want[0] == "ok" and got != want:
            fail("captured-path-differs", "%s items %s: want %s got %s" % (n, groups[n], want, got))
        elif want[0] == "err" and got[0] == "ok":
            fail("invalid-items-not-reported:%s" % want[1], "%s items %s: got %s" % (n, groups[n], got[1]))
        elif want[0] == "err" and got[0] == "foreign":
            fail("foreign-exception-%s" % got[1], "%s items %s" % (n, groups[n]))
    # reading-independent relation: a group that consists of one reference to n (alias) is interchangeable with n, in both directions
    def outcome(gg, n):
        try:
            return ("ok", [str(x) for x in gg.line(n).captured_path])
        except gfapy.Error as e:
            return ("err",)
        except RecursionError:
            return ("err",)
        except Exception as e:
            return ("foreign", type(e).__name__)
    refs = [(m, i, it) for m, items in groups.items() for i, it in enumerate(items) if it[:-1] in groups and it[:-1] != m]
    if refs:
        extra = []
        for k, (m, i, it) in enumerate(refs[:2]):
            n, o = it[:-1], it[-1]
            items = list(groups[m])
            fwd = items[:i] + ["al%d%s" % (k, o)] + items[i + 1:]
            bwd = items[:i] + ["ar%d%s" % (k, oracle.inv(o))] + items[i + 1:]
            extra += ["O\tal%d\t%s+" % (k, n), "O\tar%d\t%s-" % (k, n), "O\tmf%d\t%s" % (k, " ".join(fwd)), "O\tmb%d\t%s" % (k, " ".join(bwd))]
        try:
            g2 = gfapy.Gfa(alll + extra, vlevel=1)
            for k, (m, i, it) in enumerate(refs[:2]):
                base = outcome(g2, m)
                for v in ("mf%d" % k, "mb%d" % k):
                    got = outcome(g2, v)
                    if got != base:
                        fails.append(dict(signature="C17:alias-of-nested-path-differs", what="%s items %s gives %s; with the reference %s replaced by a one-item group (%s) it gives %s"
                                          % (m, groups[m], base, it, [x for x in extra if x.startswith("O\t" + v) or x.startswith("O\ta")], got),
                                          case=dict(lines=alll + extra),
                                          reproducer="import gfapy\ng = gfapy.Gfa(%r)\nfor n in (%r, %r):\n  try: print(n, [str(x) for x in g.line(n).captured_path])\n  except gfapy.Error as e: print(n, type(e).__name__)" % (alll + extra, m, v)))
        except gfapy.Error as e:
            pass
    for n in usets:
        try:
            ws, we = induced(n, groups, usets, edges)
        except (NotFound, NotUnique, Unsupported):
            continue
        try:
            u = g.line(n)
            gs = sorted(x.name for x in u.induced_segments_set)
            ge = sorted(x.name for x in u.induced_edges_set)
            if gs != sorted(ws):
                fail("induced-segments-differ", "%s items %s: want %s got %s" % (n, usets[n], sorted(ws), gs))
            if ge != sorted(we):
                fail("induced-edges-differ", "%s items %s: want %s got %s" % (n, usets[n], sorted(we), ge))
        except gfapy.Error as e:
            fail("induced-set-raises-%s" % (type(e).__name__,), "%s items %s: %s" % (n, usets[n], harness.short(e, 120)))
        except Exception as e:
            fail("induced-set-foreign-%s" % type(e).__name__, "%s items %s" % (n, usets[n]))
    return dict(key=(tuple(alll),), nontrivial=bool(groups or usets), failures=fails, sample=dict(lines=alll))


def multiline_case(case):
    kind, parts, perm = case
    rt = kind
    lines = BASE + [eline(e) for e in ("e1", "e2", "e3")]
    glines = ["%s\tgg\t%s%s" % (rt, p, "\txx:i:%d" % i if i == 0 else ("\tyy:Z:t" if i == 1 else "")) for i, p in enumerate(parts)]
    order = [glines[i] for i in perm]
    fails = []
    try:
        g = gfapy.Gfa(lines[:2] + order[:1] + lines[2:] + order[1:], vlevel=1)
        l = g.line("gg")
        items = [str(x) if rt == "O" else x.name for x in l.items]
        want = " ".join(parts[i] for i in perm).split(" ")
        if items != want:
            fails.append(dict(signature="C17:multiline-items-order:%s" % rt, what="arrival %s: want %s got %s" % (order, want, items), case=dict(lines=order)))
        tags = sorted(l.tagnames)
        wt = sorted(t for i, t in ((0, "xx"), (1, "yy")) if i < len(parts))
        if tags != wt:
            fails.append(dict(signature="C17:multiline-tags-not-united:%s" % rt, what="want %s got %s" % (wt, tags), case=dict(lines=order)))
        if len([x for x in (g.sets if rt == "U" else g._gfa2_paths)]) != 1:
            fails.append(dict(signature="C17:multiline-not-merged:%s" % rt, what=str(order), case=dict(lines=order)))
    except gfapy.Error as e:
        fails.append(dict(signature="C17:multiline-raises-%s:%s" % (type(e).__name__, rt), what=harness.short(e, 200), case=dict(lines=order)))
    except Exception as e:
        fails.append(dict(signature="C17:multiline-foreign-%s:%s" % (type(e).__name__, rt), what=harness.short(e, 200), case=dict(lines=order)))
    return dict(key=case, nontrivial=True, failures=fails, sample=dict(lines=order))


def nested_multiline_case(case):
    """a group defined over several lines and referred to by another group whose line arrives before, between or after them: the referrer
    resolves through the COMPLETE group (reference: the same document with the group written on one line, read last)"""
    _, rt, parts, pos, rrt = case
    lines = BASE + [eline(e) for e in ("e1", "e2", "e3")]
    glines = ["%s\tgg\t%s" % (rt, p) for p in parts]
    ref = ("O\trr\tgg+" if rt == "O" else "O\trr\tA+") if rrt == "O" else "U\trr\tgg"
    if rrt == "O" and rt == "U":
        return dict(key=case, nontrivial=False, failures=[])
    seq = glines[:pos] + [ref] + glines[pos:]
    one = lines + ["%s\tgg\t%s" % (rt, " ".join(parts)), ref]
    fails = []
    def obs(doc):
        g = gfapy.Gfa(doc, vlevel=1)
        r = g.line("rr")
        if rrt == "O":
            return [str(x) for x in r.captured_path]
        return (sorted(x.name for x in r.induced_segments_set), sorted(x.name for x in r.induced_edges_set))
    try:
        want = obs(one)
        got = obs(lines + seq)
        if got != want:
            fails.append(dict(signature="C17:referrer-of-multi-line-group-sees-part-of-it:%s-in-%s" % (rt, rrt), what="arrival %s: %s instead of %s" % (seq, got, want), case=dict(lines=lines + seq),
                              reproducer="import gfapy\ng = gfapy.Gfa(%r)\nr = g.line('rr'); print([str(x) for x in r.captured_path] if %r == 'O' else [x.name for x in r.induced_set])" % (lines + seq, rrt)))
    except gfapy.Error as e:
        fails.append(dict(signature="C17:referrer-of-multi-line-group-raises-%s:%s-in-%s" % (type(e).__name__, rt, rrt), what="%s: %s" % (seq, harness.short(e, 150)), case=dict(lines=lines + seq)))
    except Exception as e:
        fails.append(dict(signature="C17:referrer-of-multi-line-group-foreign-%s" % type(e).__name__, what=str(seq), case=dict(lines=lines + seq)))
    return dict(key=case, nontrivial=True, failures=fails, sample=dict(lines=seq))


TWIN_DOCS = [
    # unnamed parallel edges that are identical in content (legal: two alignments of the same two segments); a named twin pair; an edge of a
    # segment with itself: each is ONE edge of the induced set, none is lost, none is counted twice
    (["E\t*\tA+\tB+\t6\t8$\t0\t2\t*", "E\t*\tA+\tB+\t6\t8$\t0\t2\t*"], "A B", 2),
    (["E\t*\tA+\tB+\t6\t8$\t0\t2\t*", "E\t*\tA+\tB+\t6\t8$\t0\t2\t*", "E\tx1\tB+\tC+\t6\t8$\t0\t2\t*"], "A B C", 3),
    (["E\t*\tA+\tA+\t6\t8$\t0\t2\t*", "E\t*\tA+\tB+\t6\t8$\t0\t2\t*"], "A B", 2),
    (["E\t*\tA+\tA-\t6\t8$\t6\t8$\t*", "E\t*\tA+\tA-\t6\t8$\t6\t8$\t*"], "A", 2),
    (["E\t*\tA+\tB+\t6\t8$\t0\t2\t*", "E\t*\tC+\tD+\t6\t8$\t0\t2\t*"], "A B C", 1),
]


def twin_case(case):
    _, idx, order = case
    elines, items, want = TWIN_DOCS[idx]
    lines = BASE + elines + ["U\tu\t" + items]
    if order:
        lines = list(reversed(lines))
    fails = []
    try:
        g = gfapy.Gfa(lines, version="gfa2")
        u = g.line("u")
        es = u.induced_edges_set
        if len(es) != want or len({id(e) for e in es}) != want:
            fails.append(dict(signature="C17:twin-edges:induced-edges-%d-instead-of-%d" % (len(es), want), what=str([str(e) for e in es]), case=dict(lines=lines)))
        tot = u.induced_set
        if len(tot) != len(u.induced_segments_set) + want:
            fails.append(dict(signature="C17:twin-edges:induced-set-size", what=str([str(e) for e in tot]), case=dict(lines=lines)))
    except Exception as e:
        fails.append(dict(signature="C17:twin-edges:raises-%s" % type(e).__name__, what=harness.short(e), case=dict(lines=lines)))
    return dict(key=case, nontrivial=True, failures=fails, sample=dict(lines=lines))


def check_any(case):
    if case[0] == "twin":
        return twin_case(case)
    if case[0] == "N":
        return nested_multiline_case(case)
    if case[0] in ("O", "U"):
        return multiline_case(case)
    return check(case)


def cases(tier, seed):
    rng = random.Random(seed)
    out = []
    n = 1500 if tier == "quick" else 15000
    oriented = [s + o for s in SEGS for o in "+-"]
    for _ in range(n):
        edges = tuple(sorted(rng.sample(sorted(EDGES), rng.randrange(1, 6))))
        groups, usets = {}, {}
        def rand_items(k, allow_groups):
            items = []
            for _ in range(k):
                r = rng.random()
                if r < 0.5:
                    items.append(rng.choice(oriented))
                elif r < 0.85 or not (allow_groups and groups):
                    items.append(rng.choice(edges) + rng.choice("+-"))
                else:
                    items.append(rng.choice(sorted(groups)) + rng.choice("+-"))
            return items
        # a contiguous walk is more interesting than random items: follow edges half of the time
        for gi in range(rng.randrange(1, 3)):
            name = "o%d" % gi
            if rng.random() < 0.6:
                cur = rng.choice(oriented); items = [cur]
                for _ in range(rng.randrange(0, 4)):
                    nxt = [(e, d) for e in edges for d in "+-" for a, b in [(EDGES[e] if d == "+" else (inv(EDGES[e][1]), inv(EDGES[e][0])))] if a == cur]
                    if not nxt:
                        break
                    e, d = rng.choice(nxt)
                    a, b = EDGES[e] if d == "+" else (inv(EDGES[e][1]), inv(EDGES[e][0]))
                    if rng.random() < 0.5:
                        items.append(e + d)
                    if rng.random() < 0.7 or items[-1][:-1] not in edges:
                        items.append(b)
                    cur = b
                if rng.random() < 0.3 and groups:
                    items.insert(rng.randrange(len(items) + 1), rng.choice(sorted(groups)) + rng.choice("+-"))
                groups[name] = items
            else:
                groups[name] = rand_items(rng.randrange(1, 4), True)
        for ui in range(rng.randrange(0, 3)):
            pool = SEGS + list(edges) + sorted(groups) + sorted(usets)
            usets["u%d" % ui] = rng.sample(pool, rng.randrange(1, min(4, len(pool)) + 1))
        out.append((edges, groups, usets, rng.randrange(10**6)))
    # nested sets that share a member without containing themselves: diamond, the same set listed twice, a path reached twice
    for us in ({"u0": ["C"], "u1": ["A", "u0"], "u2": ["u0", "e1"], "u3": ["u1", "u2"]}, {"u0": ["C"], "u1": ["u0", "D", "u0"]},
               {"u0": ["A", "B"], "u1": ["u0"], "u2": ["u1", "u0", "u1"]}):
        for sd in range(4):
            out.append((("e1", "e2", "e3"), {"o0": ["A+", "B+"]}, dict(us), 1000 + sd))
    out.append((("e1", "e2", "e3"), {"o0": ["A+", "B+"]}, {"u0": ["o0", "C"], "u1": ["o0", "u0"]}, 7))
    # systematic nested references: every boundary kind of the inner path (segment/edge first, segment/edge last), both orientations,
    # every oriented segment or nothing before, every oriented segment / edge or nothing after
    sys_edges = ("e1", "e2", "e3", "e4", "e6")
    inners = (["A+", "B+"], ["A+", "e1+"], ["e1+", "B+"], ["e1+", "e2+"], ["B+", "e2+", "C+", "D+"])
    posts = [None] + oriented + [e + o for e in sys_edges for o in "+-"]
    pres = [None] + oriented
    k = 0
    for inner in inners:
        for o in "+-":
            for pre in pres:
                for post in posts:
                    k += 1
                    if tier == "quick" and pre is not None and post is not None and k % 3:
                        continue
                    outer = ([pre] if pre else []) + ["o0" + o] + ([post] if post else [])
                    out.append((sys_edges, {"o0": list(inner), "o1": outer}, {}, k))
    for rt, parts in (("O", ["A+ B+", "C+", "D+"]), ("O", ["A+", "B+ C+"]), ("U", ["A B", "C", "e1 D"]), ("U", ["A", "B"])):
        for pos in range(len(parts) + 1):
            for rrt in ("O", "U"):
                out.append(("N", rt, parts, pos, rrt))
    for rt, parts in (("U", ["A B", "C", "e1 D"]), ("O", ["A+ B+", "C+", "D+"]), ("U", ["A", "B"]), ("O", ["A+", "B+ C+"])):
        for perm in itertools.permutations(range(len(parts))):
            if rt == "O" and list(perm) != sorted(perm):
                # an O group split over several lines denotes the walk only in its arrival order
                continue
            out.append((rt, parts, perm))
        if rt == "U":
            pass
    for i in range(len(TWIN_DOCS)):
        for order in (0, 1):
            out.append(("twin", i, order))
    return out


if __name__ == "__main__":
    tier, seed = harness.args()
    cs = cases(tier, seed)
    res = harness.run(cs, check_any,
                      rule="seeded GFA2 graphs over 4 segments and 1-5 of 7 edges (both orientations, a parallel pair, a self-consistent reverse pair): 1-2 O groups (walks following edges with edges/segments omitted at "
                           "random, random item lists, nested groups with +/-) and 0-2 U groups (segments, edges, paths, nested sets), lines in a seeded arrival order; oracle = reference implementation of the "
                           "captured walk (unique fitting edge, supplied segments, nested paths inlined/reversed; NotFound / NotUnique otherwise) and of the induced set, written on the text; plus multi-line "
                           "U/O definitions in all (U) / arrival (O) orders: items concatenated in arrival order, tags united",
                      bound="<=4 segments, <=5 edges, groups of <=6 items nested <=2", exhaustive=False)
    harness.emit(res)
