"""Replay searches for heap-shaped counter-models (DESIGN §2.9): the real function is run on every small instance of the
shape and the contract is evaluated concretely.  Each helper returns True when the contract held on all instances,
otherwise a description of the first failing instance."""
import itertools
import gfapy


def _lines(n):
    return [gfapy.Line("S\tx%d\t*" % i) for i in range(n)]


def delete_reference_cases():
    objs = _lines(3)
    for n in range(0, 5):
        for combo in itertools.product(range(3), repeat=n):
            for target in range(3):
                for present in (True, False):
                    owner = gfapy.Line("S\towner\t*")
                    lst = [objs[i] for i in combo]
                    owner._refs = {"k": list(lst)} if present else {"other": []}
                    try:
                        owner._delete_reference(objs[target], "k")
                    except Exception as e:
                        return "raised %s on list %s target %d present=%s" % (type(e).__name__, combo, target, present)
                    if not present:
                        if owner._refs != {"other": []}:
                            return "absent key changed"
                        continue
                    got = owner._refs["k"]
                    if target in combo:
                        last = max(i for i, c in enumerate(combo) if c == target)
                        want = lst[:last] + lst[last + 1:]
                        # removing ANY single occurrence keeps the multiset right; the contract pins 'one occurrence, order of the others kept'
                        ok = any(len(got) == len(lst) - 1 and all(a is b for a, b in zip(got, lst[:p] + lst[p + 1:])) for p, c in enumerate(combo) if c == target)
                    else:
                        ok = len(got) == len(lst) and all(a is b for a, b in zip(got, lst))
                    if not ok:
                        return "list %s target %d -> %s" % (combo, target, [objs.index(x) for x in got])
    return True


def add_reference_cases():
    objs = _lines(2)
    for n in range(0, 3):
        for combo in itertools.product(range(2), repeat=n):
            for append in (True, False):
                for state in ("none", "empty", "otherkey", "present"):
                    owner = gfapy.Line("S\towner\t*")
                    lst = [objs[i] for i in combo]
                    owner._refs = {"none": None, "empty": {}, "otherkey": {"o": [objs[0]]}, "present": {"k": list(lst)}}[state]
                    base = lst if state == "present" else []
                    owner._add_reference(objs[1], "k", append=append)
                    got = owner._refs["k"]
                    want = base + [objs[1]] if append else [objs[1]] + base
                    if len(got) != len(want) or not all(a is b for a, b in zip(got, want)):
                        return "state %s list %s append=%s" % (state, combo, append)
                    if state == "otherkey" and owner._refs.get("o") != [objs[0]]:
                        return "other key changed"
    return True


def set_existing_field(cls, fieldname, vlevel, connected, set_reference, value_is_None, value_is_placeholder, value_is_valid, lookup, has_field=False):
    """replay of a counter-model of FieldData._set_existing_field on a real Gfa; returns True if the contract held"""
    from bounded import state
    docs = {"segment.GFA1": (["S\tA\t*", "S\tB\t*"], "A", "B"), "edge.Link": (["S\tA\t*", "S\tB\t*", "L\tA\t+\tB\t+\t*\tID:Z:lk"], "lk", "B"),
            "edge.GFA2": (["S\tA\t8\t*", "S\tB\t8\t*", "E\te1\tA+\tB+\t6\t8$\t0\t2\t*"], "e1", "B"),
            "Gap": (["S\tA\t8\t*", "S\tB\t8\t*", "G\tg1\tA+\tB-\t1\t*"], "g1", "B"), "group.Unordered": (["S\tA\t8\t*", "S\tB\t8\t*", "U\tu1\tA B"], "u1", "B")}
    lines, name, taken = docs[cls]
    g = gfapy.Gfa(lines, vlevel=vlevel)
    l = g.line(name)
    if not connected:
        l = l.clone()
    if value_is_None:
        value = None
    elif value_is_placeholder:
        value = "*"
    elif not value_is_valid and not (lookup == 2 and vlevel == 0):
        value = "a\tb"
    else:
        value = {0: "Zz", 1: name, 2: taken}[lookup]
    if fieldname not in l.positional_fieldnames and not l._is_predefined_tag(fieldname):
        fieldname = "xx"                       # a custom tag stands for every field that is neither positional nor predefined
    if fieldname == "xx" and has_field:
        l.set("xx", 1)
    before = state.snapshot(g)
    try:
        l._set_existing_field(fieldname, value, set_reference=set_reference)
    except gfapy.Error as e:
        after = state.snapshot(g)
        if after != before:
            return "raised %s but the Gfa changed: %s" % (type(e).__name__, state.snap_diff(before, after))
        return True
    except Exception as e:
        return "foreign exception %s" % type(e).__name__
    if connected and lookup == 2 and value == taken and fieldname in ("name", "sid", "ID", "eid", "gid", "pid"):
        return "renamed onto the identifier of another line without error; names=%s" % sorted(map(str, g.names))
    if vlevel >= 3 and value == "a\tb":
        return "invalid value stored at level 3"
    if fieldname == "xx" and has_field and value is None:
        # the tag is gone with its datatype: a text assigned now makes a new Z tag
        try:
            l.set("xx", "s")
            written = str(l).split("\t")
        except gfapy.Error as e:
            return "tag xx:i:1 removed by assigning None, then 's' assigned: %s (%s)" % (type(e).__name__, " ".join(str(e).split())[:120])
        if "xx:Z:s" not in written:
            return "tag xx:i:1 removed by assigning None, then 's' assigned: written %r" % [f for f in str(l).split("\t") if f.startswith("xx:")]
    u = state.uniq_errors(g)
    if u:
        return "UNIQ broken: %s" % (u[0],)
    return True


def _unknown_version_failure(rt, vlevel, VN, header_has_VN, parse_ok):
    """a line of record type rt that is refused while parsing (parse_ok False) or, for H, while merging: the Gfa must stay unchanged"""
    bad = {"H": "H\txx:i:notanumber", "S": "S\tA", "E": "E\t*\tA+\tA-\tx\t2\t0\t2\t*", "F": "F\tA\tx+\tq\t2\t0\t2\t*", "G": "G\tg1\tA+\tB-\tx\t*",
           "U": "U\tu\t", "O": "O\to\tA"}
    g = gfapy.Gfa(vlevel=max(vlevel, 1))
    g.add_line("H\tTS:i:1")
    if parse_ok:
        if rt != "H":
            return True
        text = "H\tab:Z:x%s\tTS:i:2" % ("\tVN:Z:%s" % VN if header_has_VN else "")
    else:
        if rt not in bad:
            return True
        text = bad[rt]
    def obs():
        return (str(g), g.version, g._version_guess, len(g._line_queue), g.n_input_header_lines if hasattr(g, "n_input_header_lines") else None, sorted(g.header.tagnames))
    before = obs()
    try:
        g.add_line(text)
    except gfapy.Error:
        after = obs()
        if after != before:
            return "rejected line %r changed the Gfa: %r -> %r" % (text, before, after)
        return True
    return True          # accepted (e.g. not validated at this level): nothing to compare


def add_line_unknown_version(rt, vlevel, VN, header_has_VN, segment_version, line_can_be_parsed=True, header_can_be_merged=True, dialect_is_rgfa=False):
    """replay of a counter-model of Creators.__add_line_unknown_version on a real Gfa"""
    if dialect_is_rgfa and line_can_be_parsed and header_can_be_merged:
        return _unknown_version_rgfa(rt, vlevel, VN, header_has_VN, segment_version)
    if not line_can_be_parsed or not header_can_be_merged:
        return _unknown_version_failure(rt, vlevel, VN, header_has_VN, line_can_be_parsed)
    texts = {"#": "# c", "H": "H\tVN:Z:%s" % VN if header_has_VN else "H\txx:i:1",
             "S": "S\tA\t*" if segment_version == "gfa1" else "S\tA\t8\t*", "E": "E\t*\tA+\tA-\t0\t2\t0\t2\t*", "F": "F\tA\tx+\t0\t2\t0\t2\t*",
             "G": "G\tg1\tA+\tB-\t10\t*", "U": "U\tu\tA", "O": "O\to\tA+", "L": "L\tA\t+\tA\t-\t*", "C": "C\tA\t+\tB\t+\t0\t*", "P": "P\tp\tA+\t*", "X": "X\tq"}
    want_version = {"H": ({"1.0": "gfa1", "2.0": "gfa2"}.get(VN) if header_has_VN else None), "S": segment_version}
    for k in "EFGUO":
        want_version[k] = "gfa2"
    # (a) level and dialect reach the line
    g = gfapy.Gfa(vlevel=vlevel)
    try:
        g.add_line(texts[rt])
    except gfapy.VersionError:
        if not (rt == "H" and header_has_VN and VN not in ("1.0", "2.0") and vlevel > 0):
            return "VersionError for %r" % texts[rt]
        return True
    if rt in want_version and g.version != want_version[rt] and not (rt == "H" and header_has_VN and VN not in ("1.0", "2.0")):
        return "version %r after %r, expected %r" % (g.version, texts[rt], want_version[rt])
    for l in g.lines:
        if l.record_type == rt and rt not in ("#", "H") and not l.virtual and l.vlevel != vlevel:
            return "line %r has vlevel %d in a Gfa of vlevel %d" % (str(l), l.vlevel, vlevel)
    # (b) queued lines are processed under the decided version
    if rt == "S" or rt in "EFGUO":
        g = gfapy.Gfa(vlevel=vlevel)
        g.add_line("X\tq")                      # a custom record: legal in GFA2 only
        try:
            g.add_line(texts[rt])
            ok = True
        except gfapy.Error:
            ok = False
        if want_version[rt] == "gfa1" and ok:
            return "a queued custom record was accepted into a GFA1 graph (queue processed before the version was set)"
        if want_version[rt] == "gfa2" and not ok:
            return "a queued custom record was refused although the version is gfa2"
    return True


def _unknown_version_rgfa(rt, vlevel, VN, header_has_VN, segment_version):
    """a Gfa of the rGFA dialect whose version is not known yet: a line that would make it GFA2 is refused with VersionError and nothing is kept"""
    texts = {"#": "# c", "H": "H\tVN:Z:%s" % VN if header_has_VN else "H\txx:i:1",
             "S": "S\tA\t*\tSN:Z:chr1\tSO:i:0\tSR:i:0" if segment_version == "gfa1" else "S\tA\t8\t*", "E": "E\t*\tA+\tA-\t0\t2\t0\t2\t*", "F": "F\tA\tx+\t0\t2\t0\t2\t*",
             "G": "G\tg1\tA+\tB-\t10\t*", "U": "U\tu\tA", "O": "O\to\tA+", "L": "L\tA\t+\tA\t-\t0M", "C": "C\tA\t+\tB\t+\t0\t*", "P": "P\tp\tA+\t*", "X": "X\tq"}
    makes2 = (rt == "S" and segment_version == "gfa2") or rt in "EFGUO" or (rt == "H" and header_has_VN and VN == "2.0")
    g = gfapy.Gfa(vlevel=vlevel, dialect="rgfa")
    before = (g.version, str(g), len(g._line_queue), g._n_input_header_lines)
    try:
        g.add_line(texts[rt])
    except gfapy.VersionError:
        if not makes2 and not (rt == "H" and header_has_VN and VN not in ("1.0", "2.0")):
            return "rGFA: VersionError for %r" % texts[rt]
        after = (g.version, str(g), len(g._line_queue), g._n_input_header_lines)
        return True if after == before else "rGFA: %r refused, but the Gfa changed: %r -> %r" % (texts[rt], before, after)
    except gfapy.Error as e:
        return True if not makes2 else "rGFA: %r refused with %s, not VersionError" % (texts[rt], type(e).__name__)
    if makes2:
        return "rGFA: %r accepted at level %d: version %r" % (texts[rt], vlevel, g.version)
    return True


def json_escape(fname):
    """json field functions on malformed and on very deeply nested JSON: only gfapy.Error may escape"""
    import gfapy.field.json as fj
    deep = "[" * 100000 + "]" * 100000
    for s in ["{", "[1,", "", "nul", deep]:
        try:
            getattr(fj, fname)(s)
        except gfapy.Error:
            pass
        except BaseException as e:
            return "%s(%s...) raised %s" % (fname, s[:12], type(e).__name__)
    return True


def update_reference_in_list_cases():
    """concrete battery for UpdateReferences.__update_reference_in_list: lists of <=4 elements over {oldref, other line, OrientedLine(oldref),
    OrientedLine(other)}, removal (newref None) and replacement (newref a line; complement decided by the real __is_replaced_by_complement)"""
    f = gfapy.Line._UpdateReferences__update_reference_in_list
    old = gfapy.Line("L\ta\t+\tb\t+\t2M1I")
    other = gfapy.Line("L\tc\t+\td\t+\t*")
    owner = gfapy.Line("S\towner\t*")
    for newkind in ("none", "same", "complement"):
        new = None if newkind == "none" else (gfapy.Line("L\ta\t+\tb\t+\t2M1I") if newkind == "same" else gfapy.Line("L\tb\t-\ta\t-\t1D2M"))
        for n in range(0, 5):
            for combo in itertools.product(range(4), repeat=n):
                mk = {0: lambda: old, 1: lambda: other, 2: lambda: gfapy.OrientedLine(old, "+"), 3: lambda: gfapy.OrientedLine(other, "-")}
                lst = [mk[c]() for c in combo]
                orig = list(lst)
                try:
                    f(owner, lst, old, new)
                except Exception as e:
                    return "raised %s on %s new=%s" % (type(e).__name__, combo, newkind)
                if new is None:
                    want = [x for x, c in zip(orig, combo) if c in (1, 3)]
                    if len(lst) != len(want) or not all(a is b for a, b in zip(lst, want)):
                        return "removal from %s leaves %r" % (combo, lst)
                else:
                    if len(lst) != len(orig):
                        return "replacement changed the length of %s" % (combo,)
                    for x, o, c in zip(lst, orig, combo):
                        if c == 0 and x is not new:
                            return "line element not replaced in %s" % (combo,)
                        if c == 1 and x is not other:
                            return "other line touched in %s" % (combo,)
                        if c == 2 and not (x is o and x.line is new and x.orient == ("-" if newkind == "complement" else "+")):
                            return "oriented reference wrong in %s (%s): %s%s" % (combo, newkind, x.line, x.orient)
                        if c == 3 and not (x is o and x.line is other and x.orient == "-"):
                            return "unrelated oriented reference touched in %s" % (combo,)
    return True


def path_list_sizes(ns, no, what):
    """real Path lines with ns segments and no overlaps (all CIGARs, all '*', mixed): the verdict of _validate_lists_size / the number of
    links of _compute_required_links against the stated rule; the witness sizes first, then every size up to 5"""
    sizes = [(ns, no)] if 1 <= ns <= 30 and 1 <= no <= 30 else []
    sizes += [(a, b) for a in range(1, 6) for b in range(1, 7)]
    for a, b in sizes:
        for kind in ("cigar", "star", "mixed"):
            ov = ["*" if (kind == "star" or (kind == "mixed" and k % 2 == 0)) else "1M" for k in range(b)]
            l = gfapy.Line("P\tp\t%s\t%s" % (",".join("s%d+" % k for k in range(a)), ",".join(ov)), vlevel=0)
            if what == "validate":
                want = b in (a - 1, a) or (b == 1 and ov[0] == "*")
                try:
                    l._validate_lists_size(); got = True
                except gfapy.InconsistencyError:
                    got = False
                except Exception as e:
                    return "%d segments, overlaps %s: %s" % (a, ov, type(e).__name__)
                if got != want:
                    return "%d segments, overlaps %s: accepted=%s" % (a, ov, got)
            else:
                undef = b == 1 and ov[0] == "*"
                steps = a if b == a else a - 1
                try:
                    r = l._compute_required_links(); got = len(r)
                except gfapy.InconsistencyError:
                    got = "err"
                except Exception as e:
                    return "%d segments, overlaps %s: %s escapes" % (a, ov, type(e).__name__)
                want = 0 if a == 1 else ("err" if (not undef and b < steps) else steps)
                if got != want:
                    return "%d segments, overlaps %s: %s links, expected %s" % (a, ov, got, want)
    return True


def from_file_passes_arguments():
    """Gfa.from_file against Gfa(text) on files that contradict / agree with the version given explicitly, at every level"""
    import tempfile, os
    docs = {"gfa1": "H\tVN:Z:1.0\nS\ta\t*\nL\ta\t+\ta\t-\t*\n", "gfa2": "H\tVN:Z:2.0\nS\ta\t10\t*\nE\t*\ta+\ta-\t0\t2\t8\t10$\t*\n", "headeronly1": "H\tVN:Z:1.0\n", "seg2": "S\ta\t10\t*\n"}
    for name, text in docs.items():
        for version in (None, "gfa1", "gfa2"):
            for vlevel in (0, 1, 2, 3):
                def run(f):
                    try:
                        x = f()
                        return ("ok", x.version, x._vlevel, str(x))
                    except gfapy.Error as e:
                        return ("err", type(e).__name__)
                a = run(lambda: gfapy.Gfa(text, version=version, vlevel=vlevel))
                fd, path = tempfile.mkstemp(suffix=".gfa")
                try:
                    with os.fdopen(fd, "w") as fh:
                        fh.write(text)
                    b = run(lambda: gfapy.Gfa.from_file(path, version=version, vlevel=vlevel))
                finally:
                    os.unlink(path)
                if a != b:
                    return "document %s version=%s vlevel=%d: Gfa(text) gives %s, from_file gives %s" % (name, version, vlevel, a[:3], b[:3])
    return True


def header_split_cases():
    """headers carrying tags whose declared datatype differs from the default of their Python value, and repeated tags: every split line
    carries (name, declared datatype, value) of its tag"""
    tags = [("xa", "A", "c"), ("xj", "J", [1, 2, 3]), ("xf", "f", 3), ("xz", "Z", "5"), ("xi", "i", 7), ("xk", "J", [0.5, 2.5]), ("xh", "H", gfapy.ByteArray([1, 2]))]
    for vlevel in (0, 1, 2, 3):
        for k in range(1, len(tags) + 1):
            h = gfapy.Line("H", vlevel=vlevel)
            for n, d, v in tags[:k]:
                h.set_datatype(n, d); h.set(n, v)
            h.add("xi", 9, "i")
            want = [(n, d, v) for n, d, v in tags[:k] if n != "xi"] + ([("xi", "i", 7), ("xi", "i", 9)] if k >= 5 else [("xi", "i", 9)])
            got = []
            for s in h._split():
                if s.vlevel != vlevel:
                    return "split line built at vlevel %s instead of %s" % (s.vlevel, vlevel)
                if len(s.tagnames) != 1:
                    return "split line with tags %s" % s.tagnames
                n = s.tagnames[0]
                got.append((n, s.get_datatype(n), s.get(n)))
            if sorted(map(repr, got)) != sorted(map(repr, want)):
                return "vlevel %d: split gives %r, expected %r" % (vlevel, got, want)
    return True


def delete_tag_cases():
    """set / parse a tag, delete it, set it again with a value of another type: the line must equal one on which the tag was never present"""
    for base in ("S\ta\t*", "S\ta\t8\t*", "L\ta\t+\tb\t+\t*"):
        for first, fdt in ((1.5, "f"), (5, "i"), ("txt", "Z")):
            for second, sdt in ((7, "i"), (2.5, "f"), ("zz", "Z")):
                for how in ("set", "parsed"):
                    fv = {"f": "1.5", "i": "5", "Z": "txt"}[fdt]
                    l = gfapy.Line(base + ("\txx:%s:%s" % (fdt, fv) if how == "parsed" else ""))
                    if how == "set":
                        l.set("xx", first)
                    r = l.delete("xx")
                    if r is None or "xx" in l.tagnames or "xx" in l._datatype:
                        return "%s: after delete: returned %r, tagnames %s, datatype kept %s" % (base, r, l.tagnames, "xx" in l._datatype)
                    if l.delete("xx") is not None:
                        return "deleting an absent tag returned a value"
                    l.set("xx", second)
                    ref = gfapy.Line(base); ref.set("xx", second)
                    if str(l) != str(ref):
                        return "%s: %s tag (%s) deleted then set to %r: %s instead of %s" % (base, how, fdt, second, str(l), str(ref))
    # the ID tag of a connected link / containment is its identifier in the Gfa
    for text in ("L\ta\t+\tb\t+\t*\tID:Z:lk", "C\ta\t+\tb\t+\t0\t*\tID:Z:lk"):
        g = gfapy.Gfa(["S\ta\t*", "S\tb\t*", text])
        l = g.line("lk")
        if l.delete("ID") != "lk":
            return "delete('ID') did not return the identifier"
        if g.line("lk") is not None or "lk" in g.names or "ID:" in str(g):
            return "%s: after delete('ID') the Gfa still knows the identifier: line('lk')=%s names=%s" % (text.split("\t")[0], g.line("lk"), g.names)
        if len([x for x in g.lines if x.record_type == text[0]]) != 1:
            return "the line was lost by delete('ID')"
    return True


def connect_cases():
    """Connection.connect on real Gfas: refused lines (already connected, self reference, second reference clashing) leave the full
    snapshot unchanged; an accepted line is registered exactly once and owned by the Gfa"""
    from bounded import state
    base = ["H\tVN:Z:2.0", "S\tA\t8\t*", "S\tB\t8\t*", "E\te0\tA+\tB+\t6\t8$\t0\t2\t*", "O\tgrp\tA+ B+", "U\tu\tA B"]
    refused = [("E\te9\tZ+\tgrp+\t0\t2\t0\t2\t*", gfapy.Error), ("G\tA\tA+\tB-\t1\t*", gfapy.NotUniqueError), ("G\tgz\tgz+\tB-\t1\t*", gfapy.NotUniqueError),
               ("F\tgrp\tq+\t0\t2\t0\t2\t*", gfapy.Error), ("E\te8\tY+\tu-\t0\t2\t0\t2\t*", gfapy.Error)]
    for text, exc in refused:
        g = gfapy.Gfa(base, vlevel=1)
        before = state.snapshot(g)
        l = gfapy.Line(text, version="gfa2")
        try:
            l.connect(g)
            return "%r was accepted" % text
        except exc:
            pass
        except Exception as e:
            return "%r raised %s" % (text, type(e).__name__)
        if l.is_connected() or l._gfa is not None:
            return "%r: refused line still owned" % text
        after = state.snapshot(g)
        if after != before:
            return "%r refused but the Gfa changed: %s" % (text, "; ".join(state.snap_diff(before, after))[:300])
    # a placeholder that existed before the refused call (left by a removed edge) survives it; placeholders created for the refused line do not
    g = gfapy.Gfa(vlevel=1)
    for t in ["H\tVN:Z:2.0", "S\tA\t8\t*", "E\tex\tA+\tV+\t6\t8$\t0\t2\t*", "O\tgrp\tA+"]:
        g.add_line(t)
    g.rm(g.line("ex"))
    before = state.snapshot(g)
    try:
        g.add_line("E\te9\tW+\tgrp+\t0\t2\t0\t2\t*")
        return "edge onto a group accepted"
    except gfapy.Error:
        pass
    if state.snapshot(g) != before:
        return "refused edge changed a Gfa holding an older placeholder: %s" % "; ".join(state.snap_diff(before, state.snapshot(g)))[:300]
    # a line that takes the place of an unresolved placeholder and is then refused
    g = gfapy.Gfa(vlevel=1)
    for t in ["H\tVN:Z:2.0", "S\tA\t8\t*", "O\tgrp\tA+ e9+"]:
        g.add_line(t)
    before = state.snapshot(g)
    try:
        g.add_line("E\te9\tA+\tgrp+\t0\t2\t0\t2\t*")
        return "edge onto a group accepted (placeholder case)"
    except gfapy.Error:
        pass
    if state.snapshot(g) != before:
        return "a refused edge that replaced an unresolved placeholder changed the Gfa: %s" % "; ".join(state.snap_diff(before, state.snapshot(g)))[:300]
    g = gfapy.Gfa(["S\ta\t*", "P\tp1\ta+\t*"], vlevel=1)
    before = state.snapshot(g)
    try:
        g.add_line("P\tp2\tx+,y+,p1+\t*")
        return "path over a path name accepted"
    except gfapy.Error:
        pass
    if state.snapshot(g) != before:
        return "refused path left placeholders: %s" % "; ".join(state.snap_diff(before, state.snapshot(g)))[:300]
    g = gfapy.Gfa(base, vlevel=1)
    l = gfapy.Line("E\te1\tA-\tB+\t0\t2\t0\t2\t*", version="gfa2")
    l.connect(g)
    if l._gfa is not g or sum(1 for x in g.edges if x is l) != 1 or g.line("e1") is not l:
        return "accepted line not registered exactly once"
    b = state.snapshot(g)
    try:
        l.connect(g)
        return "connecting a connected line was accepted"
    except gfapy.RuntimeError:
        pass
    if state.snapshot(g) != b:
        return "second connect changed the Gfa"
    return True


def same_id_cases():
    """real group lines sharing an identifier: same type merges (stored items first), another type is refused, contradicting tags are
    refused with the Gfa unchanged"""
    from bounded import state
    base = ["H\tVN:Z:2.0", "S\tA\t8\t*", "S\tB\t8\t*", "S\tC\t8\t*", "E\te1\tA+\tB+\t6\t8$\t0\t2\t*", "E\te2\tB+\tC+\t6\t8$\t0\t2\t*"]
    for first, second, want in (("O\tg\tA+ B+\txx:i:1", "O\tg\tC+\tyy:Z:q", ["A+", "B+", "C+"]), ("U\tg\tA B\txx:i:1", "U\tg\tC e1", ["A", "B", "C", "e1"]),
                                ("O\tg\tA+", "U\tg\tB", None), ("U\tg\tA", "O\tg\tB+", None), ("S\tg\t8\t*", "U\tg\tB", None),
                                ("O\tg\tA+ B+\txx:i:1", "O\tg\tC+\txx:i:2", None), ("U\tg\tA\txx:i:1", "U\tg\tB\txx:i:2", None),
                                # a value that is false as a Boolean is a value: 5 and 0 contradict each other in both orders
                                ("U\tg\tA\txx:i:5", "U\tg\tB\txx:i:0", None), ("U\tg\tA\txx:i:0", "U\tg\tB\txx:i:5", None),
                                ("O\tg\tA+\txx:B:i,1", "O\tg\tB+\txx:J:[]", None)):
        g = gfapy.Gfa(base + [first], vlevel=1)
        before = state.snapshot(g)
        try:
            g.add_line(second)
            ok = True
        except gfapy.NotUniqueError:
            ok = False
        except Exception as e:
            return "%r then %r raised %s" % (first, second, type(e).__name__)
        if want is None:
            if ok:
                return "%r then %r was merged" % (first, second)
            if state.snapshot(g) != before:
                return "%r then %r refused but the Gfa changed" % (first, second)
        else:
            if not ok:
                return "%r then %r refused" % (first, second)
            items = [str(x) if first[0] == "O" else x.name for x in g.line("g").items]
            if items != want:
                return "%r then %r: items %s, expected %s" % (first, second, items, want)
            if sorted(g.line("g").tagnames) != ["xx"] + (["yy"] if "yy" in second else []):
                return "tags not united: %s" % g.line("g").tagnames
    # the united tags are written as they were given: name, datatype and value (a character stays A, JSON stays J, ...)
    for tag in ("xx:A:c", "xx:J:[1, 2]", "xx:Z:s", "xx:i:0", "xx:f:1.5", "xx:H:0A", "xx:B:c,-1,2", "xx:B:f,1.5", "xx:J:{\"a\": 1}"):
        for first, second in (("U\tg\tA\t" + tag, "U\tg\tB\tyy:i:1"), ("U\tg\tA\tyy:i:1", "U\tg\tB\t" + tag), ("O\tg\tA+ B+\t" + tag, "O\tg\tC+")):
            for vlevel in (0, 1, 3):
                g = gfapy.Gfa(base + [first], vlevel=vlevel)
                g.add_line(second)
                fields = str(g.line("g")).split("\t")[3:]
                if tag not in fields:
                    return "%r then %r (level %d): tag written as %s" % (first, second, vlevel, fields)
    return True


def find_edge_cases():
    """ordered groups that leave the edge between two adjacent segments implicit: the one fitting edge is supplied with its orientation (also an
    edge of a segment with itself, which is listed twice among its edges); none -> NotFoundError; two different ones -> NotUniqueError"""
    import gfapy
    base = ["S\tA\t8\t*", "S\tB\t8\t*", "S\tC\t8\t*", "E\te1\tA+\tB+\t6\t8$\t0\t2\t*", "E\tloop\tA+\tA+\t6\t8$\t0\t2\t*",
            "E\tp1\tB+\tC+\t6\t8$\t0\t2\t*", "E\tp2\tB+\tC+\t5\t8$\t0\t3\t*", "E\thp\tC+\tC-\t6\t8$\t6\t8$\t*"]
    for items, want in (("A+ B+", ["A+", "e1+", "B+"]), ("B- A-", ["B-", "e1-", "A-"]), ("A+ A+", ["A+", "loop+", "A+"]), ("A- A-", ["A-", "loop-", "A-"]),
                        ("A+ A+ B+", ["A+", "loop+", "A+", "e1+", "B+"]), ("B+ C+", gfapy.NotUniqueError), ("A+ C+", gfapy.NotFoundError), ("A+ B-", gfapy.NotFoundError),
                        ("C+ C-", ["C+", "hp+", "C-"])):
        g = gfapy.Gfa(base + ["O\to\t" + items], version="gfa2")
        try:
            got = [str(x) for x in g.line("o").captured_path]
        except gfapy.Error as e:
            got = type(e)
        except Exception as e:
            return "O o %s: captured_path raised %s" % (items, type(e).__name__)
        if got != want:
            return "O o %s: captured path %s, expected %s" % (items, got if isinstance(got, list) else got.__name__, want if isinstance(want, list) else want.__name__)
    return True


def replaced_line_cases():
    """an instance that was replaced by another line (a placeholder by the real line, a group line by a later line of the same group) is
    not connected any more, and using it (rename, disconnect, tag) leaves the Gfa as it is"""
    import gfapy
    from bounded import state
    for lines, held, second in ((["S\ta\t8\t*", "S\tb\t8\t*", "U\tu1\ta"], "u1", "U\tu1\tb"), (["S\ta\t8\t*", "S\tb\t8\t*", "E\te\ta+\tb+\t6\t8$\t0\t2\t*", "O\to1\ta+"], "o1", "O\to1\tb+"),
                                (["S\ta\t8\t*", "U\tu1\ta x"], "x", "S\tx\t8\t*"), (["S\ta\t*", "L\ta\t+\tb\t+\t*"], "b", "S\tb\t*")):
        g = gfapy.Gfa(lines, vlevel=0)
        old = g.line(held)
        g.add_line(second)
        new = g.line(held)
        if old is new:
            return "%r then %r: the line was not replaced" % (lines, second)
        if old.is_connected():
            return "%r then %r: the replaced instance %r still reports to be connected" % (lines, second, str(old))
        before = state.snapshot(g)
        for what, f in (("rename", lambda: setattr(old, "name", "zz")), ("disconnect", lambda: old.disconnect()), ("tag", lambda: old.set("zz", 1))):
            try:
                f()
            except gfapy.Error:
                pass
            except Exception as e:
                return "%s of the replaced instance raised %s" % (what, type(e).__name__)
            if state.snapshot(g) != before:
                return "%r then %r: %s of the replaced instance changed the Gfa: %s" % (lines, second, what, state.snap_diff(before, state.snapshot(g)))
    return True


def segment_syntax_cases():
    """S lines of both syntaxes with 0-3 tags of every datatype, sequences and names that contain colons, too few / too many fields:
    Segment._subclass tells the syntax from the fields in front of the tags"""
    import gfapy, itertools
    from gfapy.line.segment.segment import Segment
    tags = ["ab:Z:s", "cd:J:[1]", "ef:H:0A", "gh:B:c,1,-2", "gi:B:f,1.5", "ij:A:x", "kl:f:0.5", "LN:i:4", "mn:i:-3"]
    for ntags in range(0, 4):
        for ts in itertools.permutations(tags, ntags) if ntags < 3 else [tuple(tags[i:i + 3]) for i in range(len(tags) - 2)]:
            for pos, want in ((["nm", "ACGT"], gfapy.line.segment.GFA1), (["nm", "4", "ACGT"], gfapy.line.segment.GFA2), (["n:m", "*"], gfapy.line.segment.GFA1), (["ab:Z:x", "ACGT"], gfapy.line.segment.GFA1), (["ab:Z:x", "4", "*"], gfapy.line.segment.GFA2),
                              (["nm", "4", "*"], gfapy.line.segment.GFA2), (["nm"], None), (["nm", "4", "ACGT", "x"], None), ([], None)):
                data = ["S"] + pos + list(ts)
                try:
                    got = Segment._subclass(data)
                except gfapy.FormatError:
                    got = None
                except Exception as e:
                    return "Segment._subclass(%r) raised %s" % (data, type(e).__name__)
                if got is not want:
                    return "Segment._subclass(%r) = %s, expected %s" % (data, getattr(got, "__name__", got), getattr(want, "__name__", want))
    return True


def field_to_s_cases():
    """positional fields and tags holding decoded values whose encoder is laxer than the datatype's grammar: at level >= 2 writing
    reports them; valid decoded values and kept texts are written at every level; an absent field raises NotFoundError"""
    import gfapy
    bad = [("P\tp\ta+,b+\t*", "gfa1", "overlaps", [[12, 5]]), ("P\tp\ta+,b+\t*", "gfa1", "overlaps", []), ("P\tp\ta+,b+\t*", "gfa1", "segment_names", []),
           ("U\tu\ta b", "gfa2", "items", []), ("S\ta\t*\txx:Z:x", "gfa1", "xx", "a\tb"), ("S\ta\t*\txx:i:1", "gfa1", "xx", [1, "a"])]
    good = [("P\tp\ta+,b+\t*", "gfa1", "overlaps", [gfapy.Alignment("2M", version="gfa1")]), ("S\ta\t*\txx:i:1", "gfa1", "xx", 7), ("S\ta\t*\txx:J:[1]", "gfa1", "xx", {"a": [1]}),
            ("S\ta\t8\t*", "gfa2", "slen", 9), ("E\te\ta+\tb-\t0\t2\t2\t4$\t*", "gfa2", "beg1", 1)]
    for vlevel in (0, 1, 2):
        for text, version, field, value in bad:
            l = gfapy.Line(text, version=version, vlevel=vlevel)
            l._data[field] = value              # (stored as a later assignment at this level would store it)
            try:
                out = l.field_to_s(field)
                reported = False
            except gfapy.Error:
                reported = True
            except Exception as e:
                return "field_to_s(%s) with %r at level %d raised %s" % (field, value, vlevel, type(e).__name__)
            if vlevel >= 2 and not reported:
                return "level %d: field %s = %r of %r written as %r without an error" % (vlevel, field, value, text, out)
        for text, version, field, value in good:
            l = gfapy.Line(text, version=version, vlevel=vlevel)
            l._data[field] = value
            try:
                l.field_to_s(field)
            except Exception as e:
                return "level %d: valid value %r of field %s refused on writing: %s" % (vlevel, value, field, type(e).__name__)
        try:
            gfapy.Line("S\ta\t*", vlevel=vlevel).field_to_s("zz")
            return "field_to_s of an absent tag returned"
        except gfapy.NotFoundError:
            pass
        except Exception as e:
            return "field_to_s of an absent tag raised %s" % type(e).__name__
    return True


def multiply_orchestration_cases():
    """real graphs: factor -1..4, copy names absent / right / too few / too many / in use / repeated, distribution on and off: refusals
    leave the text unchanged, otherwise the number of segments grows by factor-1 with the requested names and the counts are divided"""
    import gfapy
    base = ["S\ta\t*\tRC:i:12", "S\tb\t*", "S\tc\t*", "L\ta\t+\tb\t+\t*\tRC:i:12\tID:Z:lk", "L\ta\t+\tc\t+\t*", "C\ta\t+\ta\t+\t0\t*"]
    for factor in (-1, 0, 1, 2, 3, 4):
        for kind in ("none", "right", "short", "long", "in-use", "twice"):
            for dist in (None, "auto"):
                right = ["n%d" % i for i in range(max(factor - 1, 0))]
                names = {"none": None, "right": right, "short": right[:-1], "long": right + ["x"], "in-use": right[:-1] + ["b"], "twice": (right[:1] * len(right))}[kind]
                bad = factor >= 2 and (kind in ("short", "long", "in-use") or (kind == "twice" and factor > 2))
                g = gfapy.Gfa(base)
                before = str(g)
                what = "multiply('a', %d, copy_names=%r, distribute=%r)" % (factor, names, dist)
                try:
                    g.multiply("a", factor, copy_names=names, distribute=dist)
                    ok = True
                except (gfapy.ArgumentError, gfapy.NotUniqueError):
                    ok = False
                except Exception as e:
                    return "%s raised %s" % (what, type(e).__name__)
                if not ok:
                    if not (bad or factor < 0):
                        return "%s was refused" % what
                    if str(g) != before:
                        return "%s was refused but the graph changed" % what
                    continue
                if bad or factor < 0:
                    return "%s was accepted" % what
                if factor == 1 and str(g) != before:
                    return "%s changed the graph" % what
                if factor == 0 and ("a" in g.segment_names or len(g.segments) != 2):
                    return "%s: segments %s" % (what, g.segment_names)
                if factor >= 2:
                    new = sorted(set(g.segment_names) - {"a", "b", "c"})
                    if len(new) != factor - 1 or (names is not None and new != sorted(names)):
                        return "%s: new segments %s" % (what, new)
                    if any(g.segment(x).RC != 12 // factor for x in ["a"] + new):
                        return "%s: counts %s" % (what, [g.segment(x).RC for x in ["a"] + new])
    r = _multiply_referred_name()
    if r is not True:
        return r
    return _multiply_counts_of_edges()


def _multiply_counts_of_edges():
    """the counts of every edge of the multiplied segment are divided exactly once: links to other segments, a link of the segment with
    itself (listed twice among its edges), a hairpin, a containment"""
    import gfapy
    base = ["S\ta\t*\tRC:i:12", "S\tb\t*\tRC:i:12", "L\ta\t+\tb\t+\t*\tRC:i:12", "L\ta\t+\ta\t+\t*\tRC:i:12\tKC:i:24", "L\ta\t-\ta\t+\t*\tFC:i:12",
            "C\ta\t+\tb\t+\t0\t*\tRC:i:12", "L\tb\t+\tb\t-\t*\tRC:i:12"]
    for factor in (2, 3):
        g = gfapy.Gfa(base)
        g.multiply("a", factor)
        for l in list(g.dovetails) + list(g.containments):
            touches = "a" in (l.from_segment.name.split("*")[0], l.to_segment.name.split("*")[0])
            for tag, full in (("RC", 12), ("KC", 24), ("FC", 12)):
                v = l.get(tag)
                if v is None:
                    continue
                want = full // factor if touches else full
                if v != want:
                    return "multiply('a', %d): %s has %s:%s, expected %s (the counts of an edge of the segment are divided once, those of other edges not at all)" % (factor, l, tag, v, want)
        if g.segment("a").RC != 12 // factor or g.segment("b").RC != 12:
            return "multiply('a', %d): segment counts a=%s b=%s" % (factor, g.segment("a").RC, g.segment("b").RC)
    return True


def _multiply_referred_name():
    """a name that a group refers to before any line defines it is in use: no copy takes it"""
    import gfapy
    g = gfapy.Gfa(["S\tA\t8\t*", "U\tu1\tB A*2"], version="gfa2", vlevel=0)
    g.multiply("A", 2)
    if "A*2" in g.segment_names:
        return "multiply('A', 2): the copy took the name A*2, which the group u1 refers to: %r" % str(g)
    g = gfapy.Gfa(["S\tA\t8\t*", "U\tu1\tB A*2"], version="gfa2", vlevel=0)
    before = str(g)
    try:
        g.multiply("A", 2, copy_names=["A*2"])
        return "multiply('A', 2, copy_names=['A*2']) accepted a name that the group u1 refers to"
    except gfapy.NotUniqueError:
        if str(g) != before:
            return "refused copy name changed the graph"
    return True


def link_compatibility_cases():
    """real links against requests (oriented from, oriented to, overlap): stored overlap unspecified / specified, request overlap
    unspecified / equal / the complement / different, request in the direct form, the complement form or another one"""
    import gfapy
    inv = {"+": "-", "-": "+"}
    def compl(c):
        import re
        return "*" if c == "*" else "".join("%s%s" % (n, {"I": "D", "D": "I"}.get(o, o)) for n, o in reversed(re.findall(r"(\d+)([MIDP])", c)))
    for sov in ("*", "2M1I", "3M"):
        for (a, oa, b, ob) in (("x", "+", "y", "-"), ("x", "+", "x", "+"), ("x", "+", "x", "-")):
            l = gfapy.Line("L\t%s\t%s\t%s\t%s\t%s" % (a, oa, b, ob, sov))
            forms = {"direct": (a, oa, b, ob), "complement": (b, inv[ob], a, inv[oa]), "other": (a, inv[oa], b, ob), "swapped": (b, ob, a, oa)}
            for fname, (ra, roa, rb, rob) in forms.items():
                for rov in (None, "*", "2M1I", "1D2M", "3M", "4M"):
                    rf, rt = gfapy.OrientedLine(ra, roa), gfapy.OrientedLine(rb, rob)
                    unspecified = sov == "*" or rov in (None, "*")
                    is_direct = (ra, roa, rb, rob) == (a, oa, b, ob)
                    is_compl = (ra, roa, rb, rob) == (b, inv[ob], a, inv[oa])
                    want_d = is_direct and (unspecified or rov == sov)
                    want_c = is_compl and (unspecified or compl(rov) == sov)
                    ov = gfapy.Alignment(rov if rov else "*", version="gfa1")
                    got_d = bool(l.is_compatible_direct(rf, rt, ov))
                    got_c = bool(l.is_compatible_complement(rf, rt, ov))
                    got = bool(l.is_compatible(rf, rt, rov))
                    got_nc = bool(l.is_compatible(rf, rt, rov, allow_complement=False))
                    what = "%s against request %s%s -> %s%s overlap %s (%s form)" % (l, ra, roa, rb, rob, rov, fname)
                    if got_d != want_d:
                        return "is_compatible_direct: %s: %s, expected %s" % (what, got_d, want_d)
                    if got_c != want_c:
                        return "is_compatible_complement: %s: %s, expected %s" % (what, got_c, want_c)
                    if got != (want_d or want_c) or got_nc != want_d:
                        return "is_compatible: %s: %s / without complement %s, expected %s / %s" % (what, got, got_nc, want_d or want_c, want_d)
    return True


def path_link_direction_cases():
    """paths over stored links in direct and complement form (distinct segments, self links, hairpins with a CIGAR that is not its own
    complement), link read before the path: the recorded link is the stored one and the direction is '-' exactly for the complement form;
    mixed paths: the direction of a step does not depend on the step before it"""
    def compl(c):
        import re
        ops = re.findall(r"(\d+)([MIDP])", c)
        return "".join("%s%s" % (n, {"I": "D", "D": "I"}.get(o, o)) for n, o in reversed(ops)) if c != "*" else "*"
    inv = {"+": "-", "-": "+"}
    for a, oa, b, ob in (("x", "+", "y", "+"), ("x", "-", "y", "+"), ("x", "+", "x", "+"), ("x", "+", "x", "-"), ("x", "-", "x", "+")):
        for cg in ("2M1I", "3M", "1D2M1I1M"):
            link = "L\t%s\t%s\t%s\t%s\t%s" % (a, oa, b, ob, cg)
            segs = ["S\t%s\t*" % n for n in sorted({a, b})]
            for form, pl in (("+", "P\tp\t%s%s,%s%s\t%s" % (a, oa, b, ob, cg)), ("-", "P\tp\t%s%s,%s%s\t%s" % (b, inv[ob], a, inv[oa], compl(cg)))):
                if (a, oa, b, ob, cg) == (b, inv[ob], a, inv[oa], compl(cg)):
                    continue
                g = gfapy.Gfa(segs + [link, pl], vlevel=1)
                lk = g.line("p").links
                if len(lk) != 1 or lk[0].line is not g.dovetails[0] or len(g.dovetails) != 1:
                    return "%s / %s: the path does not use the stored link" % (link, pl)
                if lk[0].orient != form:
                    return "%s / %s: direction %s, expected %s" % (link, pl, lk[0].orient, form)
    # the path is read BEFORE the link (a placeholder link is replaced), exactly one of the two overlaps unspecified
    for pov, lov in (("*", "2M1I"), ("2M1I", "*")):
        for form, link in (("+", "L\tx\t+\ty\t+\t%s" % lov), ("-", "L\ty\t-\tx\t-\t%s" % (compl(lov)))):
            g = gfapy.Gfa(["S\tx\t*", "S\ty\t*", "P\tp\tx+,y+\t%s" % pov, link], vlevel=1)
            lk = g.line("p").links
            if len(lk) != 1 or lk[0].line is not g.dovetails[0] or len(g.dovetails) != 1:
                return "P x+,y+ %s then %s: the path does not use the stored link" % (pov, link)
            if lk[0].orient != form:
                return "P x+,y+ %s then %s: direction %s, expected %s" % (pov, link, lk[0].orient, form)
    g = gfapy.Gfa(["S\ta\t*", "S\tb\t*", "S\tc\t*", "L\tb\t-\ta\t-\t2M", "L\tb\t+\tc\t+\t3M", "P\tp\ta+,b+,c+\t2M,3M"], vlevel=1)
    got = [x.orient for x in g.line("p").links]
    if got != ["-", "+"]:
        return "mixed path a+,b+,c+ over L b - a - and L b + c +: directions %s, expected ['-', '+']" % got
    # a hairpin whose overlap is its own complement fits a step in both forms: it counts as forward, whichever of link and path arrives first
    for cg, pov in (("5M", "*"), ("5M", "5M"), ("*", "*"), ("2M1P2M", "2M1P2M")):
        res = []
        for order in (["S\ta\t*", "L\ta\t+\ta\t-\t%s" % cg, "P\tp\ta+,a-\t%s" % pov], ["S\ta\t*", "P\tp\ta+,a-\t%s" % pov, "L\ta\t+\ta\t-\t%s" % cg]):
            g = gfapy.Gfa(order, vlevel=1)
            lk = g.line("p").links
            if len(lk) != 1 or len(g.dovetails) != 1 or lk[0].line is not g.dovetails[0]:
                return "hairpin %s, path overlap %s: the path does not use the stored link" % (cg, pov)
            res.append(lk[0].orient)
        if res != ["+", "+"]:
            return "hairpin a+ a- %s with P a+,a- %s: direction %s with the link first, %s with the path first (expected + in both orders)" % (cg, pov, res[0], res[1])
    return True


def edge_dollar_cases():
    """E lines whose segments have known sequences (one or both): a `$` on a position that is not the sequence length of THAT segment is
    reported by Gfa.validate (InconsistencyError), whichever of the two segments it is and whatever the other segment looks like"""
    for seq1, seq2 in (("ACGTACGT", "ACGTACGT"), ("*", "ACGTACGT"), ("ACGTACGT", "*")):
        for field, seg in (("end1", 1), ("end2", 2), ("beg1", 1), ("beg2", 2)):
            for good in (True, False):
                pos = {"beg1": "0", "end1": "2", "beg2": "0", "end2": "2"}
                n = field[-1]
                mark = "8$" if good else "5$"
                if field.startswith("end"):
                    pos["beg" + n], pos["end" + n] = "0", mark
                else:
                    pos["beg" + n], pos["end" + n] = mark, mark
                known = (seq1 if seg == 1 else seq2) != "*"
                lines = ["S\tA\t8\t%s" % seq1, "S\tB\t8\t%s" % seq2, "E\te\tA+\tB+\t%s\t%s\t%s\t%s\t*" % (pos["beg1"], pos["end1"], pos["beg2"], pos["end2"])]
                try:
                    gfapy.Gfa(lines, vlevel=1)
                    ok = True
                except gfapy.InconsistencyError:
                    ok = False
                except gfapy.Error as e:
                    return "%r: %s" % (lines[2], type(e).__name__)
                if known and ok != good:
                    return "%r with sequences %s / %s: accepted=%s, expected %s" % (lines[2], seq1, seq2, ok, good)
    return True


def edge_setter_cases():
    """E lines written from-first and 'backwards' (sid2 is the from segment), dovetails and containments: after e.from_segment = v the
    getter returns v and to_segment is unchanged, and vice versa; same for the orientations"""
    for text in ("E\t*\t1+\t2+\t90\t100$\t0\t10\t10M", "E\t*\t2+\t1+\t0\t10\t90\t100$\t10M", "E\t*\t1-\t5-\t90\t100$\t0\t10\t12M", "E\t*\t5-\t1-\t0\t10\t90\t100$\t12M",
                 "E\t*\t4+\t1+\t0\t50$\t20\t70\t50M", "E\t*\t1+\t4+\t20\t70\t0\t50$\t50M"):
        for which in ("from", "to"):
            e = gfapy.Line(text, version="gfa2")
            f0, t0, fo0, to0 = e.from_segment, e.to_segment, e.from_orient, e.to_orient
            setattr(e, which + "_segment", "NEW")
            if (e.from_segment, e.to_segment) != (("NEW", t0) if which == "from" else (f0, "NEW")):
                return "%r: after %s_segment = 'NEW': from %s to %s (were %s, %s)" % (text, which, e.from_segment, e.to_segment, f0, t0)
            if (e.from_orient, e.to_orient) != (fo0, to0):
                return "%r: setting a segment changed an orientation" % text
            e = gfapy.Line(text, version="gfa2")
            new_o = "-" if getattr(e, which + "_orient") == "+" else "+"
            other = getattr(e, ("to" if which == "from" else "from") + "_orient")
            segs = (e.sid1.line, e.sid2.line)
            setattr(e, which + "_orient", new_o)
            if (e.sid1.line, e.sid2.line) != segs:
                return "%r: setting an orientation changed a segment" % text
            if sorted([e.sid1.orient, e.sid2.orient]) != sorted([new_o, other]):
                return "%r: after %s_orient = %s the orientations are %s %s" % (text, which, new_o, e.sid1.orient, e.sid2.orient)
    return True


def clone_value_cases():
    """for lines of every record type carrying values of every class the decoders return: no mutable value object of the clone IS the
    object of the original (identity), and the clone has its own datatype table"""
    import gfapy
    texts = {"gfa1": ["S\ta\tACGT\tLN:i:4\tab:J:{\"k\": [1, {\"z\": 2}]}\tcd:B:i,1,2\tef:H:0A\tgh:Z:s\tkl:f:0.5\tij:A:x", "L\ta\t+\tb\t-\t2M1I\tID:Z:lk", "C\ta\t+\tb\t+\t1\t3M", "P\tp\ta+,b-\t2M",
                      "H\txx:i:1\tjj:J:[1]"],
             "gfa2": ["S\ta\t4\tACGT\tab:J:[1, 2]\tcd:B:f,1.5", "E\te\ta+\tb-\t0\t2\t2\t4$\t0,1", "E\te\ta+\tb-\t2$\t2$\t0\t4$\t2M", "G\tg\ta+\tb-\t10\t*", "F\ta\tx+\t0\t4$\t0\t4\t*",
                      "O\to\ta+ e+ b-", "U\tu\ta b e", "X\tq\tw\tab:J:[[1]]"]}
    IMM = (int, float, str, bytes, type(None), bool)          # gfapy.ByteArray is a bytes subclass
    def mutable_objects(v, depth=0):
        out = []
        if isinstance(v, IMM) or isinstance(v, gfapy.Placeholder) or depth > 4:
            return out
        out.append(v)
        if isinstance(v, (list, tuple)):
            for x in v:
                out += mutable_objects(x, depth + 1)
        elif isinstance(v, dict):
            for x in v.values():
                out += mutable_objects(x, depth + 1)
        elif isinstance(v, gfapy.FieldArray):
            out += mutable_objects(v._data, depth + 1)
        return out
    for version, ts in texts.items():
        for t in ts:
            for vlevel in (1, 3):
                l = gfapy.Line(t, version=version, vlevel=vlevel)
                for k in list(l._data):
                    l.get(k)
                c = l.clone()
                if c._datatype is l._datatype:
                    return "%r: the clone shares the datatype table" % t
                for k in l._data:
                    mine = {id(x) for x in mutable_objects(l._data[k])}
                    for x in mutable_objects(c._data.get(k)):
                        if id(x) in mine:
                            return "%r: field %s of the clone holds the original's %s object" % (t, k, type(x).__name__)
    # connected lines of every record type, and of an extension record with two reference fields kept under one collection of the
    # segment: the clone holds identifiers, never a line of the Gfa (neither directly nor inside an oriented reference or a list)
    from collections import OrderedDict
    if "J" not in gfapy.Line.EXTENSIONS:
        class Join(gfapy.Line):
            RECORD_TYPE = "J"
            POSFIELDS = OrderedDict([("jid", "identifier_gfa2"), ("sid1", "identifier_gfa2"), ("sid2", "identifier_gfa2")])
            NAME_FIELD = "jid"
        Join.register_extension(references=[("sid1", gfapy.line.segment.GFA2, "joins"), ("sid2", gfapy.line.segment.GFA2, "joins")])
    if "K" not in gfapy.Line.EXTENSIONS:
        class Walk(gfapy.Line):
            RECORD_TYPE = "K"
            POSFIELDS = OrderedDict([("kid", "identifier_gfa2"), ("steps", "oriented_identifier_list_gfa2")])      # oriented identifiers that are NOT references
            NAME_FIELD = "kid"
        Walk.register_extension()
    for vlevel in (0, 1, 3):
        k = gfapy.Line("K\tk1\ta+ c-\txx:i:1", version="gfa2", vlevel=vlevel)
        k.get("steps")
        try:
            c = k.clone()
        except Exception as e:
            return "clone of an extension record with a list of oriented identifiers raised %s (level %d)" % (type(e).__name__, vlevel)
        if str(c) != str(k) or not (c == k):
            return "clone of %r: %r" % (str(k), str(c))
        a, b = k._data["steps"], c._data["steps"]
        if not isinstance(a, str) and (a is b or any(x is y for x in a for y in b)):
            return "clone of %r shares the list of oriented identifiers (or its elements) with the original" % str(k)
    r = gfapy.Line("S\ts1\t*\tLN:i:5\tSN:Z:chr1\tSO:i:0\tSR:i:0", dialect="rgfa")
    if r.clone().dialect != r.dialect:
        return "the clone of an rGFA line has dialect %r" % r.clone().dialect
    docs = {"gfa1": ["S\ta\t*", "S\tb\t*", "L\ta\t+\tb\t-\t2M", "C\ta\t+\tb\t+\t1\t3M", "P\tp\ta+,b-\t2M"],
            "gfa2": ["S\ta\t4\t*", "S\tb\t4\t*", "E\te\ta+\tb-\t2\t4$\t2\t4$\t2M", "G\tg\ta+\tb-\t10\t*", "F\ta\tx+\t0\t4$\t0\t4\t*",
                     "O\to\ta+ e+ b-", "U\tu\ta b e o", "J\tj\ta\tb"]}
    def lines_in(v, depth=0):
        if isinstance(v, gfapy.Line):
            return [v]
        if isinstance(v, gfapy.OrientedLine):
            return lines_in(v.line, depth + 1)
        if isinstance(v, (list, tuple)) and depth < 4:
            return [y for x in v for y in lines_in(x, depth + 1)]
        return []
    for version, ds in docs.items():
        g = gfapy.Gfa(ds, version=version)
        for l in g.lines:
            if not l.is_connected():
                return "%s: not connected in the base document" % l
            c = l.clone()
            if c.is_connected() or str(c) != str(l):
                return "clone of connected %s: connected %s, text %r" % (l, c.is_connected(), str(c))
            for k, v in c._data.items():
                if lines_in(v):
                    return "clone of connected %r: field %s holds a line of the Gfa (%r)" % (str(l), k, type(v).__name__)
    # a clone compares equal to its original (both ways, same text) also when a field holds a value that differs from its own copy
    # under != though it is written in the same way: nested JSON (the clone holds the JSON round trip),
    # and a field that is still text on one side and already parsed on the other (level 0: parsed on first read)
    l = gfapy.Line("S\ts1\t*\tLN:i:10")
    l.set("xx", {"1": "a", "2": [1, {"b": None}]})
    pairs = [("nested JSON tag", l, l.clone())]
    for vlevel in (0, 1):
        e = gfapy.Line("E\t*\ta+\tb-\t0\t10\t5\t15$\t10M\txx:J:[1,2]\tyy:B:i,1,2", vlevel=vlevel, version="gfa2")
        c = e.clone()
        pairs.append(("E line at level %d, just cloned" % vlevel, e, c))
        e2 = gfapy.Line("E\t*\ta+\tb-\t0\t10\t5\t15$\t10M", vlevel=vlevel, version="gfa2")
        c2 = e2.clone()
        e2.alignment
        pairs.append(("E line at level %d, alignment read on the original after cloning" % vlevel, e2, c2))
    for what, a, b in pairs:
        if str(a) != str(b):
            return "%s: written forms differ: %r / %r" % (what, str(a), str(b))
        if not (a == b) or not (b == a):
            return "%s: the clone does not compare equal to the original (%r)" % (what, str(a))
    # editing the clone of a connected group with items taken from the original leaves the original (and its Gfa) as they are
    from bounded import state as _state
    g = gfapy.Gfa(["S\ta\t8\t*", "S\tb\t8\t*", "E\te\ta+\tb+\t6\t8$\t0\t2\t*", "O\to\ta+ b+", "U\tu\ta b"], version="gfa2")
    before = _state.snapshot(g)
    o, u = g.line("o"), g.line("u")
    co, cu = o.clone(), u.clone()
    co.append_item(o.items[0]); co.prepend_item(o.items[1]); cu.add_item(u.items[0]); co.rm_last_item(); cu.rm_item("a")
    if _state.snapshot(g) != before or _state.wf_errors(g):
        return "editing the clones of O o / U u with items of the originals changed the Gfa: %s" % (_state.snap_diff(before, _state.snapshot(g)) or _state.wf_errors(g))
    # placeholder lines (a segment, a link, a GFA2 segment known only from the lines that mention them): the clone is written like the original
    # (placeholder marker included), is a placeholder too, and compares equal
    for lines, pick in ((["S\ta\t*", "L\ta\t+\tb\t+\t*"], lambda g: g.segment("b")), (["S\ta\t*", "S\tb\t*", "P\tp\ta+,b+\t*"], lambda g: g.segment("a").dovetails[0]),
                        (["H\tVN:Z:2.0", "E\te\ta+\tb+\t6\t8$\t0\t2\t*"], lambda g: g.segment("a"))):
        g = gfapy.Gfa(lines, vlevel=0)
        v = pick(g)
        if not v.virtual:
            return "%r: the picked line is not a placeholder" % (lines,)
        c = v.clone()
        if str(c) != str(v) or c.virtual != v.virtual or not (c == v) or c.is_connected():
            return "clone of the placeholder %r: written %r, virtual %s, equal %s, connected %s" % (str(v), str(c), c.virtual, c == v, c.is_connected())
    # the header of a Gfa whose H lines repeat a tag (the values are kept in one array per tag), for every datatype
    for dt, v1, v2 in (("J", "[1]", "{\"a\": [2]}"), ("i", "1", "2"), ("Z", "a", "b"), ("B", "c,-1", "f,1.5"), ("H", "0A", "0B"), ("f", "1.5", "2.5"), ("A", "x", "y")):
        g = gfapy.Gfa(["H\txx:%s:%s" % (dt, v1), "H\txx:%s:%s" % (dt, v2), "S\ta\t*"])
        h = g.header
        try:
            c = h.clone()
        except Exception as e:
            return "clone of a header with two xx:%s tags raised %s" % (dt, type(e).__name__)
        if str(c) != str(h):
            return "clone of a header with two xx:%s tags: %r instead of %r" % (dt, str(c), str(h))
        mine = {id(x) for x in mutable_objects(h._data["xx"])}
        for x in mutable_objects(c._data["xx"]):
            if id(x) in mine:
                return "clone of a header with two xx:%s tags shares a %s object" % (dt, type(x).__name__)
    return True


def writer_cases():
    """to_list() on lines with 0-2 unwritable fields (a tag / a positional field whose value its datatype cannot encode): one entry per
    field in order, the failing fields named in the `# INVALID` marker, the marker present iff something failed; virtual commentary"""
    import gfapy
    for vlevel in (0, 1, 2):
        for bad_tag in (False, True):
            for bad_pos in (False, True):
                l = gfapy.Line("S\ta\t*\tLN:i:4\txx:Z:hello\tyy:i:3", vlevel=vlevel)
                if bad_tag:
                    l._data["yy"] = [1, "x"]            # a value the integer datatype cannot encode
                if bad_pos:
                    l._data["sequence"] = 5             # not a sequence
                try:
                    out = l.to_list()
                except Exception as e:
                    return "to_list raised %s (bad tag %s, bad field %s, level %d)" % (type(e).__name__, bad_tag, bad_pos, vlevel)
                n = 1 + 2 + 3 + (1 if (bad_tag or bad_pos) else 0)
                if len(out) != n:
                    return "level %d bad tag %s bad field %s: %d entries %r, expected %d" % (vlevel, bad_tag, bad_pos, len(out), out, n)
                if out[0] != "S" or out[1] != "a" or out[3] != "LN:i:4" or out[4] != "xx:Z:hello":
                    return "fields out of order: %r" % (out,)
                marker = [x for x in out if str(x).startswith("# INVALID")]
                if bool(marker) != (bad_tag or bad_pos):
                    return "marker %r with bad tag %s bad field %s" % (marker, bad_tag, bad_pos)
                if marker:
                    named = marker[0].split(":")[-1].strip().split(",")
                    want = (["sequence"] if bad_pos else []) + (["yy"] if bad_tag else [])
                    if named != want:
                        return "marker names %s, expected %s" % (named, want)
                if not bad_tag and out[5] != "yy:i:3":
                    return "valid tag not written: %r" % (out,)
    v = gfapy.Line("S\tvv\t*", virtual=True)
    if v.to_list()[-1] != "co:Z:GFAPY_virtual_line" or "co:Z:GFAPY_virtual_line" in v.to_list(add_virtual_commentary=False):
        return "virtual commentary wrong: %r" % (v.to_list(),)
    return True


def distribute_links_cases():
    """concrete battery for Multiplication._distribute_links: a segment with n links on the distributed end (to n different neighbours) and j on the
    other one, multiplied by k with the links of that end distributed: member m of [original] + copies keeps on that end exactly the links to the
    neighbours number m .. m+max(n-k,0) (in the order of the original's links), all its links on the other end, and nothing else changes"""
    for end in ("R", "L"):
        for n in range(0, 6):
            for k in range(2, 6):
                for j in (0, 2):
                    lines = ["S\tA\t*"] + ["S\tN%d\t*" % x for x in range(n)] + ["S\tM%d\t*" % x for x in range(j)] + ["S\tZ\t*", "L\tZ\t+\tN0\t-\t*" if n else "L\tZ\t+\tZ\t-\t*"]
                    o, oo = ("+", "-") if end == "R" else ("-", "+")
                    lines += ["L\tA\t%s\tN%d\t+\t*" % (o, x) for x in range(n)] + ["L\tA\t%s\tM%d\t+\t*" % (oo, x) for x in range(j)]
                    g = gfapy.Gfa(lines)
                    other = "L" if end == "R" else "R"
                    order = [l.other(g.segment("A")).name for l in g.segment("A").dovetails_of_end(end)]
                    before_other = sorted(str(l) for l in g.dovetails if "A" not in (l.from_name, l.to_name))
                    g.multiply("A", k, distribute=end)
                    members = ["A"] + ["A*%d" % x for x in range(2, k + 1)]
                    d = max(n - k, 0)
                    for m_, name in enumerate(members):
                        s_ = g.segment(name)
                        if s_ is None:
                            return "n=%d k=%d end=%s: no segment %s" % (n, k, end, name)
                        got = sorted(l.other(s_).name for l in s_.dovetails_of_end(end))
                        want = sorted(order[m_:m_ + d + 1])
                        if got != want:
                            return "n=%d links on %s, factor %d: member %d (%s) keeps %s, expected the links to %s (window %d..%d of %s)" % (n, end, k, m_, name, got, want, m_, m_ + d, order)
                        if len(s_.dovetails_of_end(other)) != j:
                            return "n=%d k=%d end=%s: member %s has %d links on the other end, expected %d" % (n, k, end, name, len(s_.dovetails_of_end(other)), j)
                    if sorted(str(l) for l in g.dovetails if not any(x in members for x in (l.from_name, l.to_name))) != before_other:
                        return "n=%d k=%d end=%s: a link that does not touch the segment changed" % (n, k, end)
                    try:
                        g.validate()
                    except gfapy.Error as e:
                        return "n=%d k=%d end=%s: the graph does not validate after the distribution: %s" % (n, k, end, type(e).__name__)
    # factor 1 / policy off: nothing is distributed
    g = gfapy.Gfa(["S\tA\t*", "S\tB\t*", "S\tC\t*", "L\tA\t+\tB\t+\t*", "L\tA\t+\tC\t+\t*"])
    g.multiply("A", 2, distribute="off")
    if len(g.dovetails) != 4:
        return "policy off: %d links after doubling a segment with 2 links" % len(g.dovetails)
    return True


def registry_cases():
    """concrete battery for the registry of a Gfa (_register_line / _unregister_line): lines of every record type are added and removed one by one;
    after every step the registered lines are exactly the expected ones (by identity), twins (records with equal fields and no identifier) and
    fragments of one external sequence in both orientations included"""
    def reg(g):
        out = []
        for rt, coll in g._records.items():
            if rt == "H":
                continue
            for k, v in coll.items():
                if isinstance(v, dict):
                    out.extend(v.values())
                    if not v:
                        return "an empty sub-collection is kept for %r" % (k,)
                else:
                    out.append(v)
        return out
    docs = {"gfa1": ["S\tA\t*", "S\tB\t*", "L\tA\t+\tB\t+\t*", "L\tA\t-\tB\t+\t2M\tID:Z:lk", "C\tA\t+\tB\t+\t1\t*", "C\tA\t+\tB\t+\t1\t*", "P\tp\tA+,B+\t*", "# c", "# c"],
            "gfa2": ["S\tA\t8\t*", "S\tB\t8\t*", "E\t*\tA+\tB+\t6\t8$\t0\t2\t*", "E\t*\tA+\tB+\t6\t8$\t0\t2\t*", "E\te\tA-\tB+\t0\t2\t0\t2\t*", "G\t*\tA+\tB-\t5\t*", "G\tg\tA+\tB-\t5\t*",
                     "F\tA\tr+\t0\t2\t0\t2\t*", "F\tA\tr-\t2\t4\t0\t2\t*", "F\tB\tr+\t0\t2\t0\t2\t*", "F\tB\tq+\t0\t2\t0\t2\t*", "O\to\tA+ B+", "U\tu\tA B", "U\t*\tA", "X\tx\t1", "X\tx\t1"]}
    for version, lines in docs.items():
        g = gfapy.Gfa(version=version)
        objs = []
        for t in lines:
            l = gfapy.Line(t, version=version)
            g.add_line(l)
            objs.append(l)
            r = reg(g)
            if isinstance(r, str):
                return r
            if not any(x is l for x in r):
                return "%s: %r is not registered after add_line" % (version, t)
        # remove the lines without dependants one by one, in an order that interleaves the twins and the fragments
        removable = [l for l in objs if l.record_type in ("L", "C", "P", "E", "G", "F", "O", "U", "X", "#") and not (l.record_type == "E" and l.name == "e")]
        for l in removable[::2] + removable[1::2]:
            if not l.is_connected():
                continue
            others = [x for x in reg(g) if x is not l]
            deps = [x for x in others if any(y is l for y in getattr(x, "_refs", {}).get("links", []) )]
            before = [x for x in reg(g) if x is not l]
            l.disconnect()
            r = reg(g)
            if isinstance(r, str):
                return "%s: after removing %r: %s" % (version, str(l), r)
            if any(x is l for x in r):
                return "%s: %r is still registered after its removal" % (version, str(l))
            gone = [str(x) for x in before if not any(y is x for y in r) and x.is_connected()]
            if gone:
                return "%s: removing %r unregistered lines which are still connected: %s" % (version, str(l), gone)
            lost = [str(x) for x in before if not any(y is x for y in r) and x.record_type not in ("P", "O", "U")]
            if lost:
                return "%s: removing %r also took %s out of the registry" % (version, str(l), lost)
    return True


def own_name_cases():
    """concrete battery for Connection._validate_no_reference_to_own_name: a line which mentions its own identifier in a reference field (single or
    list item, text or oriented) is refused with NotUniqueError and the Gfa stays as it was; the same line with another identifier is accepted"""
    base = {"gfa1": ["S\tA\t*", "S\tB\t*"], "gfa2": ["S\tA\t8\t*", "S\tB\t8\t*"]}
    shapes = {"gfa1": ["P\t{0}\t{1}+,A-\t*", "P\t{0}\tA+,{1}+\t*", "P\t{0}\tA+,B+,{1}-\t*,*", "L\t{1}\t+\tA\t+\t*\tID:Z:{0}", "L\tA\t+\t{1}\t-\t*\tID:Z:{0}",
                       "C\t{1}\t+\tA\t+\t0\t*\tID:Z:{0}", "C\tA\t+\t{1}\t+\t0\t*\tID:Z:{0}"],
              "gfa2": ["E\t{0}\t{1}+\tA+\t0\t2\t0\t2\t*", "E\t{0}\tA+\t{1}-\t0\t2\t0\t2\t*", "G\t{0}\t{1}+\tA-\t3\t*", "G\t{0}\tA+\t{1}-\t3\t*", "O\t{0}\tA+ {1}+", "O\t{0}\t{1}+",
                       "O\t{0}\t{1}- A+ B+", "U\t{0}\tA {1}", "U\t{0}\t{1}", "U\t{0}\tA B {1}"]}
    for version in shapes:
        for shape in shapes[version]:
            for vlevel in (0, 1):
                g = gfapy.Gfa(base[version], vlevel=vlevel, version=version)
                before = (sorted(g.names), str(g))
                try:
                    g.add_line(shape.format("X9", "X9"))
                    return "%s accepted: names %r" % (shape.format("X9", "X9"), g.names)
                except gfapy.NotUniqueError:
                    pass
                except gfapy.Error as e:
                    return "%s refused with %s, not NotUniqueError" % (shape.format("X9", "X9"), type(e).__name__)
                if (sorted(g.names), str(g)) != before:
                    return "%s refused, but the Gfa changed: %r" % (shape.format("X9", "X9"), str(g))
                try:
                    g.add_line(shape.format("X9", "B"))           # the same line under its own name, mentioning an existing segment: nothing wrong with it
                except gfapy.Error as e:
                    return "%s refused (%s)" % (shape.format("X9", "B"), type(e).__name__)
    return True


def emptied_group_cases():
    """concrete battery for Disconnection._remove_nonfield_backreferences: a gap listed by sets and paths is removed: every group loses the
    mention (each occurrence), a group that listed nothing else is gone (with the groups over it), every other line stays, the text reads back"""
    base = ["S\tA\t8\t*", "S\tB\t8\t*", "G\tg1\tA+\tB+\t5\t*", "G\tg2\tA-\tB-\t5\t*"]
    cases = [(["U\tu1\tg1"], []), (["U\tu1\tg1 A"], ["U\tu1\tA"]), (["U\tu1\tg1 g1"], []), (["U\tu1\tg1 g2"], ["U\tu1\tg2"]),
             (["U\tu1\tg1", "U\tu2\tu1 A"], []), (["U\tu1\tg1", "U\tu2\tg1 B", "U\tu3\tg1 A g1"], ["U\tu2\tB", "U\tu3\tA"]),
             (["U\tu1\tA g1", "U\tu2\tu1"], ["U\tu1\tA", "U\tu2\tu1"]), (["U\tu1\tg1", "U\tu2\tg1", "U\tu3\tu1 u2", "U\tu4\tA"], ["U\tu4\tA"])]
    for groups, want in cases:
        for order in (base + groups, groups + base):
            g = gfapy.Gfa(order, vlevel=0)
            try:
                g.rm("g1")
            except Exception as e:
                return "%r: rm(g1) raised %s: %s" % (groups, type(e).__name__, str(e)[:80])
            got = sorted(str(x) for x in g.lines if x.record_type in "OU")
            if got != sorted(want):
                return "%r: after rm(g1) the groups are %r, expected %r" % (groups, got, sorted(want))
            rest = sorted(str(x) for x in g.lines if x.record_type not in "OUH")
            if rest != sorted(l for l in base if not l.startswith("G\tg1")):
                return "%r: after rm(g1) the other lines are %r" % (groups, rest)
            try:
                gfapy.Gfa(str(g), vlevel=1).validate()
            except gfapy.Error as e:
                return "%r: the text after rm(g1) cannot be read back (%s): %r" % (groups, type(e).__name__, str(g))
    return True


def other_oriented_segment_cases():
    """other_oriented_segment on links between distinct segments, self links and hairpins, asked about each side, a wrong orientation and a
    foreign segment, strict and tolerant"""
    inv = {"+": "-", "-": "+"}
    for a, oa, b, ob in (("x", "+", "y", "+"), ("x", "-", "y", "+"), ("y", "+", "x", "-"), ("x", "+", "x", "+"), ("x", "+", "x", "-"), ("x", "-", "x", "+")):
        g = gfapy.Gfa(["S\tx\t*", "S\ty\t*", "S\tz\t*", "L\t%s\t%s\t%s\t%s\t*" % (a, oa, b, ob)], vlevel=1)
        l = g.dovetails[0]
        f, t = (l.from_segment.name, l.from_orient), (l.to_segment.name, l.to_orient)
        for n in ("x", "y", "z"):
            for o in "+-":
                want = t if (n, o) == f else (f if (n, o) == t else None)
                for tolerant in (False, True):
                    try:
                        r = l.other_oriented_segment(gfapy.OrientedLine(g.segment(n), o), tolerant)
                        got = None if r is None else (r.name, r.orient)
                        if want is None and not tolerant:
                            return "%s: other_oriented_segment(%s%s) answered %r instead of NotFoundError" % (l, n, o, got)
                    except gfapy.NotFoundError:
                        if want is not None or tolerant:
                            return "%s: other_oriented_segment(%s%s, tolerant=%s) raised NotFoundError" % (l, n, o, tolerant)
                        continue
                    if got != want:
                        return "%s: other_oriented_segment(%s%s) = %r, expected %r" % (l, n, o, got, want)
    return True


def canonicize_cases():
    """canonicize of unconnected links: the link itself iff from < to, or from == to and one orientation is +; else its complement"""
    for a in ("x", "y"):
        for b in ("x", "y"):
            for oa in "+-":
                for ob in "+-":
                    l = gfapy.Line("L\t%s\t%s\t%s\t%s\t2M1I" % (a, oa, b, ob), vlevel=1)
                    canon = a < b or (a == b and "+" in (oa, ob))
                    r = l.canonicize()
                    if canon and r is not l:
                        return "%s is canonical but canonicize() returned %s" % (l, r)
                    if not canon and (r is l or str(r) != str(l.complement())):
                        return "%s is not canonical but canonicize() returned %s" % (l, r)
    return True


def rpos_cases():
    """rpos of containments: pos + length of the overlap on the reference (M, D, N, =, X count; I, S, H, P do not); `*` refused with ValueError"""
    for pos in (0, 3):
        for cg, ln in (("5M", 5), ("2M1I3M", 5), ("2M2D1M", 5), ("1I", 1 - 1), ("3M1P2M", 5)):
            l = gfapy.Line("C\ta\t+\tb\t-\t%d\t%s" % (pos, cg), vlevel=1)
            if l.rpos != pos + ln:
                return "%s: rpos %r, expected %d" % (l, l.rpos, pos + ln)
        l = gfapy.Line("C\ta\t+\tb\t-\t%d\t*" % pos, vlevel=1)
        try:
            r = l.rpos
            return "%s: rpos %r, expected gfapy.ValueError" % (l, r)
        except gfapy.ValueError:
            pass
    return True
