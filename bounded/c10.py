"""C10 bounded stand-in: read-only operations never change the written form of any line or of the Gfa, nor any later answer."""
import zlib, random
from bounded import harness, state, universe
import gfapy


def rep(v, d=0):
    if isinstance(v, gfapy.Line):
        return "Line<%s>" % state.ident(v)
    if isinstance(v, (list, tuple)) and d < 3:
        return "[" + ",".join(rep(x, d + 1) for x in v) + "]"
    if isinstance(v, dict) and d < 3:
        return "{" + ",".join("%s:%s" % (k, rep(x, d + 1)) for k, x in sorted(v.items(), key=lambda kv: str(kv[0]))) + "}"
    try:
        return str(v)
    except Exception as e:
        return "<%s>" % type(e).__name__


def gfa_ops(g):
    ops = [("str", lambda: str(g)), ("validate", lambda: g.validate()), ("names", lambda: sorted(g.names)), ("lines", lambda: g.lines),
           ("segments", lambda: g.segments), ("edges", lambda: g.edges), ("dovetails", lambda: g.dovetails), ("containments", lambda: g.containments),
           ("paths", lambda: g.paths), ("connected_components", lambda: g.connected_components()), ("linear_paths", lambda: g.linear_paths()),
           ("n_dead_ends", lambda: g.n_dead_ends), ("n_dovetails", lambda: g.n_dovetails), ("n_containments", lambda: g.n_containments),
           ("n_internals", lambda: g.n_internals), ("info", lambda: g.info(short=True) if hasattr(g, "info") else None),
           ("own_version_s", lambda: g.to_gfa1_s() if g.version == "gfa1" else g.to_gfa2_s()),
           ("other_version_s", lambda: g.to_gfa2_s() if g.version == "gfa1" else g.to_gfa1_s()),
           ("unused?", lambda: None), ("headers", lambda: g.headers), ("header_tags", lambda: g.header.tagnames)]
    for n in list(g.names)[:6]:
        ops.append(("line:%s" % n, lambda n=n: g.line(n)))
        ops.append(("try_get_line:%s" % n, lambda n=n: g.try_get_line(n)))
    for s in g.segments:
        ops.append(("scc", lambda s=s: g.segment_connected_component(s)))
        ops.append(("is_cut_segment", lambda s=s: g.is_cut_segment(s)))
    return ops


def line_ops(g, l):
    ops = [("str", lambda: str(l)), ("to_list", lambda: l.to_list()), ("tagnames", lambda: l.tagnames), ("validate", lambda: l.validate()),
           ("clone", lambda: str(l.clone())), ("eq_clone", lambda: l == l.clone()), ("diff", lambda: l.diff(l.clone())), ("eq_self", lambda: l == l),
           ("refstr", lambda: l.refstr() if hasattr(l, "refstr") else None), ("all_references", lambda: l.all_references),
           ("other_version_s", lambda: l.to_gfa2_s() if l.version == "gfa1" else l.to_gfa1_s())]
    for fn in l.positional_fieldnames + l.tagnames:
        ops += [("get:" + fn, lambda fn=fn: l.get(fn)), ("try_get:" + fn, lambda fn=fn: l.try_get(fn)), ("field_to_s:" + fn, lambda fn=fn: l.field_to_s(fn)),
                ("get_datatype:" + fn, lambda fn=fn: l.get_datatype(fn)), ("validate_field:" + fn, lambda fn=fn: l.validate_field(fn))]
    rt = l.record_type
    if rt == "S":
        ops += [("neighbours", lambda: l.neighbours), ("dovetails", lambda: l.dovetails), ("dovetails_L", lambda: l.dovetails_of_end("L")), ("dovetails_R", lambda: l.dovetails_of_end("R")),
                ("containers", lambda: l.containers), ("contained", lambda: l.contained), ("edges", lambda: l.edges), ("connectivity", lambda: l._connectivity()),
                ("paths", lambda: l.paths), ("length", lambda: l.length), ("to_str_wo", lambda: l.to_str_without_sequence() if hasattr(l, "to_str_without_sequence") else None),
                ("neighbours_L", lambda: l.neighbours_of_end("L")), ("relations", lambda: [l.relations_to(o) for o in g.segments]),
                ("oriented_relations", lambda: [str(e) for o in "+-" for other in g.segments for oo in "+-" for e in l.oriented_relations(o, gfapy.OrientedLine(other, oo))]),
                ("end_relations", lambda: [str(e) for x in "LR" for other in g.segments for y in "LR" for e in l.end_relations(x, gfapy.SegmentEnd(other, y))])]
    if rt in ("L", "C", "E"):
        ops += [("from_end", lambda: l.from_end), ("to_end", lambda: l.to_end), ("is_circular", lambda: l.is_circular()), ("other", lambda: l.other(l.from_segment)),
                ("oriented_from", lambda: l.oriented_from), ("is_dovetail", lambda: l.is_dovetail()), ("is_containment", lambda: l.is_containment())]
    if rt in ("L", "C"):
        # to_gfa2_s of L/C assigns an ID by design (conversion state): not in the read-only list
        ops += [("coords", lambda: (l.from_coords, l.to_coords)) if rt == "L" else ("pos", lambda: l.pos)]
    if rt == "C":
        ops += [("is_canonical", lambda: l.is_canonical())]
    if rt == "L":
        ops += [("canonicize", lambda: str(l.clone().canonicize())), ("canonicize.is_canonical", lambda: l.clone().canonicize().is_canonical()),
                ("complement", lambda: str(l.complement())), ("is_canonical", lambda: l.is_canonical()), ("hash", lambda: hash(l)),
                ("overlap.complement", lambda: str(l.overlap.complement())), ("overlap.complement2", lambda: str(l.overlap.complement().complement())),
                ("len_ref", lambda: l.overlap.length_on_reference() if not gfapy.is_placeholder(l.overlap) else None),
                ("len_qry", lambda: l.overlap.length_on_query() if not gfapy.is_placeholder(l.overlap) else None),
                ("overlap.validate", lambda: l.overlap.validate()), ("other_end", lambda: l.other_end(l.from_end))]
        for o in g._gfa1_links:
            ops += [("is_complement", lambda o=o: l.is_complement(o)), ("is_eql", lambda o=o: l.is_eql(o)), ("is_same", lambda o=o: l.is_same(o)), ("eql_link", lambda o=o: l == o),
                    ("compatible", lambda o=o: l.is_compatible(o.oriented_from, o.oriented_to, o.overlap, True)),
                    ("search_link", lambda o=o: g._search_link(o.oriented_to.inverted(), o.oriented_from.inverted(), o.overlap.complement()))]
    if rt == "E":
        ops += [("alignment_type", lambda: l._alignment_type), ("to_gfa1_s", lambda: l.to_gfa1_s()), ("overlap", lambda: str(l.overlap)), ("alignment.complement", lambda: str(l.alignment.complement())),
                ("other_oriented", lambda: l.other_oriented_segment(l.sid1)), ("is_internal", lambda: l.is_internal())]
    if rt == "P":
        ops += [("captured_path", lambda: l.captured_path), ("captured_segments", lambda: l.captured_segments), ("captured_edges", lambda: l.captured_edges), ("links", lambda: l.links),
                ("is_circular", lambda: l.is_circular()), ("required_links", lambda: l._compute_required_links())]
    if rt == "O":
        ops += [("captured_path", lambda: l.captured_path), ("captured_segments", lambda: l.captured_segments), ("captured_edges", lambda: l.captured_edges), ("to_gfa1_s", lambda: l.to_gfa1_s())]
    if rt == "U":
        ops += [("induced_set", lambda: l.induced_set), ("induced_segments_set", lambda: l.induced_segments_set), ("induced_edges_set", lambda: l.induced_edges_set)]
    if rt in ("G", "F"):
        ops += [("to_gfa1_s", lambda: l.to_gfa1_s())]
    return ops


PENDING = [["# c", "X\tcustom\trecord\txx:i:1"], ["L\tA\t+\tB\t+\t4M1D2M"], ["H\txx:i:1", "P\tp\tA+,B+\t*"], ["# c"], ["C\tA\t+\tB\t+\t0\t*", "Y\tf"]]


def check(case):
    if case[0] == "assigned":
        return assigned_case(case)
    version, ids, vlevel, seed = case
    rng = random.Random(seed)
    fails = []
    if version == "pending":
        # a Gfa whose version is still undecided and which holds lines kept aside: the queue, the version and the guess are observable
        lines = list(ids)
        g = gfapy.Gfa(vlevel=vlevel)
        for l in lines:
            g.add_line(l)
        snap0 = state.snapshot
        def snap(gg):
            d = snap0(gg)
            d["version"] = (gg.version, gg._version_guess, tuple(str(x) for x in gg._line_queue), len(gg.lines))
            return d
    elif version == "spelled":
        lines = list(ids)
        try:
            g = gfapy.Gfa(lines, vlevel=vlevel)
        except gfapy.Error:
            return dict(key=(version, tuple(ids), vlevel), nontrivial=False, failures=[])        # (a spelling refused at this level: subject of C04)
        snap = state.snapshot
    else:
        lines = universe.lines_of(version, ids)
        g = gfapy.Gfa(lines, vlevel=vlevel)
        snap = state.snapshot
    ops = [("gfa", n, f) for n, f in gfa_ops(g)]
    for l in state.registered(g):
        ops += [("%s" % l.record_type, n, f) for n, f in line_ops(g, l)]
    rng.shuffle(ops)
    before = snap(g)
    nops = 0
    for who, name, f in ops:
        r1 = r2 = None
        try:
            r1 = ("ok", rep(f()))
        except gfapy.Error as e:
            r1 = ("err", type(e).__name__)
        except Exception as e:
            r1 = ("foreign", type(e).__name__)
        try:
            r2 = ("ok", rep(f()))
        except gfapy.Error as e:
            r2 = ("err", type(e).__name__)
        except Exception as e:
            r2 = ("foreign", type(e).__name__)
        nops += 1
        opname = name.split(":")[0]
        if r1[0] == "foreign":
            fails.append(dict(signature="C10:foreign-exception:%s.%s:%s" % (who, opname, r1[1]), what="%s %s raised %s" % (who, name, r1[1]), case=dict(version=version, lines=lines, vlevel=vlevel, op=name)))
        if r1 != r2:
            fails.append(dict(signature="C10:asking-twice-differs:%s.%s" % (who, opname), what="%s -> %s then %s" % (name, harness.short(r1, 150), harness.short(r2, 150)),
                              case=dict(version=version, lines=lines, vlevel=vlevel, op=name)))
        after = snap(g)
        if after != before:
            fails.append(dict(signature="C10:state-changed-by:%s.%s%s" % (who, opname, (":vlevel0" if vlevel == 0 else "") + (":noncanonical-spelling" if version == "spelled" else "")), what=harness.short("; ".join(state.snap_diff(before, after)), 400),
                              case=dict(version=version, lines=lines, vlevel=vlevel, op=name),
                              reproducer="import gfapy\ng = gfapy.Gfa(%r, vlevel=%d)\nprint(str(g))\n# read-only operation: %s %s\n" % (lines, vlevel, who, name)))
            before = after
    return dict(key=(version, tuple(ids), vlevel), nontrivial=nops > 10, failures=fails, sample=dict(lines=lines, vlevel=vlevel, read_only_calls=nops))


# a field assigned as text after the line was made: well-formed text, which may contradict the rest of the record (end before begin, LN against the
# sequence, one overlap too many) - whatever a read answers, it answers it again
ASSIGNED = [("E\te\tA+\tB+\t6\t8$\t0\t2\t*", "gfa2", "end1", "5"), ("E\te\tA+\tB+\t6\t8$\t0\t2\t*", "gfa2", "beg2", "1"), ("E\te\tA+\tB+\t6\t8$\t0\t2\t*", "gfa2", "alignment", "2M"),
            ("S\tA\tACGT", "gfa1", "LN", "7"), ("S\tA\tACGT", "gfa1", "LN", "4"), ("S\tA\tACGT\tLN:i:4", "gfa1", "sequence", "ACGTA"),
            ("P\tp\tA+,B+,C+\t*", "gfa1", "overlaps", "2M,2M,2M,2M"), ("P\tp\tA+,B+,C+\t*", "gfa1", "overlaps", "2M,2M"), ("P\tp\tA+,B+,C+\t2M,2M", "gfa1", "segment_names", "A+,B+"),
            ("F\tA\tx+\t0\t8$\t0\t8\t*", "gfa2", "s_end", "0"), ("F\tA\tx+\t0\t8$\t0\t8\t*", "gfa2", "f_beg", "9"), ("G\tg\tA+\tB-\t10\t*", "gfa2", "disp", "-3"), ("G\tg\tA+\tB-\t10\t*", "gfa2", "var", "2"),
            ("S\tA\t8\t*", "gfa2", "slen", "3"), ("S\tA\t8\tACGTACGT", "gfa2", "slen", "3"), ("L\tA\t+\tB\t+\t2M", "gfa1", "overlap", "3M1D"), ("C\tA\t+\tB\t+\t1\t2M", "gfa1", "pos", "7"),
            ("S\tA\t*\txx:i:1", "gfa1", "xx", "12"), ("S\tA\t*\txx:J:[1]", "gfa1", "xx", "{\"a\": [2]}"), ("S\tA\t*\txx:B:c,1", "gfa1", "xx", "C,1,200")]


# the same with text which is valid but not spelled as gfapy writes it
ASSIGNED_SPELLED = [("S\tA\t*\txx:i:1", "gfa1", "xx", "+5"), ("S\tA\t*\txx:f:1.0", "gfa1", "xx", "1.50"), ("S\tA\t*\txx:J:[1]", "gfa1", "xx", "[1,2]"), ("S\tA\t*\txx:B:c,1", "gfa1", "xx", "i,1,2"),
                    ("L\tA\t+\tB\t+\t2M", "gfa1", "overlap", "02M"), ("E\te\tA+\tB+\t6\t8$\t0\t2\t*", "gfa2", "beg2", "00")]


def assigned_case(case):
    _, text, version, field, value, vlevel = case[:6]
    spelled = len(case) > 6
    fails = []
    c = dict(line=text, field=field, value=value, vlevel=vlevel)
    try:
        l = gfapy.Line(text, vlevel=vlevel, version=version)
        l.set(field, value)
    except gfapy.Error:
        return dict(key=case[1:], nontrivial=False, failures=[])          # (refused at the assignment: subject of C18)
    ops = [("str", lambda: str(l)), ("validate", lambda: l.validate()), ("to_list", lambda: l.to_list())]
    for fn in l.positional_fieldnames + l.tagnames:
        ops += [("get:" + fn, lambda fn=fn: l.get(fn)), ("field_to_s:" + fn, lambda fn=fn: l.field_to_s(fn)), ("validate_field:" + fn, lambda fn=fn: l.validate_field(fn)),
                ("attr:" + fn, lambda fn=fn: getattr(l, fn))]
    random.Random(zlib.crc32(repr((text, field, value, vlevel)).encode())).shuffle(ops)
    def ask(f):
        try:
            return ("ok", rep(f()))
        except gfapy.Error as e:
            return ("err", type(e).__name__)
        except Exception as e:
            return ("foreign", type(e).__name__)
    def written():
        try:
            return str(l)
        except gfapy.Error as e:
            return "<%s>" % type(e).__name__
    for name, f in ops:
        w0 = written()
        r1 = ask(f); r2 = ask(f)
        if written() != w0:
            fails.append(dict(signature="C10:state-changed-by:assigned:%s%s%s" % (name.split(":")[0], ":vlevel0" if vlevel == 0 else "", ":noncanonical-spelling" if spelled else ""),
                              what="%s: written %r before, %r after" % (name, w0, written()), case=c,
                              reproducer="import gfapy\nl = gfapy.Line(%r, vlevel=%d, version=%r)\nl.set(%r, %r)\nprint(str(l))\n# read-only call: %s\nprint(str(l))" % (text, vlevel, version, field, value, name)))
        if r1[0] == "foreign":
            fails.append(dict(signature="C10:foreign-exception:assigned:%s:%s" % (name.split(":")[0], r1[1]), what="%s raised %s" % (name, r1[1]), case=c))
        if r1 != r2:
            fails.append(dict(signature="C10:asking-twice-differs:assigned:%s" % name.split(":")[0], what="%s -> %s then %s" % (name, harness.short(r1, 150), harness.short(r2, 150)), case=c,
                              reproducer="import gfapy\nl = gfapy.Line(%r, vlevel=%d, version=%r)\nl.set(%r, %r)\n# asked twice: %s" % (text, vlevel, version, field, value, name)))
    return dict(key=case[1:], nontrivial=True, failures=fails, sample=dict(c, read_only_calls=2 * len(ops)))


# valid tags and overlaps in a spelling that is not the one gfapy writes (spaces in JSON, an array subtype wider than needed, leading zeros)
SPELLED = [["S\tA\t*\txx:J:{\"a\" :  1}"], ["S\tA\t*\txx:B:i,1,2"], ["S\tA\t*\txx:f:1.50"], ["S\tA\t*\txx:i:004"], ["S\tA\t*\txx:H:0a"],
           ["S\tA\t*", "S\tB\t*", "L\tA\t+\tB\t+\t01M2I"], ["S\tA\t8\t*\txx:J:[1,2]"], ["H\txx:J:[1,2]", "S\tA\t*"]]


def cases(tier, seed):
    rng = random.Random(seed)
    out = []
    for version in ("gfa1", "gfa2"):
        docs = list(universe.documents(version, 2 if tier == "quick" else 3))
        if tier == "quick":
            big = [d for d in docs if len(d) > 4]
            docs = [d for d in docs if len(d) <= 4] + rng.sample(big, min(80, len(big)))
        else:
            big = [d for d in docs if len(d) > 5]
            docs = [d for d in docs if len(d) <= 5] + rng.sample(big, min(1500, len(big)))
        for ids in docs:
            for vlevel in (0, 1, 3):
                out.append((version, ids, vlevel, rng.randrange(10**6)))
    for lines in SPELLED:
        for vlevel in (0, 1, 3):
            out.append(("spelled", tuple(lines), vlevel, rng.randrange(10**6)))
    for text, version, field, value in ASSIGNED:
        for vlevel in (0, 1, 2, 3):
            out.append(("assigned", text, version, field, value, vlevel))
    for text, version, field, value in ASSIGNED_SPELLED:
        for vlevel in (0, 1, 2, 3):
            out.append(("assigned", text, version, field, value, vlevel, "spelled"))
    for lines in PENDING:
        for vlevel in (0, 1, 3):
            for k in range(3):
                out.append(("pending", tuple(lines), vlevel, rng.randrange(10**6)))
    return out


if __name__ == "__main__":
    tier, seed = harness.args()
    cs = cases(tier, seed)
    res = harness.run(cs, check,
                      rule="catalogue Gfas, Gfas with lines kept aside, and Gfas whose tags / overlaps are valid but not spelled as gfapy writes them, at vlevel 0/1/3; every read-only call of the list in bounded/c10.py (Gfa queries, per line: write, field reads, validation, clone/eq/diff, edge and alignment "
                           "queries incl. complement/equivalence/compatibility against every other link, neighbourhood, topology, path and set resolution) is made twice in a seeded random order; "
                           "after each call the full-state snapshot must be unchanged and the two answers equal; plus stand-alone lines with one field assigned as text after construction (text that may contradict the rest of the record), every read asked twice. one evaluation = one Gfa state with all its calls",
                      bound="documents <=%d primary lines" % (2 if tier == "quick" else 3), exhaustive=False)
    harness.emit(res)
