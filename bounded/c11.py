"""C11 bounded twin: on real Gfa objects, before and after mutation histories, the traversal collections of every segment
contain exactly the lines the specification assigns to them (oracle.collections on the text model)."""
import itertools, random
from bounded import harness, histories, state, universe, oracle
import gfapy

KEYS = ["dovetails_L", "dovetails_R", "edges_to_contained", "edges_to_containers", "internals", "gaps_L", "gaps_R"]


def compare(g, text, version, fail):
    want = oracle.collections(text, version)
    for s in g.segments:
        if s.virtual:
            continue
        either = want.get((s.name, "containment_either"), [])
        for key in KEYS:
            try:
                members = list(getattr(s, key))
                if not all(isinstance(l, gfapy.Line) for l in members):
                    fail("collection-holds-non-line:%s" % key, "%s.%s = %s" % (s.name, key, [str(l) for l in members])); continue
                got = sorted(state.canon_ident(state.ident(l), version) for l in members)
            except Exception as e:
                fail("collection-raises-%s" % type(e).__name__, "%s.%s" % (s.name, key)); continue
            w = list(want.get((s.name, key), []))
            if key in ("edges_to_contained", "edges_to_containers") and either:
                got = [x for x in got if x not in either]          # both intervals whole: either collection is admissible
            if got != sorted(w):
                fail("collection-differs:%s" % key, "%s.%s: want %s got %s" % (s.name, key, sorted(w), got))
        # derived queries follow from the collections
        try:
            nb = sorted(x.name for x in s.neighbours)
            wn = []
            lines_seen = []
            for key in ("dovetails_L", "dovetails_R"):
                for l in getattr(s, key):
                    if any(l is x for x in lines_seen):
                        continue              # a link joining the two ends of the segment is one line: one neighbour entry
                    lines_seen.append(l)
                    o = l.other(s)
                    # the segment may be named instead of handed over
                    try:
                        o2 = l.other(s.name)
                        if (o2.name if hasattr(o2, "name") else str(o2)) != (o.name if hasattr(o, "name") else str(o)):
                            fail("other-by-name-differs", "%s.other(%r) = %s, other(segment) = %s" % (l, s.name, o2, o))
                    except gfapy.Error as e:
                        fail("other-by-name-raises-%s" % type(e).__name__, "%s.other(%r)" % (l, s.name))
                    wn.append(o.name if hasattr(o, "name") else str(o))
            if sorted(nb) != sorted(wn):
                fail("neighbours-differ", "%s: %s vs %s" % (s.name, nb, wn))
        except gfapy.Error:
            pass
        except Exception as e:
            fail("neighbours-raises-%s" % type(e).__name__, "%s: %s" % (s.name, harness.short(e, 100)))


def check(case):
    version, order, history = case
    fails = []
    key = (version, tuple(sorted(order)), tuple(tuple(s[:3]) for s in history))
    def fail(kind, what):
        fails.append(dict(signature="C11:%s:%s" % (kind, history[-1][0] if history else "construct"), what=what, case=histories.describe(version, order, history),
                          reproducer=histories.reproducer(version, order, history, "for s in g.segments: print(s.name, {k: [str(l) for l in getattr(s,k)] for k in %r})" % (KEYS,))))
    try:
        g = gfapy.Gfa(universe.lines_of(version, order), vlevel=1)
        for st in history:
            state.apply_step(g, st)
    except Exception as e:
        fail("raises-" + type(e).__name__, harness.short(e))
        return dict(key=key, nontrivial=True, failures=fails)
    tm = histories.replay_model(version, order, history)
    compare(g, tm.text(), version, fail)
    # a line that is refused (its second segment identifier belongs to a line that is not a segment) is not part of the document:
    # the collections must be the same afterwards
    segs = [tm.name_of(r) for r in tm.recs if r.rt == "S"]
    others = [tm.name_of(r) for r in tm.recs if r.rt not in ("S", "H", "#") and tm.name_of(r)]
    if segs and others:
        a, x = segs[0], others[0]
        for text in (["L\t%s\t+\t%s\t+\t*" % (a, x), "C\t%s\t-\t%s\t+\t0\t*" % (a, x)] if version == "gfa1" else
                     ["E\t*\t%s+\t%s+\t6\t8$\t0\t2\t*" % (a, x), "G\t*\t%s-\t%s+\t5\t*" % (a, x)]):
            try:
                g.add_line(text)
                break                                    # accepted (not the situation meant here): stop
            except gfapy.Error:
                pass
            except Exception as e:
                fail("refused-line-raises-%s" % type(e).__name__, text); break
        else:
            def fail2(kind, what):
                fail("after-refused-line:" + kind, what)
            compare(g, tm.text(), version, fail2)
    return dict(key=key, nontrivial=True, failures=fails, sample=histories.describe(version, order, history))


def table_case(case):
    _, line = case
    fails = []
    lines = ["S\tA\t8\t*", "S\tB\t8\t*", line]
    def fail(kind, what):
        fails.append(dict(signature="C11:table:%s" % kind, what=what, case=dict(lines=lines)))
    try:
        g = gfapy.Gfa(lines, vlevel=1)
        compare(g, "\n".join(lines), "gfa2", fail)
        e = g.edges[0]
        c = oracle.e_class(line.split("\t")[1:])[0]
        if (e.is_dovetail(), e.is_containment(), e.is_internal()) != (c == "dovetail", c == "containment", c == "internal"):
            fail("class-differs", "%s: %s" % (line, c))
    except gfapy.Error as e:
        fail("raises-%s" % type(e).__name__, "%s: %s" % (line, harness.short(e, 100)))
    return dict(key=line, nontrivial=True, failures=fails, sample=dict(line=line))


def check_any(case):
    return table_case(case) if case[0] == "table" else check(case)


if __name__ == "__main__":
    tier, seed = harness.args()
    cs = histories.case_space(tier, seed, maxp=2, depth=1 if tier == "quick" else 2)
    kinds = [("0", "3"), ("5", "8$"), ("0", "8$"), ("2", "5"), ("0", "0"), ("8$", "8$"), ("3", "3")]
    for o1 in "+-":
        for o2 in "+-":
            for k1 in kinds:
                for k2 in kinds:
                    for a, b in (("A", "B"), ("A", "A")):
                        cs.append(("table", "E\t*\t%s%s\t%s%s\t%s\t%s\t%s\t%s\t*" % (a, o1, b, o2, k1[0], k1[1], k2[0], k2[1])))
    res = harness.run(cs, check_any,
                      rule="(a) the C02 history space (documents <=2 primary lines, histories <=%d steps): after every history the collections dovetails_L/R, edges_to_contained/containers, internals, "
                           "gaps_L/R of every segment equal the assignment of the specification computed on the text model, and neighbours follow from them; (b) the full table of E lines: 4 orientation pairs x "
                           "7 x 7 interval kinds (prefix, suffix, whole, inner, empty at 0, empty at the end, empty inside) x distinct/same segment" % (1 if tier == "quick" else 2),
                      bound="documents <=2 primary lines, histories <=%d steps; E table exhaustive" % (1 if tier == "quick" else 2), exhaustive=False)
    harness.emit(res)
