"""C05 bounded stand-in: after every history, the content of the Gfa equals that of the independent text model
(oracle.TextModel: documented removal cascade, mention dropping, rename by substitution)."""
from bounded import harness, histories, state, universe, oracle
import gfapy


def check(case):
    version, order, history = case
    fails = []
    from bounded import c03
    if c03.ambiguous(version, order):
        # a path with unspecified overlaps over parallel links does not determine which link it depends on: the cascade is not pinned
        return dict(key=(version, tuple(sorted(order)), tuple(tuple(s[:3]) for s in history)), nontrivial=False, failures=[])
    key = (version, tuple(sorted(order)), tuple(tuple(s[:3]) for s in history))
    def fail(kind, what):
        sig = "C05:%s:%s" % (kind, history[-1][0] if history else "construct")
        fails.append(dict(signature=sig, what=what, case=histories.describe(version, order, history),
                          reproducer=histories.reproducer(version, order, history, "print(str(g))")))
    try:
        g = gfapy.Gfa(universe.lines_of(version, order), vlevel=1)
        for st in history:
            state.apply_step(g, st)
        got_text = str(g)
    except Exception as e:
        fail("raises-" + type(e).__name__, harness.short(e))
        return dict(key=key, nontrivial=True, failures=fails)
    tm = histories.replay_model(version, order, history)
    try:
        _, want = oracle.view(tm.text(), version)
        _, got = oracle.view(got_text, version)
    except Exception as e:
        fail("unparsable-output-" + type(e).__name__, harness.short(got_text))
        return dict(key=key, nontrivial=True, failures=fails)
    if want != got and version == "gfa2":
        # known pattern: a group keeps the mention of a gap that no longer exists
        _, recs = oracle.parse_text(got_text, version)
        defined = {r.pos[0] for r in recs if r.rt in ("S", "E", "G", "O", "U")}
        gaps = {l.split("\t")[1] for l in universe.lines_of(version, order) + [s[1] for s in history if s[0] == "add"] if l.startswith("G\t")}
        lines2 = []
        for r in recs:
            if r.rt in ("O", "U"):
                items = [i for i in r.pos[1].split(" ") if not ((i.rstrip("+-") if r.rt == "O" else i) in gaps - defined)]
                r.pos[1] = " ".join(items)
            lines2.append(r.text())
        _, got2 = oracle.view("\n".join(lines2), version)
        if got2 == want:
            fail("group-keeps-mention-of-removed-gap", str(oracle.view_diff(want, got)))
            return dict(key=key, nontrivial=True, failures=fails)
    if want != got:
        d = oracle.view_diff(want, got)
        kinds = sorted(set((x.split("'")[1] if "'" in x else "?") for x in d["missing"])) , sorted(set((x.split("'")[1] if "'" in x else "?") for x in d["extra"]))
        fail("content-differs:missing=%s:extra=%s" % ("".join(kinds[0]), "".join(kinds[1])), str(d))
    else:
        # the history's text is itself a valid document: parsing it afresh gives the same content
        try:
            _, again = oracle.view(str(gfapy.Gfa(got_text, vlevel=1)), version)
            if again != got:
                fail("reparse-differs", str(oracle.view_diff(got, again)))
        except Exception as e:
            fail("reparse-raises-" + type(e).__name__, harness.short(e))
    return dict(key=key, nontrivial=bool(history), failures=fails, sample=histories.describe(version, order, history))


if __name__ == "__main__":
    tier, seed = harness.args()
    cs = histories.case_space(tier, seed, with_tags=True)
    res = harness.run(cs, check,
                      rule="same history space as C02 plus tag set/delete steps; oracle = independent text model (removal cascade per doc/tutorial/references.rst, rename by substitution); "
                           "compared as canonical multisets of records. distinct = distinct (document, history); non-trivial = at least one step",
                      bound="documents <=%d primary lines, histories <=%d steps" % ((2, 2) if tier == "quick" else (3, 3)), exhaustive=False)
    harness.emit(res)
