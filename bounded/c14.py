"""C14 bounded stand-in: linear paths = maximal chains joined end to end by dovetails that are the only dovetail on both
joined ends; merging spells the right sequence, keeps the outward links, leaves the rest intact, preserves components and
the reference graph, and is idempotent.  Reference implementation on the text (GFA1)."""
import itertools, random
from collections import Counter
from bounded import harness, oracle, state
import gfapy

SEQ = {"A": "AACCGG", "B": "CCGGTT", "C": "GGTTAA", "D": "TTAACC", "E": "ACGTAC"}
# the same overlaps (first and last two letters), with ambiguity codes inside: their reverse complement is not the ACGT one
SEQ_IUPAC = {"A": "AASRGG", "B": "CCWYTT", "C": "GGSKAA", "D": "TTWBCC", "E": "ACSDAC"}


def ends_of_link(f):
    return (f[1], "R" if f[2] == "+" else "L"), (f[3], "L" if f[4] == "+" else "R")


def other(e):
    return (e[0], "L" if e[1] == "R" else "R")


def chains(segs, links):
    """links: list of fields; returns (list of chains as lists of (seg, exit_end)), is_cycle flags"""
    deg = Counter()
    for f in links:
        x, y = ends_of_link(f)
        deg[x] += 1; deg[y] += 1
    nxt = {}
    for f in links:
        x, y = ends_of_link(f)
        if deg[x] == 1 and deg[y] == 1 and x[0] != y[0]:
            nxt[x] = (y, f); nxt[y] = (x, f)
    seen = set()
    out = []
    for s in segs:
        if s in seen:
            continue
        # walk left as far as possible
        start = (s, "L")
        cur = start
        cyc = False
        visited = {s}
        while cur in nxt:
            y, _ = nxt[cur]
            if y[0] in visited:
                cyc = True
                break
            visited.add(y[0])
            cur = other(y)          # arrived at end y of the neighbour; continue from its other end
        if cyc:
            first_entry = (s, "L")
        else:
            first_entry = cur       # outermost end of the chain on that side
        # now walk from first_entry's segment leaving through the other end
        chain = []
        e = other(first_entry)
        vis = set()
        while True:
            chain.append(e)         # (segment, exit end)
            vis.add(e[0])
            if e not in nxt:
                break
            y, _ = nxt[e]
            if y[0] in vis:
                break
            e = other(y)
        seen |= vis
        if len(chain) > 1:
            out.append((chain, cyc))
    return out


def canon_chain(chain, cyc):
    names = [c[0] for c in chain]
    if cyc:
        rots = [tuple(names[i:] + names[:i]) for i in range(len(names))]
        rn = list(reversed(names))
        rots += [tuple(rn[i:] + rn[:i]) for i in range(len(rn))]
        return ("cycle", min(rots))
    return ("path", min(tuple(names), tuple(reversed(names))))


def overlap_len(cg):
    if cg == "*":
        return 0
    ops = oracle.cigar_ops(cg)
    return sum(n for n, c in ops)


def merged_model(segs, seqs, links):
    """expected graph after merging all chains: (segment name -> sequence), multiset of links as frozenset of ends + cigar;
    canonical up to reversal of each merged segment is handled by the caller through `orient` variants"""
    cs = chains(segs, links)
    member = {}
    new_segs = {}
    endmap = {}
    for chain, cyc in cs:
        names = [c[0] for c in chain]
        mname = "_".join(names)
        seq = ""
        unknown = False
        for i, (s, ex) in enumerate(chain):
            sq = seqs[s]
            if sq == "*":
                unknown = True
            else:
                sq = sq if ex == "R" else oracle.rc(sq)
            cut = 0
            if i > 0:
                prev = chain[i - 1]
                # the link between prev exit end and this entry end
                f = [f for f in links if set(ends_of_link(f)) == {prev, other((s, ex))}][0]
                cut = overlap_len(f[5])
            if not unknown:
                seq += sq[cut:]
            member[s] = mname
        new_segs[mname] = "*" if unknown else seq
        first, last = chain[0], chain[-1]
        endmap[other(first)] = (mname, "L")
        endmap[last] = (mname, "R")
    for s in segs:
        if s not in member:
            new_segs[s] = seqs[s]
    new_links = Counter()
    for f in links:
        x, y = ends_of_link(f)
        internal = False
        for chain, cyc in cs:
            for i in range(len(chain) - 1):
                if {x, y} == {chain[i], other(chain[i + 1])}:
                    internal = True
        if internal:
            continue
        x2 = endmap.get(x, x); y2 = endmap.get(y, y)
        if x2[0] in member or y2[0] in member:
            continue          # a link on an inner end of a chain cannot exist (degree 1), defensive
        new_links[(frozenset([x2, y2]) if x2 != y2 else frozenset([x2]), f[5] if x2 == endmap.get(x, None) or True else f[5])] += 1
    return new_segs, new_links, cs


def graph_of(g):
    segs = {s.name: str(s.sequence) for s in g.segments}
    links = Counter()
    for l in g._gfa1_links:
        x = (l.from_end.name, l.from_end.end_type); y = (l.to_end.name, l.to_end.end_type)
        links[(frozenset([x, y]), str(l.overlap))] += 1
    return segs, links


def variants(new_segs, new_links, cs):
    """all 2^k choices of orientation for the k merged segments"""
    merged = ["_".join(c[0] for c in chain) for chain, cyc in cs]
    for flips in itertools.product([False, True], repeat=len(merged)):
        ren = {}
        segs = dict(new_segs)
        for m, fl in zip(merged, flips):
            if fl:
                rname = "_".join(reversed(m.split("_")))
                ren[m] = rname
                sq = segs.pop(m)
                segs[rname] = sq if sq == "*" else oracle.rc(sq)
        def mp(e):
            if e[0] in ren:
                return (ren[e[0]], "L" if e[1] == "R" else "R")
            return e
        links = Counter()
        for (ends, cg), n in new_links.items():
            links[(frozenset(mp(e) for e in ends), cg)] += n
        yield segs, links


def strip_cigar(links):
    c = Counter()
    for (ends, cg), n in links.items():
        c[ends] += n
    return c


def check(case):
    lines = case[0]
    vlevel = case[1] if len(case) > 1 else 1
    fails = []
    def fail(sig, what):
        fails.append(dict(signature="C14:" + sig, what=what, case=dict(lines=lines, vlevel=vlevel),
                          reproducer="import gfapy\ng = gfapy.Gfa(%r, vlevel=%d)\nprint([[str(x) for x in p] for p in g.linear_paths()])\ng.merge_linear_paths()\nprint(g)" % (lines, vlevel)))
    fs = [l.split("\t") for l in lines]
    segs = [f[1] for f in fs if f[0] == "S"]
    seqs = {f[1]: f[2] for f in fs if f[0] == "S"}
    links = [f for f in fs if f[0] == "L"]
    try:
        g = gfapy.Gfa(lines, vlevel=vlevel)
        want = sorted(canon_chain(c, cyc) for c, cyc in chains(segs, links))
        got_paths = g.linear_paths()
        got = []
        for p in got_paths:
            names = [se.name for se in p]
            cyc = ("cycle", None)
            # a cycle is reported by gfapy as an open path; classify with the oracle's knowledge
            k = [w for w in want if set(w[1]) == set(names)]
            got.append(canon_chain([(n, None) for n in names], bool(k and k[0][0] == "cycle")))
        if sorted(got) != want:
            fail("linear-paths-differ", "want %s got %s" % (want, sorted(got)))
            return dict(key=tuple(lines), nontrivial=True, failures=fails)
        comps_before = oracle.components("\n".join(lines), "gfapy" and "gfa1")
        hair = any(len(set(ends_of_link(f))) == 1 for f in links)
        try:
            g.merge_linear_paths()
        except gfapy.Error as e:
            fail("merge-raises-%s%s" % (type(e).__name__, ":hairpin-in-graph" if hair else ""), harness.short(e, 200))
            return dict(key=tuple(lines), nontrivial=True, failures=fails)
        new_segs, new_links, cs = merged_model(segs, seqs, links)
        gs, gl = graph_of(g)
        ok = any(cyc for _, cyc in cs)       # the break point of a merged cycle is not pinned: only the generic checks below apply
        for vs, vl in ([] if ok else variants(new_segs, new_links, cs)):
            if vs == gs and strip_cigar(vl) == strip_cigar(gl):
                ok = True
                break
        if not ok:
            vs, vl = next(variants(new_segs, new_links, cs))
            if set(vs) != set(gs) and not any(set(v[0]) == set(gs) for v in variants(new_segs, new_links, cs)):
                fail("merged-segment-names-differ", "want %s got %s" % (sorted(vs), sorted(gs)))
            elif not any(v[0] == gs for v in variants(new_segs, new_links, cs)):
                fail("merged-sequence-differs", "want %s got %s" % (vs, gs))
            else:
                fail("outward-links-differ%s" % (":hairpin-in-graph" if hair else ""), "want %s got %s" % (sorted(map(str, strip_cigar(vl).items())), sorted(map(str, strip_cigar(gl).items()))))
        for s in g.segments:
            if not gfapy.is_placeholder(s.sequence) and s.LN is not None and s.LN != len(s.sequence):
                fail("length-disagrees-with-sequence", "%s LN %s" % (s.name, s.LN))
        w = state.wf_errors(g)
        if w:
            fail("wf:%s" % w[0][0], w[0][1])
        odd = [str(l) for l in g.lines if l.vlevel != vlevel]
        if odd:
            fail("line-at-another-validation-level-after-merge", "level %d graph: %s" % (vlevel, odd[:2]))
        comps_after = sorted(sorted(x.name for x in c) for c in g.connected_components())
        if len(comps_after) != len(comps_before):
            fail("components-not-preserved", "%s -> %s" % (comps_before, comps_after))
        # the same graph as GFA2 (every segment has a length): merging there gives a valid GFA2 graph which, read as GFA1, is the merged GFA1 graph
        if all(sq != "*" or any(t.startswith("LN:") for t in f[3:]) for f in fs if f[0] == "S" for sq in [f[2]]) and not any(f[0] == "P" for f in fs) \
                and not any(f[0] == "L" and f[5] == "6M" for f in fs):      # (an overlap covering a whole segment is a containment in GFA2: another graph)
            try:
                g2 = gfapy.Gfa(lines, vlevel=1).to_gfa2()
            except gfapy.Error:
                g2 = None                                          # no GFA2 form (unspecified overlaps, '=' operations): subject of C06
            try:
                if g2 is None:
                    raise StopIteration
                t2_before = str(g2)
                g2.merge_linear_paths()
                t2 = str(g2)
                # the same GFA2 graph with every alignment left out ('*'): the positions of an edge still say how long the overlap is, the merge is the same
                def no_alignment(text):
                    return ["\t".join(f[:8] + ["*"] + f[9:]) if f[0] == "E" else "\t".join(f) for f in (x.split("\t") for x in text.split("\n") if x)]
                g2s = gfapy.Gfa("\n".join(no_alignment(t2_before)), vlevel=3)          # (same lines in the same order)
                g2s.merge_linear_paths()
                if sorted(no_alignment(str(g2s))) != sorted(no_alignment(t2)):
                    fail("gfa2-merge-without-alignments-differs", "with CIGARs: %s; with '*': %s" % (no_alignment(t2), no_alignment(str(g2s))))
                back = gfapy.Gfa(t2, vlevel=3).to_gfa1()            # level 3: every position of every edge is checked against its segment
                bs, bl = graph_of(back)
                if (bs, strip_cigar(bl)) != (gs, strip_cigar(gl)):
                    fail("gfa2-merge-differs-from-gfa1-merge", "GFA2 then GFA1: %s %s; GFA1: %s %s" % (bs, sorted(map(str, strip_cigar(bl).items())), gs, sorted(map(str, strip_cigar(gl).items()))))
            except StopIteration:
                pass
            except gfapy.Error as e:
                fail("gfa2-merge-raises-%s" % type(e).__name__, harness.short(e, 200))
        t1 = str(g)
        if g.linear_paths():
            fail("not-idempotent:linear-paths-remain", str([[str(x) for x in p] for p in g.linear_paths()]))
        g.merge_linear_paths()
        if str(g) != t1:
            fail("not-idempotent:second-merge-changes", "")
    except gfapy.Error as e:
        fail("raises-%s" % type(e).__name__, harness.short(e, 200))
    except Exception as e:
        import traceback
        fail("foreign-%s" % type(e).__name__, harness.short(traceback.format_exc()[-400:], 400))
    return dict(key=tuple(lines), nontrivial=bool(links), failures=fails, sample=dict(lines=lines))


def cases(tier, seed):
    rng = random.Random(seed)
    out = []
    n = 2500 if tier == "quick" else 25000
    names = sorted(SEQ)
    for _ in range(n):
        k = rng.randrange(2, 6)
        segs = names[:k]
        with_seq = rng.random() < 0.7
        table = SEQ_IUPAC if rng.random() < 0.4 else SEQ
        lines = []
        for s in segs:
            sq = table[s] if with_seq and rng.random() < 0.85 else "*"     # also chains in which only some sequences are known
            lines.append("S\t%s\t%s%s" % (s, sq, "\tLN:i:6" if sq == "*" and rng.random() < 0.5 else ""))
        m = rng.randrange(1, 6)
        seen = set()
        for _ in range(m):
            a, b = rng.choice(segs), rng.choice(segs)
            oa, ob = rng.choice("+-"), rng.choice("+-")
            cg = rng.choice(["*", "2M", "3M", "1M", "2=", "6M"]) if with_seq else rng.choice(["*", "2M"])      # 6M: the overlap covers a whole segment (it adds nothing to the spelled sequence)
            key = tuple(oracle.link_canon([a, oa, b, ob, "*"])[:4])
            if key in seen:
                continue
            seen.add(key)
            lines.append("L\t%s\t%s\t%s\t%s\t%s" % (a, oa, b, ob, cg))
        # a path over one of the links, in the direction of the link or backwards, with '*' or the overlap of the link, arriving before or
        # after the lines it mentions (the link it asks for is created as a placeholder and must be replaced by the stored one, not kept)
        lk = [l.split("\t") for l in lines if l[0] == "L"]
        if lk and rng.random() < 0.35:
            f = rng.choice(lk)
            inv = {"+": "-", "-": "+"}
            step = (f[1] + f[2], f[3] + f[4]) if rng.random() < 0.5 else (f[3] + inv[f[4]], f[1] + inv[f[2]])
            pl = "P\tpp\t%s,%s\t%s" % (step[0], step[1], rng.choice(["*", f[5] if f[5] != "*" else "2M"]))
            lines.insert(rng.randrange(0, len(lines) + 1), pl)
        if rng.random() < 0.25:
            rng.shuffle(lines)
        out.append((lines, rng.choice([1, 1, 2, 3])))
    return out


if __name__ == "__main__":
    tier, seed = harness.args()
    cs = cases(tier, seed)
    res = harness.run(cs, check,
                      rule="seeded GFA1 graphs: 2-5 segments (with 6-base sequences or '*'), 1-5 links with random orientations (self-links, hairpins, branching, cycles), overlaps '*' or match-only, in a third of the graphs a path over one link (either direction, '*' or the link's overlap) inserted at a random position, a quarter in shuffled line order, at validation level 1, 2 or 3; oracle = reference "
                           "implementation on the text: end degrees, maximal chains (compared up to reversal / rotation of a cycle), spelled sequence with overlap trimming, merged name, outward links re-attached to "
                           "the merged segment's ends (compared up to reversal of each merged segment), components, WF, idempotence; when every segment has a length, the graph converted to GFA2 is merged there, re-read at validation level 3 and converted back: same segments and links as the GFA1 merge",
                      bound="<=5 segments, <=5 links", exhaustive=False)
    harness.emit(res)
