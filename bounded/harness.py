"""Bounded-tier harness: runs `check(case)` over an enumerated case space on all cores and aggregates the counts the
evidence schema asks for.  Everything here is labelled bounded; nothing is counted as proved."""
import json, multiprocessing as mp, os, sys, time, traceback, hashlib, random

_CHECK = None


def _run(case):
    try:
        r = _CHECK(case)
        return r
    except BaseException as e:
        return dict(key=repr(case)[:200], nontrivial=False, failures=[], crash="%s: %s\n%s" % (type(e).__name__, e, traceback.format_exc()[-1500:]))


def run(cases, check, rule, bound, exhaustive, jobs=None, time_budget=None, checks=None):
    """cases: list of picklable case descriptors; check(case) -> dict(key, nontrivial, failures:[dict(signature, what, reproducer)])"""
    global _CHECK
    _CHECK = check
    jobs = jobs or min(16, os.cpu_count() or 4)
    t0 = time.time()
    cases = list(cases)
    ev = 0
    distinct = set()
    failures = {}
    samples = []
    crashes = []
    truncated = False
    ctx = mp.get_context("fork")
    with ctx.Pool(jobs) as pool:
        for r in pool.imap_unordered(_run, cases, chunksize=max(1, min(64, len(cases) // (jobs * 8) or 1))):
            ev += 1
            if r.get("crash"):
                crashes.append(r["crash"])
                continue
            if r.get("nontrivial"):
                distinct.add(repr(r["key"]))
            if len(samples) < 3 and r.get("nontrivial") and r.get("sample") is not None:
                samples.append(r["sample"])
            for f in r.get("failures", []):
                k = f["signature"]
                if k not in failures:
                    failures[k] = dict(f, count=1)
                else:
                    failures[k]["count"] += 1
            if time_budget and time.time() - t0 > time_budget:
                truncated = True
                pool.terminate()
                break
    out = dict(evaluations=ev, distinct_nontrivial=len(distinct), rule=rule, bound=bound, exhaustive=bool(exhaustive and not truncated),
               samples=samples, failures=list(failures.values()), checks=checks or {}, truncated=truncated)
    if crashes:
        out["error"] = "driver crashed on %d cases; first: %s" % (len(crashes), crashes[0])
    return out


def emit(res):
    sys.stdout.write("\n" + json.dumps({"bounded": res}, default=str) + "\n")


def args():
    tier = sys.argv[1] if len(sys.argv) > 1 else os.environ.get("VERIF_TIER", "quick")
    seed = int(sys.argv[2]) if len(sys.argv) > 2 else int(os.environ.get("VERIF_SEED", "0"))
    return tier, seed


def short(s, n=300):
    s = str(s)
    return s if len(s) <= n else s[:n] + "..."


def reproducer(setup, expr):
    return "import gfapy\n%s\nprint(%s)" % (setup, expr)
