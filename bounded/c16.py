"""C16 bounded stand-in: connected components = classes of 'joined by a chain of dovetails' (union-find oracle on the text),
segment_connected_component = class of its argument, topology counters = counts over the records of the document."""
import itertools, random
from bounded import harness, oracle
import gfapy

SEGS = ["A", "B", "C", "D"]
COPY = "g2 = gfapy.Gfa(version=g.version)\nfor l in g.lines: g2.add_line(l.clone())\ng = g2\n"


def gfa1_pool():
    pool = []
    for a, b in itertools.combinations_with_replacement(SEGS, 2):
        for oa in "+-":
            for ob in "+-":
                pool.append("L\t%s\t%s\t%s\t%s\t*" % (a, oa, b, ob))
    for a, b in itertools.permutations(SEGS[:3], 2):
        pool.append("C\t%s\t+\t%s\t-\t0\t*" % (a, b))
    return pool


def gfa2_pool():
    pool = []
    kinds = {"pfx": ("0", "2"), "sfx": ("6", "8$"), "whole": ("0", "8$"), "inner": ("2", "5")}
    for a, b in itertools.combinations_with_replacement(SEGS[:3], 2):
        for oa in "+-":
            for ob in "+-":
                for k1 in kinds:
                    for k2 in kinds:
                        pool.append("E\t*\t%s%s\t%s%s\t%s\t%s\t%s\t%s\t*" % (a, oa, b, ob, kinds[k1][0], kinds[k1][1], kinds[k2][0], kinds[k2][1]))
    return pool


def check(case):
    version, lines, rm, via = case
    fails = []
    text = "\n".join(lines)
    def fail(sig, what):
        fails.append(dict(signature="C16:" + sig, what=what, case=dict(version=version, lines=lines, rm=rm, via=via),
                          reproducer="import gfapy\ng = gfapy.Gfa(%r)\n%s%sprint(sorted(sorted(s.name for s in c) for c in g.connected_components()), g.n_dovetails, g.n_containments, g.n_internals, g.n_dead_ends)" % (lines, ("# remove the line %r\n" % (rm[1],)) if isinstance(rm, tuple) else ("g.rm(%r)\n" % rm) if rm else "", COPY if via == "copy" else "")))
    try:
        g = gfapy.Gfa(lines, vlevel=1)
        tm = oracle.TextModel(text, version)
        if isinstance(rm, tuple):
            # removal of an edge record (by its written form: the first line written like that)
            from bounded import histories, state
            state.apply_step(g, ("rm_line", rm[1]))
            histories.apply_model(tm, ("rm_line", rm[1]), set())
        elif rm:
            g.rm(rm); tm.rm(rm)
        # a refused line (an edge from a segment to an identifier carried by an edge / path: not a segment) is not part of the document
        segs = [tm.name_of(r) for r in tm.recs if r.rt == "S"]
        named = [tm.name_of(r) for r in tm.recs if r.rt in ("E", "L", "C", "P", "O", "U", "G") and tm.name_of(r)]
        if segs and named and (len(lines) + len(rm if isinstance(rm, str) else "")) % 2 == 0:
            ref = "L\t%s\t+\t%s\t+\t*" % (segs[0], named[0]) if version == "gfa1" else "E\t*\t%s+\t%s+\t6\t8$\t0\t2\t*" % (segs[0], named[0])
            try:
                g.add_line(ref)
                tm.add(oracle.tokenize(ref, version))
            except gfapy.Error:
                pass
        if via == "copy":
            # the same document rebuilt line by line from detached clones: the counts are those of the copy, the source keeps its own
            src = g
            before = (sorted(sorted(s.name for s in c) for c in src.connected_components()), src.n_dovetails, src.n_containments, src.n_internals, src.n_dead_ends, str(src))
            g = gfapy.Gfa(version=version, vlevel=1)
            for l in src.lines:
                g.add_line(l.clone())
            after = (sorted(sorted(s.name for s in c) for c in src.connected_components()), src.n_dovetails, src.n_containments, src.n_internals, src.n_dead_ends, str(src))
            if before != after:
                fail("copying-changes-the-source", "before %s after %s" % (before[:5], after[:5]))
        ttext = tm.text()
        want = oracle.components(ttext, version)
        got = sorted(sorted(s.name for s in c) for c in g.connected_components())
        if got != want:
            fail("components-differ", "want %s got %s" % (want, got))
        allsegs = list(g.segments)
        for s in (allsegs if len(allsegs) <= 50 else [allsegs[0], allsegs[len(allsegs) // 2], allsegs[-1]]):      # (each query walks the whole component)
            cls = sorted(x.name for x in g.segment_connected_component(s))
            w = [c for c in want if s.name in c][0]
            if cls != w:
                fail("segment-component-differs", "%s: want %s got %s" % (s.name, w, cls)); break
        v, recs = oracle.parse_text(ttext, version)
        dov = oracle.dovetail_ends(ttext, version)
        if version == "gfa1":
            n_d, n_c, n_i = sum(1 for r in recs if r.rt == "L"), sum(1 for r in recs if r.rt == "C"), 0
        else:
            cl = [oracle.e_class(r.pos)[0] for r in recs if r.rt == "E"]
            n_d, n_c, n_i = cl.count("dovetail"), cl.count("containment"), cl.count("internal")
        ends = {(s.pos[0], e) for s in recs if s.rt == "S" for e in "LR"}
        used = {x for pair in dov for x in pair}
        n_dead = len(ends - used)
        for name, w, gt in (("n_dovetails", n_d, g.n_dovetails), ("n_containments", n_c, g.n_containments), ("n_internals", n_i, g.n_internals), ("n_dead_ends", n_dead, g.n_dead_ends)):
            if w != gt:
                fail("%s-differs" % name, "want %d got %d" % (w, gt))
    except Exception as e:
        fail("raises-%s" % type(e).__name__, harness.short(e, 200))
    return dict(key=(version, tuple(lines), rm, via), nontrivial=len(lines) > 2, failures=fails, sample=dict(lines=lines, rm=rm))


def cases(tier, seed):
    rng = random.Random(seed)
    out = []
    n = 1500 if tier == "quick" else 12000
    for version, pool, seg in (("gfa1", gfa1_pool(), lambda s: "S\t%s\t*" % s), ("gfa2", gfa2_pool(), lambda s: "S\t%s\t8\t*" % s)):
        for _ in range(n):
            k = rng.randrange(0, 6)
            nseg = rng.randrange(1, 5)
            segs = SEGS[:nseg]
            edges = [e for e in rng.sample(pool, min(k * 3, len(pool))) if all(x.rstrip("+-") in segs for x in ([e.split("\t")[1], e.split("\t")[3]] if version == "gfa1" else [e.split("\t")[2], e.split("\t")[3]]))][:k]
            # drop parallel links that gfapy refuses as duplicates (same ends, unspecified overlaps)
            seen = set(); keep = []
            for e in edges:
                f = e.split("\t")
                key = tuple(oracle.link_canon(f[1:6])[:4]) if version == "gfa1" and f[0] == "L" else tuple(f[:8])
                if key in seen:
                    continue
                seen.add(key); keep.append(e)
            # records without identifier may be given twice: two lines with equal fields (each one counts, each one goes with its segment)
            twins = [e for e in keep if (e.split("\t")[1] == "*" if version == "gfa2" else (e[0] == "C" and "ID:Z:" not in e))]
            if twins and rng.random() < 0.3:
                keep = keep + [rng.choice(twins)]
            lines = [seg(s) for s in segs] + keep
            if rng.random() < 0.5:
                lines.append("P\tpz\tA+\t*" if version == "gfa1" else "O\tpz\tA+")      # a named line that is not a segment (no effect on the topology)
            rm = rng.choice([None, None, rng.choice(segs)])
            if keep and rng.random() < 0.25:
                rm = ("line", rng.choice(keep))                      # an edge record is removed instead of a segment
            if rng.random() < 0.4:
                # the records arrive in another order (edges before their segments: the segments are placeholders first)
                named = [l for l in lines if l[0] in "PO"]
                rest = [l for l in lines if l[0] not in "PO"]
                rng.shuffle(rest)
                lines = rest + named
            out.append((version, lines, rm, rng.choice(["direct", "direct", "copy"])))
    # graphs much larger than the sampled ones: a chain and a ring of 1200 segments (deeper than the interpreter's recursion limit), two chains
    for version, seg, link in (("gfa1", lambda i: "S\ts%d\t*" % i, lambda i, j: "L\ts%d\t+\ts%d\t+\t*" % (i, j)),
                               ("gfa2", lambda i: "S\ts%d\t8\t*" % i, lambda i, j: "E\t*\ts%d+\ts%d+\t6\t8$\t0\t2\t*" % (i, j))):
        n_big = 1200
        chain = [seg(i) for i in range(n_big)] + [link(i, i + 1) for i in range(n_big - 1)]
        out.append((version, chain, None, "direct"))
        out.append((version, chain + [link(n_big - 1, 0)], "s7", "direct"))
        out.append((version, [l for l in chain if l != link(700, 701)], None, "direct"))
    return out


if __name__ == "__main__":
    tier, seed = harness.args()
    cs = cases(tier, seed)
    res = harness.run(cs, check,
                      rule="seeded random graphs: 1-4 segments, 0-5 edges from an orientation-complete pool (GFA1: L for every segment pair incl. self-links and hairpins, C; GFA2: E lines for every orientation pair x "
                           "interval kinds pfx/sfx/whole/inner on both sides; in 30% of the graphs one record without identifier is given twice), in 40% of the cases with the records in a random order (edges before their segments), optionally followed by rm of one segment or of one edge record, and in a third of the cases rebuilt line by line from clones (g2.add_line(l.clone())); oracle = union-find over the dovetail records of the (text-model) document and record counts. "
                           "distinct = distinct (document, removal)", bound="<=4 segments, <=5 edges, <=1 removal; plus 3 graphs of 1200 segments per version (chain, ring, two chains)", exhaustive=False)
    harness.emit(res)
