"""C06 bounded stand-in: GFA1 <-> GFA2 conversion preserves the graph and emits valid output."""
import itertools, random
from bounded import harness, oracle
import gfapy

LEN = {"A": 8, "B": 8, "C": 6}
SEG1 = {"A": "S\tA\t*\tLN:i:8", "B": "S\tB\tACGTACGT", "C": "S\tC\tACGTAC\tRC:i:7"}
CIG = ["3M", "1M1D2M", "2M1I1M", "1I3M", "2M2D", "8M", "6M", "4M2I"]


def pstr(v, last):
    return "%d%s" % (v, "$" if last else "")


def link_coords(fo, to, Lf, Lt, cg):
    """spec: + side overlaps with its suffix (from) / prefix (to); - side mirrored; `$` exactly at the segment's end"""
    ref, qry = oracle.cigar_len_ref(cg), oracle.cigar_len_qry(cg)
    if fo == "+":
        b1, e1 = (Lf - ref, False), (Lf, True)
    else:
        b1, e1 = (0, False), (ref, ref == Lf)
    if to == "+":
        b2, e2 = (0, False), (qry, qry == Lt)
    else:
        b2, e2 = (Lt - qry, False), (Lt, True)
    return [pstr(*b1), pstr(*e1), pstr(*b2), pstr(*e2)]


def cont_coords(pos, Lf, Lt, cg):
    ref = oracle.cigar_len_ref(cg)
    return [pstr(pos, False), pstr(pos + ref, pos + ref == Lf), "0", pstr(Lt, True)]


def check_e(case):
    """GFA2 -> GFA1 of one dovetail / containment E line whose sid1 is the GFA1 'to' segment or the contained one"""
    _, lines, expect = case
    fails = []
    def fail(sig, what):
        fails.append(dict(signature="C06:" + sig, what=what, case=dict(lines=lines),
                          reproducer="import gfapy\ng = gfapy.Gfa(%r, vlevel=1)\nprint(g.to_gfa1())" % (lines,)))
    try:
        g = gfapy.Gfa(lines, vlevel=1)
        g1 = g.to_gfa1()
        t1 = str(g1)
        gfapy.Gfa(t1, vlevel=3).validate()
        _, recs = oracle.parse_text(t1, "gfa1")
        got = [r for r in recs if r.rt in ("L", "C")]
        if len(got) != 1:
            fail("e-to-gfa1:edge-lost", t1)
        else:
            r = got[0]
            if [r.rt] + r.pos != expect:
                kind = "overlap" if ([r.rt] + r.pos)[:5] == expect[:5] else "ends"
                fail("e-to-gfa1:%s-differ" % kind, "want %s got %s" % (expect, [r.rt] + r.pos))
            # there and back: the E line comes back with the same intervals and alignment
            t2 = str(g1.to_gfa2())
            _, r2 = oracle.parse_text(t2, "gfa2")
            e0 = [l.split("\t") for l in lines if l.startswith("E")][0]
            e2 = [x for x in r2 if x.rt == "E"]
            def norm(f):      # (oriented segments with their intervals) as a set + alignment in sid1->sid2 reading
                return frozenset([(f[2], f[4], f[5]), (f[3], f[6], f[7])])
            if len(e2) != 1 or norm(["E"] + e2[0].pos) != norm(e0):
                fail("e-round-trip-intervals-differ", "%s -> %s" % (e0, [x.pos for x in e2]))
    except gfapy.Error as e:
        fail("e-to-gfa1:raises-%s" % type(e).__name__, harness.short(e, 200))
    except Exception as e:
        fail("e-to-gfa1:foreign-%s" % type(e).__name__, harness.short(e, 200))
    return dict(key=tuple(lines), nontrivial=True, failures=fails, sample=dict(lines=lines))


def check_any(case):
    return check_e(case) if case[0] == "E" else check_o(case) if case[0] == "O" else check(case)


def check_o(case):
    """GFA2 -> GFA1 of an ordered group over one dovetail E line: a path over the link the edge becomes, or no path at all"""
    _, lines, want = case            # want: ["A+,B+", "2M1D"] or None (the walk does not follow the link: no GFA1 path says the same)
    fails = []
    def fail(sig, what):
        fails.append(dict(signature="C06:" + sig, what=what, case=dict(lines=lines, want=want),
                          reproducer="import gfapy\ng = gfapy.Gfa(%r, vlevel=1)\nprint(g.to_gfa1())" % (lines,)))
    try:
        g = gfapy.Gfa(lines, vlevel=1)
        try:
            t1 = str(g.to_gfa1())
        except gfapy.Error as e:
            if want is not None:
                fail("o-to-gfa1:raises-%s" % type(e).__name__, harness.short(e, 200))
            return dict(key=tuple(lines), nontrivial=True, failures=fails, sample=dict(lines=lines, refused=True))
        p = [l.split("\t") for l in t1.split("\n") if l.startswith("P\t")]
        if "GFAPY_virtual_line" in t1:
            fail("o-to-gfa1:path-over-a-link-that-does-not-exist", t1)
        elif want is None and p:
            fail("o-to-gfa1:walk-against-the-link-converted", t1)
        elif want is not None and (len(p) != 1 or p[0][2:4] != want):
            fail("o-to-gfa1:path-differs", "want %s got %s" % (want, p))
        else:
            gfapy.Gfa(t1, vlevel=3).validate()
    except gfapy.Error as e:
        fail("o-to-gfa1:setup-or-reparse-raises-%s" % type(e).__name__, harness.short(e, 200))
    except Exception as e:
        fail("o-to-gfa1:foreign-%s" % type(e).__name__, harness.short(e, 200))
    return dict(key=tuple(lines), nontrivial=True, failures=fails, sample=dict(lines=lines))


def check(case):
    lines, = case
    fails = []
    text = "\n".join(lines)
    def fail(sig, what):
        fails.append(dict(signature="C06:" + sig, what=what, case=dict(lines=lines),
                          reproducer="import gfapy\ng = gfapy.Gfa(%r, vlevel=1)\ng2 = g.to_gfa2()\nprint(g2)\nprint(g2.to_gfa1())" % (lines,)))
    try:
        g = gfapy.Gfa(lines, vlevel=1)
        t_before = str(gfapy.Gfa(lines, vlevel=1))
        try:
            # line-by-line conversion with the paths FIRST (a path names the edges it uses: the names must be the ones the edges then carry)
            gl = gfapy.Gfa(lines, vlevel=1)
            order = [l for l in gl.lines if l.record_type == "P"] + [l for l in gl.lines if l.record_type != "P"]
            pieces = [x for l in order for x in [l.to_gfa2_s()] if x]
            try:
                gfapy.Gfa("\n".join(pieces), vlevel=1).validate()
            except gfapy.Error as e:
                fail("line-by-line-conversion-inconsistent:%s" % type(e).__name__, harness.short(e, 200) + " :: " + harness.short("\n".join(pieces), 300))
        except gfapy.Error as e:
            fail("line-by-line-to_gfa2-raises-%s" % type(e).__name__, harness.short(e, 200))
        try:
            g2 = g.to_gfa2()
            t2 = str(g2)
        except gfapy.Error as e:
            fail("to_gfa2-raises-%s" % type(e).__name__, harness.short(e, 200))
            return dict(key=tuple(lines), nontrivial=True, failures=fails)
        # validity of the converted document at the strictest level
        try:
            gv = gfapy.Gfa(t2, vlevel=3)
            gv.validate()
            for l in gv.lines:
                l.validate()
            if gv.version != "gfa2":
                fail("converted-version", str(gv.version))
        except gfapy.Error as e:
            fail("converted-document-invalid-%s" % type(e).__name__, harness.short(t2, 200) + " :: " + harness.short(e, 150))
            return dict(key=tuple(lines), nontrivial=True, failures=fails)
        v, recs = oracle.parse_text(t2, "gfa2")
        E = [r for r in recs if r.rt == "E"]
        S = {r.pos[0]: r for r in recs if r.rt == "S"}
        for name, L in LEN.items():
            if ("S\t%s\t" % name) in text:
                if name not in S or int(S[name].pos[1]) != L:
                    fail("segment-length", "%s -> %s" % (name, S.get(name)))
                src = [l for l in lines if l.startswith("S\t%s\t" % name)][0].split("\t")
                if S[name].pos[2] != src[2]:
                    fail("segment-sequence", "%s" % S[name])
                if name == "C" and S[name].tags.get("RC") != ("i", "7"):
                    fail("segment-tags-not-carried", str(S[name].tags))
        want_edges = []
        for l in lines:
            f = l.split("\t")
            if f[0] == "L":
                want_edges.append((f[1] + f[2], f[3] + f[4], link_coords(f[2], f[4], LEN[f[1]], LEN[f[3]], f[5]), f[5]))
            elif f[0] == "C":
                want_edges.append((f[1] + f[2], f[3] + f[4], cont_coords(int(f[5]), LEN[f[1]], LEN[f[3]], f[6]), f[6]))
        got_edges = sorted((r.pos[1], r.pos[2], r.pos[3:7], r.pos[7]) for r in E)
        if sorted(want_edges) != got_edges:
            miss = [w for w in want_edges if w not in got_edges]
            kind = "L" if any(l.startswith("L") for l in lines) and miss and any(w[3] in [x.split("\t")[5] for x in lines if x.startswith("L")] for w in miss) else "C"
            fail("edge-coordinates-differ", "want %s got %s" % (sorted(want_edges), got_edges))
        # paths
        for l in lines:
            f = l.split("\t")
            if f[0] == "P":
                O = [r for r in recs if r.rt == "O" and r.pos[0] == f[1]]
                if len(O) != 1:
                    fail("path-lost", f[1]); continue
                items = O[0].pos[1].split(" ")
                segs_visited = [i for i in items if i[:-1] in S]
                if segs_visited != f[2].split(","):
                    fail("path-segments-differ", "%s -> %s" % (f[2], items))
        # there and back
        try:
            g1 = g2.to_gfa1()
            t1 = str(g1)
            _, back = oracle.view(t1, "gfa1")
            _, orig = oracle.view(text, "gfa1")
            def strip(cnt):
                out = {}
                for k, n in cnt.items():
                    rt, pos, tags = k
                    tags = tuple(t for t in tags if t[0] not in ("ID", "LN"))
                    if rt == "S":
                        pos = (pos[0], pos[1])
                    out[(rt, pos, tags)] = out.get((rt, pos, tags), 0) + n
                return out
            # a link whose overlap covers a whole segment is, in GFA2, indistinguishable from a containment: not pinned
            full = any(l.split("\t")[0] == "L" and (oracle.cigar_len_ref(l.split("\t")[5]) == LEN[l.split("\t")[1]] or oracle.cigar_len_qry(l.split("\t")[5]) == LEN[l.split("\t")[3]]) for l in lines)
            if not full and strip(back) != strip(orig):
                fail("round-trip-differs", str(oracle.view_diff(orig, back))[:500])
        except gfapy.Error as e:
            fail("to_gfa1-raises-%s" % type(e).__name__, harness.short(e, 200))
    except gfapy.Error as e:
        fail("raises-%s" % type(e).__name__, harness.short(e, 200))
    except Exception as e:
        fail("foreign-%s" % type(e).__name__, harness.short(e, 200))
    return dict(key=tuple(lines), nontrivial=len(lines) > 2, failures=fails, sample=dict(lines=lines))


def cases(tier, seed):
    rng = random.Random(seed)
    out = []
    pairs = [("A", "B"), ("B", "C"), ("A", "A"), ("C", "A")]
    def fits(cg, a, b):
        return oracle.cigar_len_ref(cg) <= LEN[a] and oracle.cigar_len_qry(cg) <= LEN[b]
    # single edges: every orientation pair x cigar
    for a, b in pairs:
        for oa in "+-":
            for ob in "+-":
                for cg in CIG:
                    if fits(cg, a, b):
                        segs = [SEG1[s] for s in sorted({a, b})]
                        for named in (False, True):
                            out.append((segs + ["L\t%s\t%s\t%s\t%s\t%s%s" % (a, oa, b, ob, cg, "\tID:Z:e9" if named else "")],))
                        for pos in (0, 1, LEN[a] - oracle.cigar_len_ref(cg)):
                            if a != b and pos >= 0 and oracle.cigar_len_qry(cg) == LEN[b] or (a != b and pos >= 0 and cg in ("3M", "6M")):
                                out.append((segs + ["C\t%s\t%s\t%s\t%s\t%d\t%s" % (a, oa, b, ob, pos, cg)],))
    # GFA2-origin edges: sid1 is the GFA1 'to' segment (dovetail) or the contained segment
    S2 = {"A": "S\tA\t8\t*", "B": "S\tB\t8\t*", "C": "S\tC\t6\t*"}
    for cg in CIG[:5]:
        ref, qry = oracle.cigar_len_ref(cg), oracle.cigar_len_qry(cg)
        for o1 in "+-":
            for o2 in "+-":
                # dovetail with sid1 = to: oriented sid1 overlaps with its prefix, oriented sid2 with its suffix
                i1 = ("0", str(ref)) if o1 == "+" else (str(8 - ref), "8$")
                i2 = (str(8 - qry), "8$") if o2 == "+" else ("0", str(qry))
                e = "E\tx1\tA%s\tB%s\t%s\t%s\t%s\t%s\t%s" % (o1, o2, i1[0], i1[1], i2[0], i2[1], cg)
                out.append(("E", [S2["A"], S2["B"], e], ["L", "B", o2, "A", o1, oracle.cigar_complement(cg)]))
                # and the usual order for control
                j1 = (str(8 - ref), "8$") if o1 == "+" else ("0", str(ref))
                j2 = ("0", str(qry)) if o2 == "+" else (str(8 - qry), "8$")
                e = "E\tx2\tA%s\tB%s\t%s\t%s\t%s\t%s\t%s" % (o1, o2, j1[0], j1[1], j2[0], j2[1], cg)
                out.append(("E", [S2["A"], S2["B"], e], ["L", "A", o1, "B", o2, cg]))
                # ordered groups over that edge (either spelling): along the link, along its complement, and the two walks which go against it; with and without naming the edge
                inv = {"+": "-", "-": "+"}
                F, T = "B" + o2, "A" + o1                       # x1 is the link F -> T with the overlap complement(cg)
                lk = oracle.cigar_complement(cg)
                e1 = "E\tx1\tA%s\tB%s\t%s\t%s\t%s\t%s\t%s" % (o1, o2, i1[0], i1[1], i2[0], i2[1], cg)
                Fi, Ti = "B" + inv[o2], "A" + inv[o1]
                for items, want in (([F, T], [F + "," + T, lk]), ([Ti, Fi], [Ti + "," + Fi, oracle.cigar_complement(lk)]), ([T, F], None), ([Fi, Ti], None)):
                    out.append(("O", [S2["A"], S2["B"], e1, "O\tp\t" + " ".join(items)], want))
                    # the sign of a named edge: + when it joins the two oriented segments as written, - when it joins their inversions
                    sign = "+" if set(items) == {"A" + o1, "B" + o2} else "-"
                    out.append(("O", [S2["A"], S2["B"], e1, "O\tp\t%s x1%s %s" % (items[0], sign, items[1])], want))
        # containment with sid1 contained: C (6) whole inside A (8) at offset 1; alignment reference = C (sid1)
    for cg, off in (("6M", 1), ("3M1D3M", 0), ("2M1I3M", 2)):
        ref, qry = oracle.cigar_len_ref(cg), oracle.cigar_len_qry(cg)
        if ref != 6:
            continue
        for o1 in "+-":
            for o2 in "+-":
                e = "E\tx3\tC%s\tA%s\t0\t6$\t%d\t%d\t%s" % (o1, o2, off, off + qry, cg)
                out.append(("E", [S2["A"], S2["C"], e], ["C", "A", o2, "C", o1, str(off), oracle.cigar_complement(cg)]))
    # paths over chains
    n = 150 if tier == "quick" else 1500
    for _ in range(n):
        oa, ob, oc = (rng.choice("+-") for _ in range(3))
        c1, c2 = rng.choice(CIG[:5]), rng.choice(CIG[:5])
        lines = [SEG1["A"], SEG1["B"], SEG1["C"], "L\tA\t%s\tB\t%s\t%s" % (oa, ob, c1), "L\tB\t%s\tC\t%s\t%s" % (ob, oc, c2)]
        k = rng.randrange(4)
        if k == 0:
            lines.append("P\tp\tA%s,B%s,C%s\t%s,%s" % (oa, ob, oc, c1, c2))
        elif k == 1:
            lines.append("P\tp\tC%s,B%s,A%s\t%s,%s" % (oracle.inv(oc), oracle.inv(ob), oracle.inv(oa), oracle.cigar_complement(c2), oracle.cigar_complement(c1)))
        elif k == 2:
            lines.append("P\tp\tA%s,B%s\t%s" % (oa, ob, c1))
        else:
            lines.append("P\tp\tB%s\t*" % ob)
        out.append((lines,))
    return out


if __name__ == "__main__":
    tier, seed = harness.args()
    cs = cases(tier, seed)
    res = harness.run(cs, check_any,
                      rule="GFA1 graphs with known segment lengths: every orientation pair x (A-B, B-C, self A-A, C-A) x 8 CIGARs (asymmetric, full-length) as named/unnamed link, containments at offset 0/1/flush right, "
                           "and seeded chains with a path (forward, reverse over complements, two-segment, single-segment); whole-graph to_gfa2(): converted text valid at vlevel 3, segments keep length/sequence/tags, "
                           "every E line has the oracle coordinates ($ exactly at a segment's end) and the same alignment, paths visit the same oriented segments; to_gfa1() of the result equals the original "
                           "(modulo assigned IDs / LN tags). GFA2-origin: single E lines whose sid1 is the 'to' / contained segment, and an ordered group over each such dovetail - walked along the link, along its complement, "
                           "and against it (no GFA1 path says that: refused, never a path over a link that does not exist), the edge named or implied", bound="3 segments, <=2 edges, <=1 path", exhaustive=False)
    harness.emit(res)
