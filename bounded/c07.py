"""C07 bounded stand-in: only gfapy.Error escapes.  Short strings as lines/documents, single-point mutations of the
catalogue documents at every validation level, and strings handed to the public API."""
import itertools, random, sys, traceback
from bounded import harness, universe
from bounded.c04 import mutations
import gfapy

ALPHABET = "SLHE#\t+*1:Ai, $"


VALUE_CTORS = {
    "gfapy.OrientedLine": lambda t: gfapy.OrientedLine(t),
    "gfapy.SegmentEnd": lambda t: gfapy.SegmentEnd(t),
    "gfapy.Alignment": lambda t: gfapy.Alignment(t),
    "gfapy.Alignment(gfa1)": lambda t: gfapy.Alignment(t, version="gfa1"),
    "gfapy.LastPos": lambda t: gfapy.LastPos(t),
    "gfapy.ByteArray": lambda t: gfapy.ByteArray(t),
    "gfapy.NumericArray.from_string": lambda t: gfapy.NumericArray.from_string(t),
    "gfapy.CIGAR._from_string": lambda t: gfapy.CIGAR._from_string(t),
    "gfapy.Trace._from_string": lambda t: gfapy.Trace._from_string(t),
    "gfapy.Placeholder-or-sequence": lambda t: gfapy.sequence.rc(t),
    "gfapy.CIGAR.Operation": lambda t: gfapy.CIGAR.Operation(t[:-1], t[-1:]),
}
VALUE_ALPHABET = "1M+-*,$Aa 0c"


def where(e):
    tb = traceback.extract_tb(e.__traceback__)
    for fr in reversed(tb):
        if "/gfapy/" in fr.filename:
            return "%s:%s" % (fr.filename.split("/gfapy/")[-1], fr.name)
    return "?"


def attempt(label, fn, fails, case):
    try:
        fn()
    except gfapy.Error:
        pass
    except RecursionError as e:
        fails.append(dict(signature="C07:%s:RecursionError" % label, what="RecursionError", case=case, reproducer=case.get("repro")))
    except Exception as e:
        fails.append(dict(signature="C07:%s:%s:%s" % (label, type(e).__name__, where(e)), what="%s: %s" % (type(e).__name__, harness.short(e, 200)), case=case,
                          reproducer=case.get("repro")))


def check(case):
    kind = case[0]
    fails = []
    if kind == "line":
        _, s, vlevel, version = case
        c = dict(line=s, vlevel=vlevel, version=version, repro="import gfapy\ngfapy.Line(%r, vlevel=%d, version=%r)\ng = gfapy.Gfa(vlevel=%d); g.add_line(%r); str(g); g.validate()" % (s, vlevel, version, vlevel, s))
        def f1():
            l = gfapy.Line(s, vlevel=vlevel, version=version)
            str(l); l.validate()
        def f2():
            g = gfapy.Gfa(vlevel=vlevel, version=version)
            g.add_line(s)
            g.process_line_queue() if version is None else None
            str(g); g.validate()
            for l in g.lines:
                for fn in l.positional_fieldnames + l.tagnames:
                    l.get(fn)
        attempt("Line", f1, fails, c)
        attempt("add_line", f2, fails, c)
        return dict(key=("line", s, version), nontrivial=len(s) > 0, failures=fails, sample=dict(line=s, vlevel=vlevel))
    if kind == "doc":
        _, lines, vlevel = case
        text = "\n".join(lines)
        c = dict(text=text, vlevel=vlevel, repro="import gfapy\ng = gfapy.Gfa(%r, vlevel=%d)\nstr(g); g.validate()" % (text, vlevel))
        def f():
            g = gfapy.Gfa(text, vlevel=vlevel)
            str(g); g.validate()
            for l in g.lines:
                for fn in l.positional_fieldnames + l.tagnames:
                    l.get(fn)
                l.validate()
        attempt("Gfa", f, fails, c)
        return dict(key=("doc", text), nontrivial=True, failures=fails, sample=dict(text=text, vlevel=vlevel))
    if kind == "file":
        _, data, vlevel = case[:3]
        progress = len(case) > 3 and case[3]
        c = dict(data=repr(data), vlevel=vlevel, progress=progress, repro="import gfapy\nopen('/tmp/x.gfa','wb').write(%r)\ngfapy.Gfa.from_file('/tmp/x.gfa', vlevel=%d)" % (data, vlevel))
        def f():
            import tempfile, os
            fd, pth = tempfile.mkstemp(suffix=".gfa")
            try:
                os.write(fd, data); os.close(fd)
                if progress:
                    import io, contextlib
                    g = gfapy.Gfa(vlevel=vlevel)
                    with contextlib.redirect_stderr(io.StringIO()):
                        g.enable_progress_logging()
                        g.read_file(pth)
                else:
                    g = gfapy.Gfa.from_file(pth, vlevel=vlevel)
                str(g)
            finally:
                os.unlink(pth)
        attempt("from_file", f, fails, c)
        return dict(key=("file", data, vlevel, progress), nontrivial=True, failures=fails, sample=dict(data=repr(data)))
    if kind == "groups":
        _, lines, vlevel = case
        c = dict(lines=lines, vlevel=vlevel, repro="import gfapy\ng = gfapy.Gfa(%r, vlevel=%d)\nfor l in g.lines: [getattr(l, q, None) for q in ('captured_path', 'induced_set')]\ng.to_gfa1()" % (lines, vlevel))
        def f():
            g = gfapy.Gfa(lines, vlevel=vlevel)
            for l in g.lines:
                for q in ("captured_path", "captured_segments", "induced_set", "induced_segments_set", "induced_edges_set"):
                    if hasattr(type(l), q):
                        try:
                            getattr(l, q)
                        except gfapy.Error:
                            pass
            str(g)
            try:
                g.validate()
            except gfapy.Error:
                pass
            g.to_gfa1()
        attempt("groups", f, fails, c)
        return dict(key=("groups", tuple(lines), vlevel), nontrivial=True, failures=fails, sample=dict(lines=lines))
    if kind == "deepgroups":
        # groups nested deeper than the interpreter's recursion limit
        _, gk, n, vlevel, op = case
        o = "+" if gk == "O" else ""
        lines = ["S\ta\t8\t*", "%s\tp0\ta%s" % (gk, o)] + ["%s\tp%d\tp%d%s" % (gk, i + 1, i, o) for i in range(n)]
        c = dict(group=gk, depth=n, vlevel=vlevel, op=op, repro="import gfapy\nn = %d\ng = gfapy.Gfa(['S\\ta\\t8\\t*', '%s\\tp0\\ta%s'] + ['%s\\tp%%d\\tp%%d%s' %% (i + 1, i) for i in range(n)], vlevel=%d)\n# then: %s" % (n, gk, o, gk, o, vlevel, op))
        def f():
            g = gfapy.Gfa(lines, vlevel=vlevel)
            top = g.line("p%d" % n)
            if op == "resolve":
                top.captured_path if gk == "O" else top.induced_set
            elif op == "write":
                str(g)
            elif op == "rm":
                g.rm("a")
            elif op == "validate":
                g.validate()
        try:
            f()
        except gfapy.Error:
            pass
        except RecursionError:
            fails.append(dict(signature="C07:deep-nesting:%s:%s:RecursionError" % (gk, op), what="%d nested %s groups, vlevel %d, %s: RecursionError" % (n, gk, vlevel, op), case=c, reproducer=c["repro"]))
        except Exception as e:
            fails.append(dict(signature="C07:deep-nesting:%s:%s:%s" % (gk, op, type(e).__name__), what=harness.short(e, 200), case=c, reproducer=c["repro"]))
        return dict(key=case, nontrivial=True, failures=fails, sample=c)
    if kind == "sethuge":
        # strings of thousands of digits (alone and dressed as CIGAR, trace, array, JSON, position, float) assigned to every field of a line
        _, text, vlevel = case
        big = "1" * 5000
        vals = [big, big + "M", big + ",1", "I," + big, "[" + big + "]", big + "$", "a" + big, "-" + big, big + ".5", "1e" + big, big + "M" + big + "I"]
        l0 = gfapy.Line(text, vlevel=vlevel)
        for f in l0.positional_fieldnames + l0.tagnames:
            for v in vals:
                c = dict(line=text, field=f, value=v[:4] + "..." + v[-4:], vlevel=vlevel,
                         repro="import gfapy\nl = gfapy.Line(%r, vlevel=%d)\nl.set(%r, %s)\nl.get(%r); str(l); l.validate()" % (text, vlevel, f, "'1' * 5000 + " + repr(v[5000:]) if v.startswith(big) else repr(v[:-5000]) + " + '1' * 5000" if v.endswith(big) else repr(v), f))
                l = gfapy.Line(text, vlevel=vlevel)
                n0 = len(fails)
                attempt("set", lambda: l.set(f, v), fails, c)
                if len(fails) == n0:
                    attempt("get", lambda: l.get(f), fails, c)
                    attempt("str", lambda: str(l), fails, c)
                    attempt("validate", lambda: l.validate(), fails, c)
                    attempt("validate_field", lambda: l.validate_field(f), fails, c)
        return dict(key=case, nontrivial=True, failures=fails, sample=dict(line=text, vlevel=vlevel))
    if kind == "value":
        _, ctor, text = case
        c = dict(constructor=ctor, text=text, repro="import gfapy\n%s(%r)" % (ctor, text))
        def f():
            v = VALUE_CTORS[ctor](text)
            str(v); repr(v)
            for q in ("validate", "complement", "invert", "name", "line", "orient", "length_on_reference", "is_last", "value"):
                if hasattr(v, q):
                    try:
                        a = getattr(v, q)
                        a() if callable(a) else None
                    except gfapy.Error:
                        pass
        attempt("value-" + ctor, f, fails, c)
        return dict(key=case, nontrivial=len(text) > 0, failures=fails, sample=dict(constructor=ctor, text=text))
    if kind == "api":
        _, version, ids, op, arg, vlevel = case
        lines = universe.lines_of(version, ids)
        c = dict(lines=lines, op=op, arg=arg, vlevel=vlevel, repro="import gfapy\ng = gfapy.Gfa(%r, vlevel=%d)\n# %s %r" % (lines, vlevel, op, arg))
        def f():
            g = gfapy.Gfa(lines, vlevel=vlevel)
            if op == "line":
                g.line(arg); g.try_get_line(arg)
            elif op == "segment":
                g.segment(arg); g.try_get_segment(arg)
            elif op == "rm":
                g.rm(arg)
            elif op == "set":
                name, field, value = arg
                l = g.line(name)
                if l is None:
                    return
                l.set(field, value); str(l); l.validate(); str(g)
            elif op == "get":
                name, field = arg
                if g.line(name) is None:
                    return
                g.line(name).get(field); g.line(name).try_get(field)
            elif op == "group-edit":
                name, method, item, connected = arg
                l = g.line(name)
                if l is None or l.record_type not in "OU" or not hasattr(l, method):
                    return
                if not connected:
                    l = l.clone()
                getattr(l, method)(*([item] if item is not None else []))
                for q in ("induced_set", "induced_segments_set", "induced_edges_set", "captured_path", "captured_segments", "captured_edges"):
                    if hasattr(type(l), q):
                        try:
                            getattr(l, q)             # (an unconnected group cannot be resolved: a gfapy error says so)
                        except gfapy.Error:
                            pass
                str(l); str(g); g.validate()
            elif op == "field-queries":
                name, field = arg
                l = g.line(name)
                if l is None:
                    return
                for q in (l.get_datatype, l.validate_field, l.field_to_s, l.try_get, l.delete):
                    try:
                        q(field)
                    except gfapy.Error:
                        pass
                str(g)
            elif op == "rename":
                name, new = arg
                if g.line(name) is None:
                    return
                g.line(name).name = new
                str(g); g.validate()
            elif op == "refused-then":
                # a call that is refused (gfapy error), then further calls on the same objects: still only gfapy errors
                name, new, then = arg
                l = g.line(name)
                if l is None:
                    return
                try:
                    l.name = new
                except gfapy.Error:
                    pass
                if then == "rename":
                    l.name = "Fresh9"
                elif then == "disconnect":
                    l.disconnect()
                elif then == "rm":
                    g.rm(l)
                elif then == "set":
                    l.set("zz", 1)
                str(g)
        attempt("api-" + op, f, fails, c)
        return dict(key=("api", version, tuple(ids), op, repr(arg)), nontrivial=True, failures=fails, sample=dict(op=op, arg=arg))


def cases(tier, seed):
    rng = random.Random(seed)
    out = []
    maxlen = 3 if tier == "quick" else 4
    strings = [""]
    for k in range(1, maxlen + 1):
        strings.extend("".join(t) for t in itertools.product(ALPHABET, repeat=k))
    for s in strings:
        if "\n" in s:
            continue
        out.append(("line", s, rng.choice([0, 1, 2, 3]), rng.choice([None, "gfa1", "gfa2"])))
    # list-size shapes: P lines with 1-4 segments and 0-5 overlaps (all '*', all CIGARs, mixed), with and without their S lines
    segs = ["a+", "b+", "c-", "d+"]
    for ns in range(1, 5):
        for no in range(0, 6):
            for ovk in ("star", "cigar", "mixed"):
                ov = ["*" if (ovk == "star" or (ovk == "mixed" and k % 2)) else "1M" for k in range(no)]
                pl = "P\tp\t%s\t%s" % (",".join(segs[:ns]), ",".join(ov) if ov else "")
                slines = ["S\t%s\t*" % x[:-1] for x in segs[:ns]]
                for vlevel in (0, 1, 2, 3):
                    out.append(("doc", slines + [pl], vlevel))
                    out.append(("doc", [pl] + slines, vlevel))
                    out.append(("line", pl, vlevel, "gfa1"))
    # a tag name predefined for ANOTHER record type, on every record type; identifier tags of a wrong datatype
    basel = {"gfa1": {"S": "S\tA\t*", "L": "L\tA\t+\tB\t+\t*", "C": "C\tA\t+\tB\t+\t0\t*", "P": "P\tp\tA+,B+\t*", "H": "H"},
             "gfa2": {"S": "S\tA\t8\t*", "E": "E\te\tA+\tB+\t6\t8$\t0\t2\t*", "G": "G\tg\tA+\tB-\t5\t*", "F": "F\tA\tx+\t0\t2\t0\t2\t*", "O": "O\to\tA+ B+",
                      "U": "U\tu\tA B", "H": "H", "X": "X\tq"}}
    tagv = ["VN:Z:1.0", "TS:i:10", "LN:i:8", "RC:i:1", "FC:i:1", "KC:i:1", "SH:H:AB", "UR:Z:u", "MQ:i:1", "NM:i:1", "ID:Z:x", "ID:i:5", "ID:J:[1]", "ID:f:1.5", "ID:A:x", "LN:Z:x", "TS:Z:x"]
    for version in basel:
        segs = ["S\tA\t*", "S\tB\t*"] if version == "gfa1" else ["S\tA\t8\t*", "S\tB\t8\t*"]
        for rt, bl in basel[version].items():
            for tv in tagv:
                for vlevel in (0, 1, 3):
                    out.append(("line", bl + "\t" + tv, vlevel, version))
                    out.append(("doc", [x for x in segs if x != bl] + [bl + "\t" + tv], vlevel))
    # a line refused as a duplicate whose own text holds braces (a JSON tag, an identifier): the text goes into the error message
    for version in basel:
        segs = ["S\tA\t*", "S\tB\t*"] if version == "gfa1" else ["S\tA\t8\t*", "S\tB\t8\t*"]
        for rt, bl in basel[version].items():
            if rt in ("H", "X", "F"):
                continue
            for tail in ('\txx:J:{"k": 1}', '\txx:Z:{0}{1}', '\txx:Z:{', '\tID:Z:a{}b\txx:J:{"0": [1]}'):
                if tail.startswith("\tID") and rt not in ("L", "C"):
                    continue
                for vlevel in (0, 1, 3):
                    out.append(("doc", [x for x in segs if x != bl] + [bl + tail, bl + tail], vlevel))
            for name in ("{s}", "s{}{}", "s{", "}{0"):
                if rt in ("L", "C"):
                    dup = bl + "\tID:Z:" + name
                else:
                    f = bl.split("\t"); f[1] = name; dup = "\t".join(f)
                for vlevel in (0, 1, 3):
                    out.append(("doc", [x for x in segs if x != dup] + [dup, dup], vlevel))
    for text in ["L\ta\t+\tb\t+\t1M", "C\ta\t+\tb\t+\t1\t*", "E\te\ta+\tb+\t0\t1\t0\t1\t*", "S\ta\t*\txx:i:1\tyy:B:I,1\tzz:f:1.0\tjj:J:[1]\tLN:i:1\thh:H:0A\tcc:A:c", "S\ta\t1\t*", "G\tg\ta+\tb+\t1\t1",
                 "F\ta\tx+\t0\t1\t0\t1\t*", "P\tp\ta+,b+\t1M", "O\to\ta+ b+", "U\tu\ta b", "H\tVN:Z:1.0\tTS:i:1"]:
        for vlevel in (0, 1, 2, 3):
            out.append(("sethuge", text, vlevel))
    for gk in "OU":
        for n in (200, 1200):
            for vlevel in (0, 1):
                for op in ("build", "resolve", "write", "rm", "validate"):
                    out.append(("deepgroups", gk, n, vlevel, op))
    # files that are not text
    for data in (b"S\ta\t*\txx:Z:\xff\xfe\n", b"\xff\xfeS\x00", b"H\tVN:Z:1.0\n\x80\n", b"S\ta\t*\n\x00\x00"):
        for vlevel in (0, 1):
            out.append(("file", data, vlevel))
            out.append(("file", data, vlevel, True))          # read_file with progress logging on (the lines are counted first)
    # groups that contain themselves, directly or through each other
    base2 = ["S\tA\t8\t*", "S\tB\t8\t*", "E\te1\tA+\tB+\t6\t8$\t0\t2\t*"]
    for gl in (["O\ta\tb+", "O\tb\ta+"], ["O\ta\ta+"], ["O\ta\tA+ b-", "O\tb\te1+ a+"], ["U\ta\tb", "U\tb\ta"], ["U\ta\ta A"], ["U\ta\tb A", "U\tb\tc", "U\tc\ta e1"],
               ["O\ta\tb+ A+", "O\tb\tc-", "O\tc\ta+"], ["U\tu\to", "O\to\tA+ o+"]):
        for vlevel in (0, 1, 3):
            out.append(("groups", base2 + gl, vlevel))
            out.append(("groups", gl + base2, vlevel))
    # E lines over a grid of position pairs ($ on the begin, on the end, on both, equal positions, beyond the segment)
    posv = ["0", "3", "8", "9", "0$", "3$", "8$", "9$"]
    for b in posv:
        for e in posv:
            for which in (1, 2):
                p1, p2 = ((b, e), ("0", "2")) if which == 1 else (("6", "8$"), (b, e))
                el = "E\te1\tA+\tB-\t%s\t%s\t%s\t%s\t*" % (p1[0], p1[1], p2[0], p2[1])
                for vlevel in (0, 1, 3):
                    out.append(("doc", ["S\tA\t8\t*", "S\tB\t8\t*", el], vlevel))
                    out.append(("doc", [el, "S\tA\t8\t*", "S\tB\t8\t*"], vlevel))
    # strings handed to the constructors / parsers of the value classes
    vstrings = [""]
    for k in range(1, 4 if tier == "quick" else 5):
        vstrings.extend("".join(t) for t in itertools.product(VALUE_ALPHABET, repeat=k))
    for ctor in VALUE_CTORS:
        for t in (vstrings if tier != "quick" else [""] + rng.sample(vstrings, 250)):
            out.append(("value", ctor, t))
    # identifiers at the limits of integer conversion (Python refuses int() of more than 4300 digits)
    for digits in (4299, 4301, 5000):
        for version, tail in (("gfa1", "\t*"), ("gfa2", "\t8\t*")):
            out.append(("doc", ["S\t" + "9" * digits + tail, "S\t7" + tail], 1))
    nmut = 10 if tier == "quick" else 30
    for version in ("gfa1", "gfa2"):
        cat = universe.CAT[version]
        for i, (text, req) in cat.items():
            ids = universe.closure(cat, [i])
            base = universe.lines_of(version, ids)
            for vlevel in (0, 1, 2, 3):
                out.append(("doc", base, vlevel))
            for m in mutations(text, rng, nmut):
                for vlevel in ((0, 1, 2, 3) if tier != "quick" else (0, rng.choice([1, 2, 3]))):
                    out.append(("doc", base[:-1] + [m], vlevel))
                    out.append(("line", m, vlevel, version))
            # drop a referenced line / duplicate a line / truncate
            if len(base) > 1:
                out.append(("doc", base[1:], 1)); out.append(("doc", base + [base[-1]], 1)); out.append(("doc", base + [base[-1]], 0))
        # API strings
        docs = [["sA", "sB", "l1", "p1"], ["sA", "sB", "sC", "l10", "c2"]] if version == "gfa1" else [["sA", "sB", "e1", "o1", "u1", "g1"], ["sA", "f1", "x1"]]
        names = ["A", "B", "p1", "e1", "o1", "u1", "g1", "lk", "cn", "*", "", "nope", "A+", "7", "\t", "²"]
        values = ["x", "", "*", "1", "\t", "a b", "1_0", "{", "0A", "c,300", "²", "A+", "-5"]
        fields = ["name", "LN", "slen", "sequence", "xx", "XX", "x", "", "from_segment", "overlap", "alignment", "VN", "ab", "RC", "items", "sid1", "beg1", "disp", "var", "1a",
                  "_data", "_datatype", "_gfa", "_refs", "_virtual", "vlevel", "get", "validate", "__class__", "__dict__"]
        for d in docs:
            ids = universe.closure(cat, d)
            for vlevel in (0, 1, 3):
                for n in names:
                    for op in ("line", "segment", "rm"):
                        out.append(("api", version, ids, op, n, vlevel))
                    out.append(("api", version, ids, "rename", (rng.choice(["A", "B"]), n), vlevel))
                    for target in ("A", "p1", "e1", "o1", "u1", "g1", "lk"):
                        for then in ("rename", "disconnect", "rm", "set"):
                            out.append(("api", version, ids, "refused-then", (target, n, then), vlevel))
                if version == "gfa2":
                    for grp, methods in (("u1", ("add_item", "rm_item")), ("o1", ("append_item", "prepend_item"))):
                        for method in methods:
                            for n in names + ["A-", "B+", "e1+", "o1+", "u1+", "+", "-", "A +", "A+ B+"]:
                                for connected in (True, False):
                                    out.append(("api", version, ids, "group-edit", (grp, method, n, connected), vlevel))
                    for connected in (True, False):
                        for method in ("rm_first_item", "rm_last_item"):
                            out.append(("api", version, ids, "group-edit", ("o1", method, None, connected), vlevel))
                combos = [(n, f, v) for n in ("A", "B", "p1", "e1", "g1", "u1", "o1", "lk") for f in fields for v in values]
                for (n, f, v) in (combos if tier != "quick" else rng.sample(combos, 300)):
                    out.append(("api", version, ids, "set", (n, f, v), vlevel))
                for n in ("A", "B", "p1", "e1", "g1"):
                    for f in fields:
                        out.append(("api", version, ids, "get", (n, f), vlevel))
                        out.append(("api", version, ids, "field-queries", (n, f), vlevel))
    return out


if __name__ == "__main__":
    tier, seed = harness.args()
    cs = cases(tier, seed)
    res = harness.run(cs, check,
                      rule="(a) every string of length <=%d over %r as a line (Line(), add_line on an empty Gfa, write, validate, read of every field) at a seeded vlevel/version; "
                           "(b) every catalogue line's closed document at vlevel 0-3 and its single-point mutations; (c) strings handed to line/segment/rm/rename/set/get/get_datatype/validate_field/field_to_s/delete and to the group editing methods (add_item, rm_item, append_item, prepend_item, on connected and unconnected groups) on catalogue Gfas; (d) strings handed to the constructors and parsers of the value classes (OrientedLine, SegmentEnd, Alignment, LastPos, ByteArray, NumericArray, CIGAR, Trace). "
                           "A failure is any exception that is not a gfapy.Error. distinct = distinct input" % (3 if tier == "quick" else 4, ALPHABET),
                      bound="line strings of length <=%d exhaustively; mutations and API strings sampled with VERIF_SEED" % (3 if tier == "quick" else 4), exhaustive=False)
    harness.emit(res)
