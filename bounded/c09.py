"""C09 bounded stand-in: identifiers unique in the shared namespace; lookup and rename coherent; unused_name fresh."""
import random
from bounded import harness, state, universe, oracle
import gfapy

NEW = {
    "gfa1": {"S": "S\t{}\t*", "P": "P\t{}\tA+\t*", "L": "L\tA\t-\tC\t-\t7M\tID:Z:{}", "C": "C\tA\t-\tC\t-\t2\t*\tID:Z:{}",
             "Lv": "L\tC\t+\tA\t-\t3M\tID:Z:{}"},        # takes the place of the virtual link of the base with the path pv
    "gfa2": {"S": "S\t{}\t5\t*", "E": "E\t{}\tA-\tC-\t0\t2\t0\t2\t*", "G": "G\t{}\tA-\tC-\t3\t*", "O": "O\t{}\tA+", "U": "U\t{}\tA"},
}
# lines which mention their own identifier where another line is expected: the identifier would be carried twice (by the line and by what it mentions)
SELF = {"gfa1": ["P\tX9\tX9+,A-\t*", "P\tX9\tA+,X9+\t*", "P\tX9\tA+,B+,X9-\t*", "L\tX9\t+\tA\t+\t*\tID:Z:X9", "L\tA\t+\tX9\t-\t*\tID:Z:X9", "C\tX9\t+\tA\t+\t0\t*\tID:Z:X9",
                 "C\tA\t+\tX9\t+\t0\t*\tID:Z:X9"],
        "gfa2": ["E\tX9\tX9+\tA+\t0\t2\t0\t2\t*", "E\tX9\tA+\tX9-\t0\t2\t0\t2\t*", "G\tX9\tX9+\tA-\t3\t*", "G\tX9\tA+\tX9-\t3\t*", "O\tX9\tA+ X9+", "O\tX9\tX9+", "O\tX9\tX9- A+ B+",
                 "U\tX9\tA X9", "U\tX9\tX9", "U\tX9\tA B X9"]}
BASES = {"gfa1": [["sA", "sB", "sC"], ["raw:S\tA\t*\tLN:i:8", "raw:S\tB\t*\tLN:i:8", "raw:L\tA\t+\tB\t+\t2M", "raw:C\tA\t+\tB\t+\t1\t2M", "raw:L\tB\t+\tA\t+\t3M\tID:Z:lk", "raw:P\tp1\tA+,B+\t2M"],   # every segment has a length: convertible ["sA", "sB", "sC", "l1", "l10", "c2", "p1"], ["sA", "sB", "sC", "l1", "l7", "p2", "p4"],
                  ["sA", "sB", "sC", "l10", "raw:P\tpv\tC+,A-\t*"],             # a path read before its link: a virtual link C+ A- exists
                  ["sA", "raw:L\tA\t+\t4\t+\t*", "raw:S\t3\t*"]],               # a segment known only by a mention (placeholder) with an integer-looking name
         "gfa2": [["sA", "sB", "sC"], ["sA", "raw:E\t*\tA+\t4-\t0\t2\t0\t2\t*", "raw:S\t3\t8\t*"], ["sA", "sB", "sC", "e1", "g1", "o1", "u1"], ["sA", "sB", "sC", "e1", "e6", "ua", "ub", "oa", "ob", "u4", "u1"]]}


def doc_lines(version, ids):
    cat = universe.CAT[version]
    return universe.lines_of(version, universe.closure(cat, [i for i in ids if not i.startswith("raw:")])) + [i[4:] for i in ids if i.startswith("raw:")]


class Mentioned:
    """an identifier no line defines yet, but which some line mentions where a segment is expected: it is in use, as a segment"""
    rt = "S"
    virtual = True

    def __init__(self, name):
        self.name = name

    def text(self):
        return "<segment %s, known by mention only>" % self.name


def in_use(tm, name):
    r = tm.find(name)
    if r is None and any(m == name and role == "seg" for x in tm.recs for m, role in tm.mentions(x)):
        return Mentioned(name)
    return r


def check(case):
    version, ids, op = case
    cat = universe.CAT[version]
    lines = doc_lines(version, ids)
    fails = []
    key = (version, tuple(ids), tuple(op))
    def fail(sig, what):
        fails.append(dict(signature="C09:" + sig, what=what, case=dict(version=version, lines=lines, op=list(op)),
                          reproducer="import gfapy\nfrom bounded import state\ng = gfapy.Gfa(%r)\n# %r\nprint(state.uniq_errors(g), g.names)" % (lines, op)))
    if any(i.startswith("raw:") for i in ids):
        g = gfapy.Gfa(vlevel=1)              # a document with a forward reference that is still open: built line by line, not validated as a whole
        for l in lines:
            g.add_line(l)
    else:
        g = gfapy.Gfa(lines, vlevel=1)
    tm = oracle.TextModel("\n".join(lines), version)
    e0 = state.uniq_errors(g)
    if e0:
        fail("invariant-after-construction:" + e0[0][0], e0[0][1])
        return dict(key=key, nontrivial=True, failures=fails)
    if op[0] == "add":
        rt, name = op[1], op[2]
        text = NEW[version][rt].format(name)
        rt = rt[0]
        prev = in_use(tm, name) if name != "*" else None
        try:
            g.add_line(text)
            ok = True
        except gfapy.NotUniqueError:
            ok = False
        except gfapy.Error as e:
            fail("add-raises-%s" % type(e).__name__, "%s: %s" % (text, harness.short(e, 150)))
            ok = None
        if ok is True and prev is not None and not (prev.rt == rt and rt in ("O", "U")) and not (getattr(prev, "virtual", False) and rt == "S"):
            fail("duplicate-accepted:%s-over-%s" % (rt, prev.rt), "added %r although %r is carried by %r" % (text, name, prev.text()))
        if ok is False and prev is None:
            fail("fresh-identifier-refused:%s" % rt, text)
        if ok is True and name != "*" and g.line(name) is None:
            fail("added-line-not-found:%s" % rt, text)
    elif op[0] == "rename":
        old, new = op[1], op[2]
        target = g.line(old)
        prev = in_use(tm, new) if new != "*" else None
        others_before = sorted(str(x) for x in state.registered(g) if x is not target)
        try:
            target.name = new
            ok = True
        except gfapy.NotUniqueError:
            ok = False
        except gfapy.Error as e:
            ok = None
            listed = any(m == old and role != "seg" or m == old and tm.find(old).rt in ("E", "G", "O", "U") for x in tm.recs if x.rt in ("O", "U") for m, role in tm.mentions(x))
            if new == "*" and tm.find(old).rt in ("E", "G", "O", "U") and listed:
                # groups mention the line by this identifier: it cannot be taken away (refused, nothing changed)
                if sorted(str(x) for x in state.registered(g) if x is not target) != others_before or g.line(old) is not target:
                    fail("refused-rename-changed-the-Gfa", "%s -> %s" % (old, new))
            elif prev is None and not (new == "*" and tm.find(old).rt in ("S", "P", "L", "C")):
                fail("rename-raises-%s" % type(e).__name__, "%s -> %s: %s" % (old, new, harness.short(e, 150)))
        if ok is True and new == "*" and tm.find(old).rt in ("E", "G", "O", "U") and any(m == old for x in tm.recs if x.rt in ("O", "U") for m, role in tm.mentions(x)):
            fail("identifier-removed-under-a-group", "%s -> * although groups list %s: %r" % (old, old, [x for x in str(g).split("\n") if "INVALID" in x][:2]))
        if getattr(prev, "virtual", False) and tm.find(old).rt == "S":
            prev = None if ok else prev          # a segment renamed onto an identifier known only by mention: taking it over or refusing are both admissible
        if ok is True and prev is not None and prev is not tm.find(old) and not (prev.rt in ("O", "U") and prev.rt == tm.find(old).rt):
            fail("rename-onto-identifier-in-use:%s-over-%s" % (tm.find(old).rt, prev.rt), "%s -> %s" % (old, new))
        if ok is False and prev is None:
            fail("rename-to-fresh-refused", "%s -> %s" % (old, new))
        if ok is True and new != "*" and prev is None:
            if g.line(new) is not target:
                fail("renamed-line-not-found-under-new-name", "%s -> %s" % (old, new))
            if g.line(old) is not None:
                fail("old-name-still-resolves", "%s -> %s" % (old, new))
            tm2 = tm.copy(); tm2.rename(old, new)
            written = "\n".join(x for x in str(g).split("\n") if "GFAPY_virtual_line" not in x)      # placeholders of open forward references are not content
            if oracle.view(written, version)[1] != oracle.view(tm2.text(), version)[1]:
                fail("rename-text-differs", str(oracle.view_diff(oracle.view(tm2.text(), version)[1], oracle.view(written, version)[1])))
    elif op[0] == "addself":
        before = sorted(g.names)
        try:
            g.add_line(op[1])
            fail("self-reference-accepted:%s" % op[1][0], "%r accepted: names %r" % (op[1], g.names))
        except gfapy.Error:
            if sorted(g.names) != before:
                fail("self-reference-refused-but-names-changed:%s" % op[1][0], "%r: %r -> %r" % (op[1], before, sorted(g.names)))
    elif op[0] == "convert":
        # a whole-graph conversion is a view: afterwards the namespace is what it was, every identifier written on a line is found, fresh names are fresh
        before = (sorted(g.names), str(g))
        try:
            g.to_gfa2_s() if version == "gfa1" else g.to_gfa1_s()
            if op[1] == "gfa":
                g.to_gfa2() if version == "gfa1" else g.to_gfa1()
        except gfapy.Error:
            pass
        if (sorted(g.names), str(g)) != before:
            fail("conversion-changes-the-namespace", "names %r -> %r" % (before[0], sorted(g.names)))
        for x in state.registered(g):
            idt = x.get("ID") if x.record_type in ("L", "C") else None
            if idt is not None and g.line(idt) is not x:
                fail("identifier-on-a-line-not-found", "%s carries %r, line(%r) is %r" % (x, idt, idt, g.line(idt)))
        n = g.unused_name()
        if g.line(n) is not None or n in g.names or any(x.get("ID") == n for x in state.registered(g) if x.record_type in ("L", "C")):
            fail("unused_name-in-use-after-conversion", n)
    elif op[0] == "unused":
        for _ in range(3):
            n = g.unused_name()
            if g.line(n) is not None or n in g.names:
                fail("unused_name-in-use", n)
            g.add_line(NEW[version]["S"].format(n))
    errs = state.uniq_errors(g)
    if errs:
        fail("invariant:%s:%s" % (errs[0][0], op[0]), errs[0][1])
    w = state.wf_errors(g)
    if w:
        fail("wf:%s:%s" % (w[0][0], op[0]), w[0][1])
    return dict(key=key, nontrivial=True, failures=fails, sample=dict(lines=lines, op=list(op)))


def cases(tier, seed):
    out = []
    for version in ("gfa1", "gfa2"):
        for ids in BASES[version]:
            tm = oracle.TextModel("\n".join(doc_lines(version, ids)), version)
            named = [tm.name_of(r) for r in tm.recs if tm.name_of(r)]
            pool = sorted(set(named)) + ["Fresh", "*", "7", "007", "12"]
            for rt in NEW[version]:
                if rt == "Lv" and not any(i.startswith("raw:") for i in ids):
                    continue
                for name in pool:
                    if name == "*" and rt in ("S", "P", "L", "C", "Lv"):
                        continue          # '*' is not an identifier of these record types
                    out.append((version, ids, ("add", rt, name)))
            for old in named:
                for new in pool:
                    if new != old:
                        out.append((version, ids, ("rename", old, new)))
            out.append((version, ids, ("unused",)))
            out.append((version, ids, ("convert", "text"))); out.append((version, ids, ("convert", "gfa")))
            for text in SELF[version]:
                out.append((version, ids, ("addself", text)))
    return out


if __name__ == "__main__":
    tier, seed = harness.args()
    cs = cases(tier, seed)
    res = harness.run(cs, check,
                      rule="3 catalogue states per version x (add of every identified record type | rename of every identified line) x every identifier class "
                           "(each identifier in use, fresh, '*', integer-looking '7' '007' '12') + unused_name() + whole-graph conversion to the other version (namespace unchanged, identifiers found, fresh names fresh) + lines naming their own identifier in each reference field, single or list item (refused, names unchanged); expected: NotUniqueError iff the identifier is in use (U/O onto the same group type may merge); "
                           "afterwards UNIQ (pairwise distinct identifiers, line(id) returns the carrier, names without duplicates) and WF hold; a successful rename equals substitution in the text model",
                      bound="single add/rename per state; exhaustive over the identifier pool", exhaustive=True)
    harness.emit(res)
