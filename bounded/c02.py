"""C02 bounded stand-in: WF (closed, symmetric reference graph; ownership; lookup under the current identifier) installed as a
monitor after construction and after every step of every history of the shared universe."""
from bounded import harness, histories, state, universe
import gfapy


def check(case):
    version, order, history = case
    fails = []
    key = (version, tuple(sorted(order)), tuple(tuple(s[:3]) for s in history))
    def fail(kind, what, step):
        sig = "C02:%s:%s" % (kind, "construct" if step is None else step[0])
        fails.append(dict(signature=sig, what=what, case=histories.describe(version, order, history),
                          reproducer=histories.reproducer(version, order, history)))
    try:
        g = gfapy.Gfa(universe.lines_of(version, order), vlevel=1)
    except Exception as e:
        fail("construct-raises-" + type(e).__name__, harness.short(e), None)
        return dict(key=key, nontrivial=True, failures=fails)
    targets = []
    errs = state.wf_errors(g)
    if errs and not history:
        fail(errs[0][0], errs[0][1], None)
    from bounded import c03
    amb = c03.ambiguous(version, order)
    done = []
    for st in history:
        if amb and st[0] in ("rm", "rename", "disconnect") and isinstance(st[1], str) and g.line(st[1]) is None:
            # a path with unspecified overlaps over parallel links: which link it depends on (and so whether an earlier removal took the path
            # along) is not pinned; the history ends here and the invariant is checked on what was done
            break
        done.append(st)
        if st[0] == "rm":
            targets.append(g.line(st[1]))
        elif st[0] == "rm_line":
            targets.extend([x for x in state.registered(g) if histories.same_line(str(x), st[1], version)][:1])      # (the first of the lines written like this is the one the step removes: twins stay)
        try:
            state.apply_step(g, st)
        except Exception as e:
            fail("step-raises-" + type(e).__name__, "%s: %s" % (st[:3], harness.short(e)), st)
            break
    if not fails and done:
        errs = state.wf_errors(g)
        if errs:
            fail(errs[0][0], errs[0][1], done[-1])
        for x in targets:
            if x is not None and x._gfa is not None:
                fail("removed-line-still-owned", state.ident(x), done[-1]); break
    return dict(key=key, nontrivial=True, failures=fails, sample=histories.describe(version, order, history))


TWINS = [
    # content-identical anonymous lines (legal: multi-edges), removed by cascade or one by one
    ("gfa2", ["S\tA\t8\t*", "S\tB\t8\t*", "E\t*\tA+\tB+\t6\t8$\t0\t2\t*", "E\t*\tA+\tB+\t6\t8$\t0\t2\t*"], ["A", "B"]),
    ("gfa2", ["S\tA\t8\t*", "S\tB\t8\t*", "G\t*\tA+\tB-\t5\t*", "G\t*\tA+\tB-\t5\t*", "F\tA\tx+\t0\t2\t0\t2\t*", "F\tA\tx+\t0\t2\t0\t2\t*"], ["A", "B"]),
    ("gfa1", ["S\tA\t*", "S\tB\t*", "C\tA\t+\tB\t+\t5\t*", "C\tA\t+\tB\t+\t5\t*"], ["A", "B"]),
    # groups over groups that gfapy accepts: an ordered group that lists an unordered one (in both arrival orders), sets of sets of paths
    ("gfa2", ["S\tA\t8\t*", "S\tB\t8\t*", "U\tu1\tA B", "O\to1\tu1+ A+"], ["u1", "A", "B", "o1"]),
    ("gfa2", ["O\to1\tu1+ A+", "S\tA\t8\t*", "S\tB\t8\t*", "U\tu1\tA B"], ["u1", "A", "B", "o1"]),
    ("gfa2", ["S\tA\t8\t*", "S\tB\t8\t*", "E\te\tA+\tB+\t6\t8$\t0\t2\t*", "O\to1\tA+ B+", "U\tu1\to1 e", "U\tu2\tu1 o1", "O\to2\to1+"], ["u1", "o1", "e", "A", "u2", "o2"]),
]


def twins_case(case):
    _, version, lines, victim = case
    fails = []
    try:
        g = gfapy.Gfa(lines, vlevel=1)
        n_anon = len([x for x in state.registered(g) if x.record_type in "ECGF"])
        g.rm(victim)
        errs = state.wf_errors(g)
        if errs:
            fails.append(dict(signature="C02:twins:%s" % errs[0][0], what=errs[0][1], case=dict(lines=lines, rm=victim)))
        left = [str(x) for x in state.registered(g) if x.record_type in "ECGF" and any(f.rstrip("+-") == victim for f in str(x).split("\t")[1:5])]
        if left:
            fails.append(dict(signature="C02:twins:dependant-survives-its-segment", what="after rm(%s): %s" % (victim, left), case=dict(lines=lines, rm=victim),
                              reproducer="import gfapy\ng = gfapy.Gfa(%r)\ng.rm(%r)\nprint(str(g))" % (lines, victim)))
    except Exception as e:
        fails.append(dict(signature="C02:twins:raises-%s" % type(e).__name__, what=harness.short(e), case=dict(lines=lines, rm=victim)))
    return dict(key=case, nontrivial=True, failures=fails, sample=dict(lines=lines, rm=victim))


GEDIT_BASE = ["S\tA\t8\t*", "S\tB\t8\t*", "S\tC\t8\t*", "E\te1\tA+\tB+\t6\t8$\t0\t2\t*", "E\te6\tB+\tC+\t6\t8$\t0\t2\t*", "G\tg1\tA+\tC-\t10\t*",
              "O\to1\tA+ B+", "O\to2\to1+ C+", "U\tu1\tA B", "U\tu2\tu1 e1 g1"]
GEDIT_STEPS = [("u1", "add_item", "C"), ("u1", "add_item", "e1"), ("u1", "add_item", "A"), ("u1", "rm_item", "A"), ("u1", "rm_item", "B"), ("u2", "rm_item", "u1"), ("u2", "add_item", "o1"),
               ("u2", "rm_item", "g1"), ("o1", "append_item", "C+"), ("o1", "append_item", "e6+"), ("o1", "prepend_item", "e1-"), ("o1", "rm_first_item", None), ("o1", "rm_last_item", None),
               ("o2", "rm_last_item", None), ("o2", "prepend_item", "A+"), ("o1", "append_item", "B-"), ("o2", "rm_first_item", None)]


def gedit_case(case):
    """documented item editing of connected groups: after every step that is accepted the reference graph is closed and symmetric, and the
    Gfa equals the one parsed from its own text (an item listed k times has k back-references, a removed item none for that mention)"""
    _, steps = case
    fails = []
    done = []
    try:
        g = gfapy.Gfa(GEDIT_BASE, vlevel=1)
        for grp, method, item in steps:
            l = g.line(grp)
            try:
                getattr(l, method)(*([item] if item is not None else []))
                done.append((grp, method, item))
            except gfapy.Error:
                continue
            errs = state.wf_errors(g)
            if errs:
                fails.append(dict(signature="C02:group-edit:%s:%s" % (method, errs[0][0]), what=errs[0][1], case=dict(lines=GEDIT_BASE, steps=done))); break
            h = gfapy.Gfa(str(g), vlevel=1)
            if state.canon_snapshot(g) != state.canon_snapshot(h):
                fails.append(dict(signature="C02:group-edit:%s:differs-from-reparsed-text" % method, what=harness.short(state.snap_diff(state.snapshot(h), state.snapshot(g)), 400),
                                  case=dict(lines=GEDIT_BASE, steps=done))); break
    except Exception as e:
        fails.append(dict(signature="C02:group-edit:raises-%s" % type(e).__name__, what=harness.short(e), case=dict(lines=GEDIT_BASE, steps=done)))
    return dict(key=case, nontrivial=bool(done), failures=fails, sample=dict(steps=done))


def check_any(case):
    if case[0] == "gedit":
        return gedit_case(case)
    return twins_case(case) if case[0] == "twins" else check(case)


if __name__ == "__main__":
    tier, seed = harness.args()
    cs = histories.case_space(tier, seed)
    for version, lines, victims in TWINS:
        for v in victims:
            cs.append(("twins", version, lines, v))
    import itertools as _it
    for k in (1, 2):
        for steps in _it.permutations(GEDIT_STEPS, k):
            cs.append(("gedit", tuple(steps)))
    res = harness.run(cs, check_any,
                      rule="start documents = closed subsets of <=%d primary catalogue lines (GFA1+GFA2) in forward and reverse arrival order; histories = all sequences of <=%d legal steps "
                           "(rm by identifier, disconnect of anonymous lines, rename to fresh/integer name, add a further catalogue line), capped per level for large documents (VERIF_SEED); "
                           "WF checked at the end of every history (every prefix is its own history); plus every sequence of <=2 documented group-item edits (add_item, rm_item, append_item, prepend_item, rm_first_item, rm_last_item) on a fixed GFA2 document with nested groups: WF and equality with the re-parsed text after every accepted step. distinct = distinct (document, history)" % ((2, 2) if tier == "quick" else (3, 3)),
                      bound="documents <=%d primary lines, histories <=%d steps" % ((2, 2) if tier == "quick" else (3, 3)), exhaustive=False)
    harness.emit(res)
