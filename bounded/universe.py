"""Shared small-scope universe of the bounded tier (DESIGN §3.1): a catalogue of GFA1 and GFA2 lines with their
dependencies, documents = subsets closed under 'requires', histories of legal mutation steps."""
import itertools, random

# id: (text, requires)
GFA1 = {
    "sA": ("S\tA\t*\tLN:i:8", []),
    "sB": ("S\tB\tACGTACGT", []),
    "sC": ("S\tC\t*", []),
    "l1": ("L\tA\t+\tB\t+\t2M", ["sA", "sB"]),
    "l2": ("L\tA\t+\tB\t-\t*", ["sA", "sB"]),
    "l3": ("L\tA\t-\tB\t+\t1M1D2M", ["sA", "sB"]),
    "l4": ("L\tA\t-\tB\t-\t2M1I1M", ["sA", "sB"]),
    "l5": ("L\tA\t+\tA\t+\t2M", ["sA"]),
    "l6": ("L\tA\t+\tA\t-\t*", ["sA"]),
    "l7": ("L\tB\t+\tC\t+\t2M", ["sB", "sC"]),
    "l8": ("L\tB\t+\tC\t+\t3M", ["sB", "sC"]),
    "l9": ("L\tC\t-\tB\t-\t2M", ["sB", "sC"]),            # complement of l7
    "l10": ("L\tA\t+\tC\t+\t*\tID:Z:lk", ["sA", "sC"]),
    "l11": ("L\tB\t+\tA\t+\t3M", ["sA", "sB"]),
    "l12": ("L\tC\t+\tC\t-\t2M1I", ["sC"]),
    "l13": ("L\tA\t+\tC\t-\t2M1I", ["sA", "sC"]),                # a link whose CIGAR is not its own complement ...
    "l14": ("L\tC\t+\tA\t-\t1D2M", ["sA", "sC"]),                # ... and the same link in its complement form                   # hairpin whose CIGAR is not its own complement
    "l15": ("L\tB\t-\tC\t-\t1S2M1N1M", ["sB", "sC"]),           # the GFA1-only operations S and N: rewritten (not only swapped) by the complement
    "c1": ("C\tA\t+\tC\t+\t1\t2M", ["sA", "sC"]),
    "c1b": ("C\tA\t+\tC\t+\t1\t2M", ["sA", "sC"]),                # a second record with the fields of c1
    "c2": ("C\tB\t-\tC\t+\t0\t*\tID:Z:cn", ["sB", "sC"]),
    "p1": ("P\tp1\tA+,B+\t2M", ["l1"]),
    "p2": ("P\tp2\tA+,B+,C+\t*", ["l1", "l7"]),
    "p3": ("P\tp3\tA+,B+\t2M,3M", ["l1", "l11"]),          # circular
    "p4": ("P\tp4\tA+\t*", ["sA"]),
    "p5": ("P\tp5\tB-,A-\t2M", ["l1"]),                    # traverses l1 as its complement
    "p6": ("P\tp6\tB+,C+\t2M", ["l9"]),                    # the link is written in the complement form of this path's direction
    "p7": ("P\tp7\tC-,B-\t2M", ["l9"]),
    "p10": ("P\tp10\tA+,A+\t2M", ["l5"]),                  # over a self-link that joins the two ends of one segment
    "p11": ("P\tp11\tA-,A-\t2M", ["l5"]),                 # the same self-link walked in its complement form
    "p12": ("P\tp12\tB+,A-\t3M", ["l2"]),                 # a link without overlap, walked in its complement form by a path which states one
    "p8": ("P\tp8\tC+,C-\t2M1I", ["l12"]),                 # traverses the hairpin as written
    "p9": ("P\tp9\tC+,C-\t1D2M", ["l12"]),                 # traverses the hairpin in its complement form
    "h1": ("H\tVN:Z:1.0", []),
    "h2": ("H\txx:i:1", []),
    "h3": ("H\txx:i:2", []),
    "h4": ("H\tyy:Z:hello world\tzz:f:1.5", []),
    "h5": ("H\tTS:i:100", []),
    "h6": ("H\tjs:J:[1]", []),
    "h7": ("H\tjs:J:{\"a\": [2]}", []),                          # with h6: a JSON tag given twice (kept in one array)
    "k1": ("# a comment", []),
    "k2": ("# padded with blanks  ", []),
    "t3": ("S\tY\t*\tnt:Z:ends with a blank ", []),            # the last field of a line may end with white space
    "t4": ("S\tQ\t*\tau:J:{\"name\": \"M\\u00fcller\", \"k\": [\"\\u4e2d\", null]}", []),        # JSON text with escapes of non-ASCII characters (all printable ASCII as written)
    "t1": ("S\tD\tACGT\tLN:i:4\tRC:i:12\tab:Z:str\tcd:J:[1, 2]\tef:H:1A2B\tgh:B:c,1,-2\tij:A:x\tkl:f:0.25", []),
}
GFA2 = {
    "sA": ("S\tA\t8\t*", []),
    "sB": ("S\tB\t8\tACGTACGT", []),
    "sC": ("S\tC\t8\t*", []),
    "e1": ("E\te1\tA+\tB+\t6\t8$\t0\t2\t2M", ["sA", "sB"]),
    "e2": ("E\t*\tA+\tB-\t6\t8$\t6\t8$\t*", ["sA", "sB"]),
    "e2b": ("E\t*\tA+\tB-\t6\t8$\t6\t8$\t*", ["sA", "sB"]),        # a second record with the fields of e2: two lines, equal as values
    "e3": ("E\te3\tA-\tB+\t0\t2\t0\t2\t2M", ["sA", "sB"]),
    "e4": ("E\te4\tB+\tC+\t0\t8$\t2\t6\t*", ["sB", "sC"]),        # B contained in C
    "e5": ("E\te5\tA+\tC+\t2\t4\t3\t5\t2M", ["sA", "sC"]),        # internal
    "e6": ("E\te6\tB+\tC+\t6\t8$\t0\t2\t2M", ["sB", "sC"]),
    "e7": ("E\te7\tA+\tA+\t6\t8$\t0\t2\t2M", ["sA"]),             # self dovetail
    "e8": ("E\te8\tA+\tB+\t5\t8$\t0\t3\t3M", ["sA", "sB"]),       # parallel to e1
    "e9": ("E\te9\tC+\tA+\t0\t2\t5\t8$\t2M1I", ["sA", "sC"]),   # a dovetail from A+ to C+ written with the segment it enters first (sid1 is not the 'from' segment)
    "g1": ("G\tg1\tA+\tB-\t10\t*", ["sA", "sB"]),
    "g2": ("G\t*\tB+\tC+\t5\t2", ["sB", "sC"]),
    "f1": ("F\tA\tx+\t0\t8$\t0\t8\t*", ["sA"]),
    "f2": ("F\tB\ty-\t0\t4\t0\t4\t*", ["sB"]),
    "f3": ("F\tB\tx-\t4\t8$\t0\t4\t*", ["sB"]),             # with f1: the same external sequence in both orientations
    "o1": ("O\to1\tA+ B+", ["e1"]),
    "o2": ("O\to2\tA+ e1+ B+", ["e1"]),
    "o3": ("O\to3\to1+ C+", ["o1", "e6"]),
    "o4": ("O\to4\tB- e1- A-", ["e1"]),
    "o5": ("O\to5\te1- e3+", ["e1", "e3"]),          # starts with a reversed edge
    "o6": ("O\to6\tA+ e9+ C+", ["e9"]),
    "o7": ("O\to7\tC- e9- A-", ["e9"]),
    "u1": ("U\tu1\tA B", ["sA", "sB"]),
    "u2": ("U\tu2\te1", ["e1"]),
    "u3": ("U\tu3\to1", ["o1"]),
    "u4": ("U\tu4\tu1 C", ["u1", "sC"]),
    "u5": ("U\tu5\tg1 A", ["g1"]),
    "u6": ("U\tu6\tg1 A g1", ["g1"]),                       # the same gap listed twice
    "u7": ("U\tu7\tg1", ["g1"]),                            # a set of one gap (nothing is left of it when the gap goes)
    "u8": ("U\tu8\tu7 A", ["u7", "sA"]),                  # ... and a set over that set
    "ua": ("U\tus\tA", ["sA"]),
    "ub": ("U\tus\tB\txx:i:1", ["sB"]),
    "uc": ("U\tus\tC\tch:A:c\tjs:J:[1]", ["sC"]),              # tags whose datatype is not the default one of their value
    "uz": ("U\tuz\tA\tcv:i:0", ["sA"]),                     # a group with a falsy tag value
    "oa": ("O\tos\tA+ B+", ["e1"]),
    "ob": ("O\tos\tC+", ["e6", "oa"]),
    "x1": ("X\ta\tb\txx:i:1", []),
    "x2": ("Y\tf1\tf2\txx:i:1\tyy:Z:a\tzz:f:0.5", []),       # custom record with several tags: their order is part of the text
    "x3": ("Y\tf1\tzz:B:C,256\txx:i:1", []),                # a field shaped like a tag that cannot be one (value out of range): a positional field, at every level
    "x4": ("Y\tab:i:1\tab:i:2", []),                        # the same tag name twice: the first one is a positional field
    "t2": ("S\tW\t8\t*\tLN:i:5\txx:i:1", []),                # a tag named like the GFA1 length tag (an alias of slen in gfapy)
    "h1": ("H\tVN:Z:2.0", []),
    "h2": ("H\txx:i:1", []),
    "h3": ("H\txx:i:2", []),
    "h5": ("H\tTS:i:100", []),
    "h6": ("H\tjs:J:[1]", []),
    "h7": ("H\tjs:J:{\"a\": [2]}", []),                          # with h6: a JSON tag given twice (kept in one array)
    "k1": ("# a comment", []),
    "k2": ("# padded with blanks  ", []),
    "t3": ("S\tY\t8\t*\tnt:Z:ends with a blank ", []),
    "t4": ("S\tQ\t8\t*\tau:J:{\"name\": \"M\\u00fcller\", \"k\": [\"\\u4e2d\", null]}", []),
    "t1": ("S\tD\t4\tACGT\tRC:i:12\tab:Z:str\tcd:J:[1, 2]\tef:H:1A2B\tgh:B:c,1,-2\tij:A:x\tkl:f:0.25", []),
}
CAT = {"gfa1": GFA1, "gfa2": GFA2}
# parallel-edge pairs that gfapy refuses as duplicates by design are not combined
EXCLUSIVE = {"gfa1": [], "gfa2": []}


def closure(cat, ids):
    out = []
    def add(i):
        if i in out:
            return
        for r in cat[i][1]:
            add(r)
        out.append(i)
    for i in ids:
        add(i)
    return out


def primaries(cat):
    return [i for i in cat if not (i.startswith("s") and len(cat[i][1]) == 0)]


def documents(version, max_primary, rng=None, sample=None):
    """yield lists of catalogue ids (closed, dependencies first)"""
    cat = CAT[version]
    prim = primaries(cat)
    seen = set()
    combos = []
    for k in range(0, max_primary + 1):
        combos.extend(itertools.combinations(prim, k))
    if sample is not None and rng is not None and len(combos) > sample:
        combos = rng.sample(combos, sample)
    for c in combos:
        ids = closure(cat, c)
        if version == "gfa2" and not any(cat[i][0][0] in "SEFGOU" or cat[i][0].startswith("H\tVN") for i in ids):
            ids = ["sA"] + ids           # a version-defining line so that the document is GFA2
        key = tuple(sorted(ids))
        if key in seen:
            continue
        seen.add(key)
        yield ids


def lines_of(version, ids):
    return [CAT[version][i][0] for i in ids]


def text_of(version, ids):
    return "\n".join(lines_of(version, ids))
