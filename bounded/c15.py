"""C15 bounded stand-in: segment multiplication makes faithful copies, splits the counts, distributes links without
losing a neighbour or inventing a link, and leaves the rest of the graph untouched (reference model on the text, GFA1)."""
import itertools, random
from collections import Counter
from bounded import harness, oracle, state
import gfapy


def parse(lines):
    segs, edges, other = {}, [], []
    for l in lines:
        f = l.split("\t")
        if f[0] == "S":
            segs[f[1]] = f
        elif f[0] in ("L", "C"):
            edges.append(f)
        else:
            other.append(l)
    return segs, edges, other


def tagmap(f, npos):
    return {t.split(":")[0]: t for t in f[npos:]}


def divide(f, npos, k):
    out = list(f[:npos])
    for t in f[npos:]:
        n, d, v = t.split(":", 2)
        if n in ("KC", "RC", "FC"):
            v = str(int(v) // k)
        out.append("%s:%s:%s" % (n, d, v))
    return out


def edge_key(f):
    """an edge up to its name: the copies of a named edge carry names of their own (checked separately)"""
    if f[0] == "L":
        pos = oracle.link_canon(f[1:6])
        return ("L", tuple(pos), tuple(sorted(t for t in f[6:] if not t.startswith("ID:"))))
    return ("C", tuple(f[1:7]), tuple(sorted(t for t in f[7:] if not t.startswith("ID:"))))


def edge_ids(text):
    return sorted(t for l in text.split("\n") if l[:1] in "LC" for t in l.split("\t")[6:] if t.startswith("ID:"))


def edge_ends(f):
    """for links: the two segment ends"""
    return ((f[1], "R" if f[2] == "+" else "L"), (f[3], "L" if f[4] == "+" else "R"))


def graph_of_text(text):
    v, recs = oracle.parse_text(text, "gfa1")
    segs = {}
    edges = Counter()
    for r in recs:
        if r.rt == "S":
            segs[r.pos[0]] = (r.pos[1], tuple(sorted("%s:%s:%s" % (k, d, x) for k, (d, x) in r.tags.items())))
        elif r.rt in ("L", "C"):
            f = [r.rt] + r.pos + ["%s:%s:%s" % (k, d, x) for k, (d, x) in r.tags.items()]
            edges[edge_key(f)] += 1
    return segs, edges


def check(case):
    lines, target, factor, policy, names = case
    lines = list(lines)
    fails = []
    def fail(sig, what):
        fails.append(dict(signature="C15:" + sig, what=what, case=dict(lines=lines, segment=target, factor=factor, distribute=policy, copy_names=names),
                          reproducer="import gfapy\ng = gfapy.Gfa(%r)\ng.multiply(%r, %d, copy_names=%r, distribute=%r)\nprint(g)" % (lines, target, factor, names, policy)))
    segs, edges, _ = parse(lines)
    try:
        g = gfapy.Gfa(lines, vlevel=1)
        before = str(g)
        kw = {}
        if names is not None:
            kw["copy_names"] = list(names)
        if policy is not None:
            kw["distribute"] = policy
        bad_names = names is not None and factor >= 2 and (len(names) != factor - 1 or len(set(names)) != len(names) or any(n in segs for n in names))
        bad_policy = policy not in (None, "off", "auto", "equal", "L", "R")
        try:
            g.multiply(target, factor, **kw)
            if bad_policy and factor >= 0:
                fail("unknown-policy-accepted", "%r" % (policy,))
                return dict(key=case, nontrivial=True, failures=fails)
            if bad_names:
                fail("unusable-copy-names-accepted", "%r for factor %d" % (names, factor))
                return dict(key=case, nontrivial=True, failures=fails)
        except (gfapy.ArgumentError, gfapy.NotUniqueError) as e:
            if bad_policy and isinstance(e, gfapy.ArgumentError):
                # an unknown policy is refused before anything is changed
                if str(g) != before or state.wf_errors(g):
                    fail("refused-policy-changed-graph", "%r: %s" % (policy, harness.short(e, 80)))
                return dict(key=case, nontrivial=True, failures=fails)
            if bad_names:
                if str(g) != before or state.wf_errors(g):
                    fail("refused-copy-names-changed-graph", "%r: %s" % (names, harness.short(e, 80)))
                return dict(key=case, nontrivial=True, failures=fails)
            if isinstance(e, gfapy.NotUniqueError):
                fail("raises-NotUniqueError", harness.short(e, 200))
                return dict(key=case, nontrivial=True, failures=fails)
            if factor >= 0:
                fail("refused-ArgumentError", "factor %d" % factor)
            elif str(g) != before:
                fail("negative-factor-changed-graph", "")
            return dict(key=case, nontrivial=True, failures=fails)
        except gfapy.Error as e:
            selfl = any(f[0] == "L" and f[1] == target and f[3] == target for f in edges)
            fail("raises-%s%s" % (type(e).__name__, ":self-link" if selfl else ""), harness.short(e, 200))
            return dict(key=case, nontrivial=True, failures=fails)
        if factor < 0:
            fail("negative-factor-accepted", "")
        after = str(g)
        gs, ge = graph_of_text(after)
        bs, be = graph_of_text(before)
        if factor == 1:
            if after != before:
                fail("factor-1-changes-graph", "")
            return dict(key=case, nontrivial=True, failures=fails)
        if factor == 0:
            tm = oracle.TextModel(before, "gfa1"); tm.rm(target)
            if oracle.view(after, "gfa1")[1] != oracle.view(tm.text(), "gfa1")[1]:
                fail("factor-0-is-not-removal", str(oracle.view_diff(oracle.view(tm.text(), "gfa1")[1], oracle.view(after, "gfa1")[1])))
            return dict(key=case, nontrivial=True, failures=fails)
        new = sorted(set(gs) - set(bs))
        if len(new) != factor - 1:
            fail("number-of-copies", "%d new segments %s for factor %d" % (len(new), new, factor))
            return dict(key=case, nontrivial=True, failures=fails)
        if names is not None and sorted(names) != new:
            fail("requested-names-not-used", "%s vs %s" % (names, new))
        members = [target] + new
        sf = divide(segs[target], 3, factor)
        want_seg = (sf[2], tuple(sorted(sf[3:])))
        for m in members:
            if gs[m] != want_seg:
                fail("copy-differs-from-original", "%s: %s, expected %s" % (m, gs[m], want_seg)); break
        for s in bs:
            if s != target and gs.get(s) != bs[s]:
                fail("other-segment-changed", s)
        # expected edges without distribution
        full = Counter()
        touching = []
        for f in edges:
            npos = 6 if f[0] == "L" else 7
            if target not in (f[1], f[3]):
                full[edge_key(f)] += 1
                continue
            fd = divide(f, npos, factor)
            touching.append(fd)
            for m in members:
                c = list(fd)
                if c[1] == target: c[1] = m
                if c[3] == target: c[3] = m
                full[edge_key(c)] += 1
        ids_b, ids_a = edge_ids(before), edge_ids(after)
        if len(set(ids_a)) != len(ids_a):
            fail("edge-names-not-distinct", str(ids_a))
        if policy in (None, "off") and not set(ids_b) <= set(ids_a):      # (with distribution the original of a named link may be the one that goes)
            fail("edge-name-lost", "%s -> %s" % (ids_b, ids_a))
        n_named = sum(1 for f in edges if target in (f[1], f[3]) and any(t.startswith("ID:") for t in f[6:]))
        if policy in (None, "off") and len(ids_a) != len(ids_b) + n_named * (factor - 1):
            fail("copies-of-named-edges", "%s -> %s for factor %d" % (ids_b, ids_a, factor))
        if policy in (None, "off"):
            if ge != full:
                fail("edges-differ", "missing %s extra %s" % (sorted(map(str, (full - ge).elements()))[:4], sorted(map(str, (ge - full).elements()))[:4]))
        else:
            inv = ge - full
            if inv:
                fail("link-invented", str(sorted(map(str, inv.elements()))[:4]))
            # which end was (possibly) distributed: the one that lost links
            lost = full - ge
            lost_ends = set()
            for (rt, pos, tags), n in lost.items():
                if rt != "L":
                    fail("containment-lost-by-distribution", str(pos)); continue
                f = ["L"] + list(pos)
                e1, e2 = edge_ends(f)
                if e1[0] in members and e2[0] in members:
                    continue          # a link of a copy with itself touches both ends by nature
                for (sg, et) in (e1, e2):
                    if sg in members:
                        lost_ends.add(et)
            if len(lost_ends) > 1:
                fail("links-removed-on-both-ends", str(lost_ends))
            if policy in ("L", "R") and lost_ends - {policy}:
                fail("links-removed-on-the-other-end", "%s vs %s" % (lost_ends, policy))
            # every former neighbour end stays linked to at least one copy
            for f in touching:
                if f[0] != "L" or (f[1] == target and f[3] == target):
                    continue
                e1, e2 = edge_ends(f)
                mine, nb = (e1, e2) if e1[0] == target else (e2, e1)
                still = False
                for (rt, pos, tags), n in ge.items():
                    if rt == "L":
                        a, b = edge_ends(["L"] + list(pos))
                        if (a == nb and b[0] in members and b[1] == mine[1]) or (b == nb and a[0] in members and a[1] == mine[1]):
                            still = True
                if not still:
                    fail("neighbour-lost", "%s no longer linked to any copy of %s" % (nb, target))
        w = state.wf_errors(g)
        if w:
            fail("wf:%s" % w[0][0], w[0][1])
        u = state.uniq_errors(g)
        if u:
            fail("uniq:%s" % u[0][0], u[0][1])
    except gfapy.Error as e:
        fail("raises-%s" % type(e).__name__, harness.short(e, 200))
    except Exception as e:
        import traceback
        fail("foreign-%s" % type(e).__name__, harness.short(traceback.format_exc()[-500:], 500))
    return dict(key=case, nontrivial=factor >= 2, failures=fails, sample=dict(lines=lines, segment=target, factor=factor, distribute=policy))


def check_gfa2(case):
    """GFA2 graphs (edges usually carry names there): k-1 new segments equal to the original; every edge of the target is found once per
    copy with the same positions, orientations, other segment and tags (counts divided), under distinct names; nothing else changes"""
    _, lines, target, factor = case
    lines = list(lines)
    fails = []
    def fail(sig, what):
        fails.append(dict(signature="C15:gfa2:" + sig, what=what, case=dict(lines=lines, segment=target, factor=factor),
                          reproducer="import gfapy\ng = gfapy.Gfa(%r)\ng.multiply(%r, %d)\nprint(g)" % (lines, target, factor)))
    try:
        g = gfapy.Gfa(lines, vlevel=1)
        g.multiply(target, factor)
        after = str(g).split("\n")
        segs_b = {l.split("\t")[1]: l.split("\t")[2:] for l in lines if l[0] == "S"}
        segs_a = {l.split("\t")[1]: l.split("\t")[2:] for l in after if l[0] == "S"}
        new = sorted(set(segs_a) - set(segs_b))
        if len(new) != factor - 1:
            fail("number-of-copies", "%s for factor %d" % (new, factor))
            return dict(key=case, nontrivial=True, failures=fails)
        members = [target] + new
        def sig(l, mem):
            f = l.split("\t")
            f = divide(f, 9, 1)
            s1, s2 = f[2], f[3]
            a = "@" + s1[-1] if s1[:-1] in mem else s1
            b = "@" + s2[-1] if s2[:-1] in mem else s2
            return (a, b) + tuple(f[4:9]) + tuple(sorted(f[9:]))
        def counted(l):
            # the property speaks of dovetails and containments; internal alignments are not its subject (gfapy leaves them on the original)
            return l[0] == "E" and oracle.e_class(l.split("\t")[1:9])[0] != "internal"
        want = Counter()
        for l in lines:
            if not counted(l):
                continue
            f = l.split("\t")
            touches = target in (f[2][:-1], f[3][:-1])
            fd = "\t".join(divide(f, 9, factor)) if touches else l
            want[sig(fd, [target])] += factor if touches else 1
        got = Counter(sig(l, members) for l in after if counted(l))
        if got != want:
            fail("edges-differ", "missing %s extra %s" % (sorted(map(str, (want - got).elements()))[:3], sorted(map(str, (got - want).elements()))[:3]))
        # every member carries each edge of the target exactly once
        for m in members:
            n_m = sum(1 for l in after if counted(l) and m in (l.split("\t")[2][:-1], l.split("\t")[3][:-1]))
            n_t = sum(1 for l in lines if counted(l) and target in (l.split("\t")[2][:-1], l.split("\t")[3][:-1]))
            if n_m != n_t:
                fail("copy-has-another-number-of-edges", "%s: %d, the original had %d" % (m, n_m, n_t)); break
        names = [l.split("\t")[1] for l in after if l[0] in "ESOUG" and l.split("\t")[1] != "*"]
        if len(set(names)) != len(names):
            fail("names-not-distinct", str(sorted(names)))
        for l in lines:
            if l[0] not in "SE" and l not in after:
                fail("other-line-changed", l)
        w = state.wf_errors(g)
        if w:
            fail("wf:%s" % w[0][0], w[0][1])
    except gfapy.Error as e:
        fail("raises-%s" % type(e).__name__, harness.short(e, 200))
    except Exception as e:
        import traceback
        fail("foreign-%s" % type(e).__name__, harness.short(traceback.format_exc()[-500:], 500))
    return dict(key=case, nontrivial=True, failures=fails, sample=dict(lines=lines, segment=target, factor=factor))


def check_any(case):
    return check_gfa2(case) if case[0] == "gfa2" else check(case)


def cases_gfa2(tier, rng):
    out = []
    kinds = {"pfx": ("0", "2"), "sfx": ("6", "8$"), "whole": ("0", "8$"), "inner": ("2", "5")}
    for _ in range(600 if tier == "quick" else 6000):
        segnames = ["A", "B", "C"][:rng.randrange(1, 4)]
        lines = ["S\t%s\t8\t*%s" % (s, rng.choice(["", "\tRC:i:10", "\tKC:i:7\tab:Z:x"])) for s in segnames]
        for i in range(rng.randrange(0, 5)):
            a = "A" if rng.random() < 0.6 else rng.choice(segnames)
            b = rng.choice(segnames)
            k1, k2 = rng.choice(sorted(kinds)), rng.choice(sorted(kinds))
            name = "e%d" % i if rng.random() < 0.6 else "*"
            lines.append("E\t%s\t%s%s\t%s%s\t%s\t%s\t%s\t%s\t*%s" % (name, a, rng.choice("+-"), b, rng.choice("+-"), kinds[k1][0], kinds[k1][1], kinds[k2][0], kinds[k2][1],
                                                                     rng.choice(["", "\tRC:i:9"])))
        if rng.random() < 0.3 and len(segnames) > 1:
            lines.append("U\tu\t%s" % " ".join(segnames[1:]))
        out.append(("gfa2", tuple(lines), "A", rng.choice([2, 3])))
    return out


def cases(tier, seed):
    rng = random.Random(seed)
    out = []
    n = 2500 if tier == "quick" else 25000
    for _ in range(n):
        tname = rng.choice(["A", "A", "A*2", "X*3"])
        segnames = [tname, "B", "C", "D"][:rng.randrange(2, 5)]
        lines = []
        for s in segnames:
            tags = rng.choice(["", "\tRC:i:10\tKC:i:7", "\tLN:i:6\tFC:i:3\tab:Z:x"]) if s == tname else rng.choice(["", "\tRC:i:5"])
            lines.append("S\t%s\t%s%s" % (s, rng.choice(["*", "ACGTAC"]) if "LN" not in tags else "ACGTAC", tags))
        seen = set()
        for _ in range(rng.randrange(0, 6)):
            a = rng.choice(segnames); b = rng.choice(segnames)
            if rng.random() < 0.6:
                a = tname
            oa, ob = rng.choice("+-"), rng.choice("+-")
            if rng.random() < 0.85:
                cg = rng.choice(["*", "2M", "3M"])
                key = tuple(oracle.link_canon([a, oa, b, ob, "*"])[:4])
                if key in seen:
                    continue
                seen.add(key)
                idt = "\tID:Z:e%d" % len(lines) if rng.random() < 0.25 else ""
                if idt and rng.random() < 0.3:
                    idt = "\tID:Z:%s*%d" % (tname.split("*")[0], len(lines) + (0 if "*" not in tname else 4))          # an edge named like a copy of the segment (A*1, A*3, ...): the names of the copies must avoid each other
                lines.append("L\t%s\t%s\t%s\t%s\t%s%s%s" % (a, oa, b, ob, cg, rng.choice(["", "\tRC:i:9", "\tKC:i:4\tMQ:i:3"]), idt))
            elif a != b or rng.random() < 0.3:
                idt = "\tID:Z:e%d" % len(lines) if rng.random() < 0.25 else ""
                lines.append("C\t%s\t%s\t%s\t%s\t%d\t*%s%s" % (a, oa, b, ob, rng.randrange(3), rng.choice(["", "\tRC:i:6"]), idt))
        factor = rng.choice([-1, 0, 1, 2, 2, 3, 3, 4])
        policy = rng.choice([None, None, "off", "auto", "equal", "L", "R"])
        if rng.random() < 0.04:
            policy = rng.choice(["foo", "r", "left"])              # not a policy
        names = None
        if factor >= 2 and rng.random() < 0.3:
            names = tuple("cp%d" % i for i in range(factor - 1))
            r = rng.random()
            if r < 0.1:
                names = names[:-1]                          # one name short
            elif r < 0.2:
                names = names + ("cpx",)                    # one too many
            elif r < 0.3:
                names = names[:-1] + (rng.choice(segnames),)   # a name in use
            elif r < 0.4 and len(names) >= 2:
                names = (names[0],) * len(names)            # the same name twice
        out.append((tuple(lines), tname, factor, policy, names))
    return out + cases_gfa2(tier, rng)


if __name__ == "__main__":
    tier, seed = harness.args()
    cs = cases(tier, seed)
    res = harness.run(cs, check_any,
                      rule="seeded GFA1 graphs: 2-4 segments (target named A, A*2 or X*3; with/without counts and sequence), 0-5 links/containments mostly on the target (self-links, hairpins, parallel ends), "
                           "factor in -1..4, distribution policy None/off/auto/equal/L/R, given or automatic copy names (also too few, too many, in use, repeated: refused with the graph unchanged), a quarter of the edges named (ID tag), containments of a segment in itself; oracle: k-1 fresh distinct copies identical to the original with counts // k, every "
                           "edge of the target copied onto every copy with counts // k (no distribution), or with distribution: no invented link, links removed on one end only (the requested one), every former "
                           "neighbour still linked to some copy; factor 1 no change, factor 0 = removal (text model), negative refused without change; other segments untouched; WF and UNIQ hold. GFA2 graphs (1-3 segments, 0-4 E lines of every interval kind, mostly named, "
                           "self edges, a set): k-1 copies, every edge of the target once per copy with the same positions and tags (counts divided) under distinct names, other lines unchanged, WF",
                      bound="<=4 segments, <=5 edges, factor <=4", exhaustive=False)
    harness.emit(res)
