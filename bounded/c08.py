"""C08 bounded stand-in: a mutation that raises leaves the Gfa observably unchanged (content, version, identifiers,
references and back-references), also for several failing calls in a row followed by a legal one."""
import random
from bounded import harness, state, universe, histories, oracle
import gfapy

FAILING = {
    "gfa1": [
        ("add", "S\tA\t*"), ("add", "S\tA\tAC\tLN:i:9"), ("add", "P\tA\tA+,B+\t*"), ("add", "L\tA\t+\tB\t+\t2Q"), ("add", "L\tA\t+\tB"),
        ("add", "S\tX\t*\tLN:i:x"), ("add", "S\tX\t*\txx:i:1\txx:i:2"), ("add", "H\tVN:Z:3.0"), ("add", "H\tVN:Z:2.0"), ("add", "H\tnn:i:1\tVN:Z:2.0"),
        ("add", "H\tnn:i:1\tTS:i:200"), ("add", "H\tnn:i:1\txx:i:7\tTS:i:200"),
        ("add", "E\te9\tA+\tB+\t0\t2\t6\t8$\t2M"), ("add", "S\tY\t8\t*"), ("add", "C\tA\t+\tB\t+\t-1\t*"), ("add", "L\tA\t+\tB\t+\t2M\tID:Z:B"),
        ("add", "P\tpz\tA+,Q+,B+\t2M"), ("add", "P\tpz\tA+;B+\t*"), ("add", "L\tA\t+\tB\t+\t2M\tRC:Z:x"),
        ("rename", "A", "B"), ("rename", "B", "p1"), ("rm", "nope"), ("settag", "A", "LN", "x"), ("settag", "A", "xx", [1, "a"]),
        ("setfield", "A", "name", "a b"), ("setfield", "lk", "from_segment", "B"),
    ],
    "gfa2": [
        ("add", "S\tA\t8\t*"), ("add", "E\te1\tA+\tB+\t0\t2\t6\t8$\t*"), ("add", "G\tA\tA+\tB-\t1\t*"), ("add", "U\tA\tB C"), ("add", "O\tB\tA+ C+"),
        ("add", "E\tez\tA+\tB+\t9\t8$\t0\t2\t*"), ("add", "E\tez\tQ+\tB+\t9\t8$\t0\t2\t*"), ("add", "E\tez\tA+\tB+\t2$\t8\t0\t2\t*"), ("add", "F\tA\tx+\t5\t2\t0\t8\t*"),
        ("add", "H\tVN:Z:3.0"), ("add", "H\tVN:Z:1.0"), ("add", "H\tnn:i:1\tTS:i:x"), ("add", "H\tnn:i:1\tTS:i:200"), ("add", "H\tnn:i:1\txx:i:7\tTS:i:200"), ("add", "L\tA\t+\tB\t+\t2M"), ("add", "S\tY\t*"), ("add", "E\tez\tA+\tB+\t0\t2"),
        ("add", "U\tus\tC\txx:i:2"), ("add", "U\tuz\tC Q\tcv:i:3"), ("add", "U\tuz\tC\tcv:i:3\tdd:Z:x"), ("add", "U\tus\tQ R\txx:i:2"), ("add", "O\tos\tA+ B+\tzz:i:1\tzz:i:2"), ("add", "G\tgz\tA+\tB-\tx\t*"), ("add", "U\tuz\ta  b"),
        ("add", "O\tu1\tA+"), ("add", "U\to1\tA"), ("add", "E\tg1\tA+\tB+\t6\t8$\t0\t2\t*"),
        ("rename", "A", "B"), ("rename", "e1", "A"), ("rename", "u1", "A"), ("rm", "nope"), ("settag", "A", "xx", [1, "a"]), ("setfield", "A", "slen", "x"),
        ("setfield", "e1", "sid1", "B+"), ("setfield", "A", "sid", "a b"),
        # editing the items of a group: an unknown item, the group itself, an item that is not included, an item of a type that is not allowed,
        # an item that does not continue the path, an item without orientation, the only item
        ("groupedit", "u1", "add_item", "nope"), ("groupedit", "u1", "add_item", "u1"), ("groupedit", "u1", "rm_item", "nope"), ("groupedit", "u1", "rm_item", "C"),
        ("groupedit", "u2", "rm_item", "e1"), ("groupedit", "o1", "append_item", "nope+"), ("groupedit", "o1", "append_item", "C+"), ("groupedit", "o1", "prepend_item", "C-"),
        ("groupedit", "o1", "append_item", "C"), ("groupedit", "o1", "append_item", "u1+"), ("groupedit", "o1", "append_item", "o1+"), ("groupedit", "o1", "append_item", ""),
        ("groupedit", "o3", "append_item", "A-"), ("groupedit", "u4", "add_item", "u4"),
        # items that are refused for another reason than 'does not continue the path': a gap (not an item of a walk), an edge that is not adjacent
        ("groupedit", "o1", "append_item", "g1+"), ("groupedit", "o1", "prepend_item", "g1-"), ("groupedit", "o2", "append_item", "g1+"), ("groupedit", "o1", "append_item", "e3+"),
        ("groupedit", "o5", "append_item", "g1+"),
    ],
}


def do(g, op):
    k = op[0]
    if k == "add":
        g.add_line(op[1])
    elif k == "rename":
        l = g.line(op[1])
        if l is None:
            raise gfapy.NotFoundError("no such line")
        l.name = op[2]
    elif k == "rm":
        g.rm(op[1])
    elif k == "settag":
        l = g.line(op[1])
        if l is None:
            raise gfapy.NotFoundError("no such line")
        l.set(op[2], op[3])
    elif k == "groupedit":
        l = g.line(op[1])
        if l is None or l.record_type not in "OU":
            raise gfapy.NotFoundError("no such group")
        getattr(l, op[2])(op[3])
    elif k == "setfield":
        l = g.line(op[1])
        if l is None:
            raise gfapy.NotFoundError("no such line")
        l.set(op[2], op[3])


UNKNOWN_PRELUDES = [[], ["H\txx:i:1"], ["# c"], ["L\tA\t+\tB\t+\t*"], ["X\tq\txx:i:1"], ["H\tTS:i:100", "P\tp\tA+,B+\t*"]]
UNKNOWN_OPS = ["E\t*\tA+\tB+\tx\t2\t0\t2\t*", "E\te", "F\tA\tx+\tq\t2\t0\t2\t*", "G\tg\tA+\tB-\tx\t*", "U\tu\t", "O\to\tA", "O\to\t", "S\tA", "S\tA\tx\t*\t*", "S\tA\t*\tLN:i:x",
               "H\txx:i:q", "H\tVN:Z:3.0", "H\tnn:i:1\tTS:i:200", "H\tnn:i:1\tVN:Z:3.0", "L\tA", "Q",
               # well-formed lines that decide a version the queued lines cannot live with
               "S\tA\t8\t*", "E\t*\tA+\tB+\t0\t2\t0\t2\t*", "H\tVN:Z:2.0", "S\tA\t*", "H\tVN:Z:1.0"]


def unknown_case(case):
    _, prelude, op, vlevel = case
    fails = []
    g = gfapy.Gfa(vlevel=vlevel)
    try:
        for l in prelude:
            g.add_line(l)
    except Exception as e:
        return dict(key=case, nontrivial=False, failures=[])
    def obs():
        return dict(snap=state.snapshot(g), version=g.version, guess=g._version_guess, queue=[str(x) for x in g._line_queue], nh=g.n_input_header_lines)
    before = obs()
    raised = False
    try:
        g.add_line(op)
    except Exception as e:
        raised = True
        after = obs()
        if after != before:
            try:
                gfapy.Line(op, vlevel=vlevel)
                wellformed = True
            except Exception:
                wellformed = False
            diff = [k for k in before if before[k] != after[k]]
            fails.append(dict(signature="C08:unknown-version:state-changed:%s:%s%s" % (op.split("\t")[0], type(e).__name__, ":well-formed-line-deciding-the-version" if wellformed else ""),
                              what="after %r, add_line(%r) raised %s but %s changed: %s" % (prelude, op, type(e).__name__, diff, harness.short(str({k: (before[k], after[k]) for k in diff if k != "snap"}), 300)),
                              case=dict(prelude=prelude, op=op, vlevel=vlevel),
                              reproducer="import gfapy\ng = gfapy.Gfa(vlevel=%d)\nfor l in %r: g.add_line(l)\ntry: g.add_line(%r)\nexcept Exception as e: print(type(e).__name__)\nprint(g.version, g._version_guess, len(g._line_queue), g.n_input_header_lines, str(g))" % (vlevel, prelude, op)))
    return dict(key=case, nontrivial=raised, failures=fails, sample=dict(prelude=prelude, op=op, vlevel=vlevel))


def check(case):
    if case[0] == "unknown":
        return unknown_case(case)
    version, ids, ops, vlevel, tail = case
    lines = universe.lines_of(version, ids)
    fails = []
    key = (version, tuple(ids), tuple(map(str, ops)), vlevel)
    try:
        g = gfapy.Gfa(lines, vlevel=vlevel)
    except Exception as e:
        return dict(key=key, nontrivial=False, failures=[dict(signature="C08:construct-raises-" + type(e).__name__, what=harness.short(e), case=dict(lines=lines))])
    raised = 0
    determined = oracle.version_of(lines) is not None
    for op in ops:
        before = state.snapshot(g)
        try:
            do(g, op)
        except Exception as e:
            raised += 1
            after = state.snapshot(g)
            if after != before:
                d = state.snap_diff(before, after)
                changed = set(before["text"]) ^ set(after["text"])
                only_placeholders = bool(changed) and all(("GFAPY_virtual_line" in t or "line_created_by_gfapy" in t) for t in changed)
                clash = ""
                if op[0] == "add":
                    try:
                        tmx = oracle.TextModel("", version); tmx.version = version
                        r = oracle.tokenize(op[1], version)
                        own = tmx.name_of(r)
                        for ident, role in tmx.mentions(r):
                            cur = None
                            for x in state.registered(g):
                                try:
                                    if x.name == ident:
                                        cur = x
                                except Exception:
                                    pass
                            if role == "seg" and ((cur is not None and cur.record_type != "S") or ident == own):
                                clash = ":reference-clash"
                    except Exception:
                        pass
                fails.append(dict(signature="C08:state-changed:%s:%s:%s%s" % (op[0], type(e).__name__, (op[1].split("\t")[0] if op[0] == "add" else op[2] if len(op) > 2 else ""),
                                                                            (":placeholders-only" if only_placeholders else "") + clash),
                                  what="%r raised %s but: %s" % (op, type(e).__name__, harness.short("; ".join(d), 500)),
                                  case=dict(version=version, lines=lines, op=list(op), vlevel=vlevel),
                                  reproducer="import gfapy\nfrom bounded import state, c08\ng = gfapy.Gfa(%r, vlevel=%d)\nb = state.snapshot(g)\ntry:\n    c08.do(g, %r)\nexcept Exception as e: print(type(e).__name__)\nprint(state.snap_diff(b, state.snapshot(g)))" % (lines, vlevel, op)))
                break
    if not fails and tail is not None and raised == len(ops) and determined:
        # the caller catches the errors and carries on: a legal step must behave as on a fresh Gfa
        try:
            g.add_line(tail)
            h = gfapy.Gfa(lines + [tail], vlevel=vlevel)
            if state.canon_snapshot(g) != state.canon_snapshot(h):
                fails.append(dict(signature="C08:later-legal-step-differs", what=harness.short(state.snap_diff(state.snapshot(h), state.snapshot(g)), 400),
                                  case=dict(version=version, lines=lines, ops=[list(o) for o in ops], tail=tail)))
        except Exception as e:
            fails.append(dict(signature="C08:later-legal-step-raises:%s" % type(e).__name__, what=harness.short(e), case=dict(version=version, lines=lines, ops=[list(o) for o in ops], tail=tail)))
    return dict(key=key, nontrivial=raised > 0, failures=fails, sample=dict(lines=lines, ops=[list(o) for o in ops], raised=raised))


def cases(tier, seed):
    rng = random.Random(seed)
    out = []
    for version in ("gfa1", "gfa2"):
        docs = list(universe.documents(version, 2 if tier == "quick" else 3))
        if tier == "quick":
            docs = [d for d in docs if len(d) <= 5] + rng.sample([d for d in docs if len(d) > 5], 40)
        tails = {"gfa1": "S\tT\t*", "gfa2": "S\tT\t5\t*"}
        for ids in docs:
            for op in FAILING[version]:
                out.append((version, ids, [op], rng.choice([1, 1, 2, 3]), None))
            for _ in range(3 if tier == "quick" else 10):
                ops = rng.sample(FAILING[version], 2)
                out.append((version, ids, ops, rng.choice([1, 3]), tails[version]))
    for prelude in UNKNOWN_PRELUDES:
        for op in UNKNOWN_OPS:
            for vlevel in (0, 1, 3):
                out.append(("unknown", prelude, op, vlevel))
    return out


if __name__ == "__main__":
    tier, seed = harness.args()
    cs = cases(tier, seed)
    res = harness.run(cs, check,
                      rule="catalogue Gfas (closed documents of <=%d primary lines) x %d/%d operations meant to fail (duplicates, clashes across record types, version conflicts, malformed fields, "
                           "inconsistent header values, contradictory group tags, illegal edits, renames to names in use); full-state snapshot (content, version, identifiers, per-line references and "
                           "back-references) before/after every call that raises; plus pairs of failing calls followed by one legal add compared with a fresh Gfa; plus Gfas whose version is still unknown (%d preludes x %d lines that are refused, levels 0/1/3): version, guess, queue and header count are part of the snapshot. non-trivial = at least one call raised" % (
                               2 if tier == "quick" else 3, len(FAILING["gfa1"]), len(FAILING["gfa2"]), len(UNKNOWN_PRELUDES), len(UNKNOWN_OPS)),
                      bound="one or two failing operations per state", exhaustive=False)
    harness.emit(res)
