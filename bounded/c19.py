"""C19 bounded stand-in: a clone is equal, detached and shares no mutable state with the original."""
import random, copy
from bounded import harness, universe, state
import gfapy

EXTRA = {
    "gfa1": ["S\tE\tACGT\tab:J:{\"k\": [1, {\"z\": 2}]}\tcd:B:i,1,2\tef:H:0A\tgh:Z:s", "H\txx:i:1", "H\txx:i:2", "H\tjj:J:[1]"],
    "gfa2": ["S\tE\t4\tACGT\tab:J:{\"k\": [1, {\"z\": 2}]}\tcd:B:i,1,2\tef:H:0A\tgh:Z:s", "H\txx:i:1", "H\txx:i:2", "H\tjj:J:[1]", "X\tq\tw\tab:J:[[1]]",
             "Z\t" + "\t".join("v%d" % k for k in range(1, 13)) + "\tab:Z:tag"],          # a custom record with more than nine positional fields
}


def mutate(v, depth=0):
    """mutate in place every mutable object reachable from v; returns number of mutations"""
    n = 0
    if depth > 4:
        return 0
    if isinstance(v, gfapy.OrientedLine):
        try:
            v.orient = "-" if v.orient == "+" else "+"; n += 1
        except Exception:
            pass
        try:
            if isinstance(v.line, str):
                v.line = v.line + "_mut"; n += 1
        except Exception:
            pass
    elif isinstance(v, gfapy.CIGAR):
        for op in v:
            op.length = op.length + 7; op.code = "X"; n += 1
        v.append(gfapy.CIGAR.Operation(9, "M")); n += 1
    elif isinstance(v, gfapy.FieldArray):
        v._data.append(99); n += 1
    elif isinstance(v, list):
        for x in list(v):
            n += mutate(x, depth + 1)
        try:
            v.append(v[0] if v else 1); n += 1
        except Exception:
            pass
    elif isinstance(v, dict):
        for x in list(v.values()):
            n += mutate(x, depth + 1)
        v["__mut__"] = 1; n += 1
    return n


def check(case):
    version, lines, vlevel = case
    fails = []
    g = gfapy.Gfa(lines, vlevel=vlevel)
    targets = state.registered(g) + [g.header]
    nmut = 0
    for l in targets:
        rt = l.record_type
        def fail(sig, what):
            fails.append(dict(signature="C19:%s:%s" % (sig, rt), what=what, case=dict(version=version, lines=lines, vlevel=vlevel, line=state.ident(l)),
                              reproducer="import gfapy\ng = gfapy.Gfa(%r, vlevel=%d)\n# clone the %s line %r, edit the clone's values, compare str(g)" % (lines, vlevel, rt, state.ident(l))))
        try:
            before_l, before_g = str(l), str(g)
            c = l.clone()
            if c.is_connected() or c._gfa is not None:
                fail("clone-connected", "")
            if c._refs:
                fail("clone-has-references", str(c._refs)[:100])
            if str(c) != before_l:
                fail("written-form-differs", "%r vs %r" % (str(c), before_l))
            if not (c == l):
                fail("clone-not-equal", "%r" % before_l)
            # edit everything reachable from the clone
            for k in list(c._data.keys()):
                v = c._data[k]
                if isinstance(v, str):
                    continue
                nmut += mutate(v)
            for k in c.tagnames:
                try:
                    c.set(k, c.get(k))
                except Exception:
                    pass
            try:
                c.set("zz", 1); c.delete(c.tagnames[0]) if c.tagnames else None
            except Exception:
                pass
            if str(l) != before_l:
                fail("edit-of-clone-changes-original", "%r -> %r" % (before_l, str(l)))
            if str(g) != before_g:
                fail("edit-of-clone-changes-gfa", harness.short(before_g, 150) + " -> " + harness.short(str(g), 150))
            # and vice versa: edit the tag values of the original, the (fresh) clone must not move
            c2 = l.clone()
            s2 = str(c2)
            for k in l.tagnames:
                v = l._data.get(k)
                if not isinstance(v, str):
                    nmut += mutate(v)
            if str(c2) != s2:
                fail("edit-of-original-changes-clone", "%r -> %r" % (s2, str(c2)))
            g = gfapy.Gfa(lines, vlevel=vlevel)      # fresh state for the next line
            break_after = False
        except gfapy.Error as e:
            fail("raises-%s" % type(e).__name__, harness.short(e, 150))
        except Exception as e:
            fail("foreign-%s" % type(e).__name__, harness.short(e, 150))
        # targets belong to the first Gfa; rebuild mapping by index
    return dict(key=(version, tuple(lines), vlevel), nontrivial=True, failures=fails, sample=dict(lines=lines, vlevel=vlevel, lines_cloned=len(targets), mutations=nmut))


def check_one(case):
    """one (document, line index) per case so that every clone starts from a fresh Gfa"""
    version, lines, vlevel, idx = case
    g = gfapy.Gfa(lines, vlevel=vlevel)
    targets = state.registered(g) + [g.header]
    if idx >= len(targets):
        return dict(key=case, nontrivial=False, failures=[])
    l = targets[idx]
    # reuse check() logic on a single target
    global _single
    fails = []
    rt = l.record_type
    def fail(sig, what):
        fails.append(dict(signature="C19:%s:%s" % (sig, rt), what=what, case=dict(version=version, lines=lines, vlevel=vlevel, line=state.ident(l)),
                          reproducer="import gfapy\ng = gfapy.Gfa(%r, vlevel=%d)\n# clone the %s line %r, edit the clone's values, compare str(g)" % (lines, vlevel, rt, state.ident(l))))
    nmut = 0
    try:
        before_l, before_g = str(l), str(g)
        c = l.clone()
        if c.is_connected() or c._gfa is not None:
            fail("clone-connected", "")
        if c._refs:
            fail("clone-has-references", str(c._refs)[:100])
        if str(c) != before_l:
            fail("written-form-differs", "%r vs %r" % (str(c), before_l))
        if not (c == l):
            fail("clone-not-equal", "%r" % before_l)
        # both copies are read first (at level 0 this is when the delayed fields are parsed), then only the clone is edited
        vals = []
        for k in list(c._data.keys()):
            try:
                l.get(k)
                vals.append(c.get(k))
            except gfapy.Error:
                pass
        before_l = str(l); before_g = str(g)
        for v in vals:
            if not isinstance(v, str):
                nmut += mutate(v)
        if str(l) != before_l:
            fail("edit-of-clone-changes-original", "%r -> %r" % (before_l, str(l)))
        if str(g) != before_g:
            fail("edit-of-clone-changes-gfa", harness.short(before_g, 200) + " -> " + harness.short(str(g), 200))
        # tag-level edits of the clone: delete every tag, declare and set a new one
        c3 = l.clone()
        for t in list(c3.tagnames):
            try:
                c3.delete(t)
            except Exception:
                pass
        try:
            c3.set_datatype("zq", "i"); c3.set("zq", 12)
        except Exception:
            pass
        if str(l) != before_l or str(g) != before_g:
            fail("tag-edit-of-clone-changes-original", "%r -> %r" % (before_l, str(l)))
        else:
            try:
                if rt not in ("H", "#") and not l.virtual:
                    l.set("zq", "hello")
                    if "zq:Z:hello" not in str(l):
                        fail("new-tag-of-clone-leaks-into-original", str(l))
                    l.delete("zq")
            except gfapy.Error as e:
                fail("new-tag-of-clone-leaks-into-original", "%s: %s" % (type(e).__name__, harness.short(e, 100)))
        g2 = gfapy.Gfa(lines, vlevel=vlevel)
        l2 = (state.registered(g2) + [g2.header])[idx]
        c2 = l2.clone()
        vals2 = []
        for k in list(l2._data.keys()):
            try:
                c2.get(k)
                vals2.append((k, l2.get(k)))
            except gfapy.Error:
                pass
        s2 = str(c2)
        for k, v in vals2:
            if not isinstance(v, str) and (k in l2.tagnames or not l2.is_connected()):
                nmut += mutate(v)
        if str(c2) != s2:
            fail("edit-of-original-changes-clone", "%r -> %r" % (s2, str(c2)))
    except gfapy.Error as e:
        fail("raises-%s" % type(e).__name__, harness.short(e, 150))
    except Exception as e:
        fail("foreign-%s" % type(e).__name__, harness.short(e, 150))
    return dict(key=(version, tuple(lines), vlevel, idx), nontrivial=True, failures=fails, sample=dict(line=before_l if 'before_l' in dir() else None, vlevel=vlevel, mutations=nmut))


def cases(tier, seed):
    rng = random.Random(seed)
    out = []
    for version in ("gfa1", "gfa2"):
        docs = [universe.closure(universe.CAT[version], [i]) for i in universe.CAT[version]]
        more = list(universe.documents(version, 2))
        docs += rng.sample(more, min(len(more), 60 if tier == "quick" else 600))
        for ids in docs:
            lines = universe.lines_of(version, ids) + (EXTRA[version] if rng.random() < 0.5 else [])
            for vlevel in (0, 1, 3):
                for idx in range(len(lines) + 1):
                    out.append((version, lines, vlevel, idx))
    return out


if __name__ == "__main__":
    tier, seed = harness.args()
    cs = cases(tier, seed)
    res = harness.run(cs, check_one,
                      rule="every line (incl. the merged header) of catalogue Gfas, some extended with J/B/H/Z-tagged lines, repeated header tags and a custom record, at vlevel 0/1/3: the clone is detached, "
                           "has no references, writes the same text, compares equal; then every mutable value reachable from the clone's fields (lists, OrientedLines, CIGAR operations, JSON containers, "
                           "FieldArrays) is edited in place and the original line and Gfa must write the same text as before, and vice versa. one evaluation = one (Gfa, line)",
                      bound="documents <=2 primary lines", exhaustive=False)
    harness.emit(res)
