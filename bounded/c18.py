"""C18 bounded stand-in: validation levels only change WHEN errors surface, never the result."""
import random
from bounded import harness, universe, oracle
from bounded.c01 import TAGPOOL
import gfapy

ASSIGN = {   # datatype -> (valid python values, invalid python values)
    "i": ([5, -3, 0], ["x", 1.5, [1]]),
    "f": ([1.5, 2, -0.25], ["x", [1.0]]),
    "Z": (["hello", "a b"], ["a\tb", "x\ny", 5]),
    "A": (["x"], ["xy", "", 5]),
    "H": ([gfapy.ByteArray([1, 2]), "0A1B"], ["0G", "XY", 5]),
    "J": ([[1, 2], {"a": [1]}], ["{", 5]),
    "B": ([gfapy.NumericArray([1, 2, 3]), gfapy.NumericArray([1.5, 2.5]), "c,1,2"], ["c,1,x", gfapy.NumericArray([1, 2.5]), gfapy.NumericArray([2.5, 1, 2]), gfapy.NumericArray([True, 1]), gfapy.NumericArray([1, True]), gfapy.NumericArray([2**40])]),
}


def doc_case(case):
    _, version, lines = case
    fails = []
    outs = {}
    for k in (0, 1, 2, 3):
        try:
            outs[k] = ("ok", str(gfapy.Gfa(lines, vlevel=k)))
        except gfapy.Error as e:
            outs[k] = ("err", type(e).__name__)
        except Exception as e:
            outs[k] = ("foreign", type(e).__name__)
    def fail(sig, what):
        fails.append(dict(signature="C18:" + sig, what=what, case=dict(version=version, lines=lines),
                          reproducer="import gfapy\nfor k in range(4):\n    print(k, repr(str(gfapy.Gfa(%r, vlevel=k))))" % (lines,)))
    for k in (3, 2, 1):
        if outs[k][0] == "ok" and outs[k - 1][0] != "ok":
            fail("accepted-at-%d-rejected-at-%d" % (k, k - 1), str(outs))
    oks = {k: v[1] for k, v in outs.items() if v[0] == "ok"}
    if len(oks) == 4:
        views = {k: oracle.view(t, version)[1] for k, t in oks.items()}
        if any(views[k] != views[3] for k in views):
            fail("content-differs-between-levels", str({k: t for k, t in oks.items()})[:500])
        elif len(set(oks.values())) > 1:
            ks = [k for k in oks if oks[k] != oks[3]]
            fail("text-differs-between-levels:levels-%s" % "".join(map(str, ks)), str({k: t for k, t in oks.items()})[:500])
    return dict(key=("doc", version, tuple(lines)), nontrivial=len(oks) == 4, failures=fails, sample=dict(lines=lines, outcomes={k: v[0] for k, v in outs.items()}))


# values for a tag which does not exist yet (default datatype of the value): (datatype taken, value, valid)
NEWTAG = [("Z", "hello", True), ("Z", "a\tb", False), ("Z", "x\ny", False), ("Z", "caf\u00e9", False), ("i", 5, True), ("i", True, False), ("f", 1.5, True), ("f", float("inf"), False),
          ("f", float("nan"), False), ("B", [1, 2], True), ("J", [True, False], True), ("B", [float("inf")], False), ("B", [2**40], False), ("J", {"a": [1]}, True), ("J", ["caf\u00e9"], True),
          ("J", {"a": float("nan")}, False), ("J", [{1, 2}], False), ("J", {1: "a"}, False), ("H", gfapy.ByteArray([1, 2]), True), ("B", gfapy.NumericArray([1, 2.5]), False), ("B", gfapy.NumericArray([2.5, 1, 2]), False), ("B", gfapy.NumericArray([True, 1, 2]), False)]


def assign_case(case):
    _, version, dt, value, valid, vlevel, declared = case[:7]
    sibling = case[7] if len(case) > 7 else False
    fails = []
    seg = "S\tA\t*" if version == "gfa1" else "S\tA\t8\t*"
    if declared is True:
        seed_val = {"i": "1", "f": "1.0", "Z": "z", "A": "a", "H": "00", "J": "[]", "B": "c,1"}[dt]
        seg += "\txx:%s:%s" % (dt, seed_val)
    def fail(sig, what):
        fails.append(dict(signature="C18:" + sig, what=what, case=dict(version=version, datatype=dt, value=repr(value), valid=valid, vlevel=vlevel, declared=declared),
                          reproducer="import gfapy\nl = gfapy.Line(%r, vlevel=%d)\nl.set('xx', %r)\nprint(str(l)); l.validate()" % (seg, vlevel, value)))
    try:
        l = gfapy.Line(seg, vlevel=vlevel)
        if sibling:
            # a detached copy gets a tag of the same name with a value of another kind first: the two lines are independent, the
            # assignment to the original stays valid and writes what it writes without the copy
            alone = gfapy.Line(seg, vlevel=vlevel); alone.set("xx", value); want_text = str(alone)
            copy = l.clone()
            copy.set("xx", "s" if isinstance(value, (int, float)) else 7)
            copy_text = str(copy)
        elif declared == "new-tag":
            pass                             # a tag the line does not have and no datatype declared: the default datatype of the value
        elif not declared:
            l.set_datatype("xx", dt)
    except Exception as e:
        fail("setup-raises-%s" % type(e).__name__, harness.short(e, 100))
        return dict(key=case[1:], nontrivial=False, failures=fails)
    stage = None
    def attempt(name, f):
        nonlocal stage
        try:
            f()
            return True
        except gfapy.Error:
            if stage is None:
                stage = name
            return False
        except Exception as e:
            fail("foreign-exception:%s:%s:%s" % (name, dt, type(e).__name__), "%r: %s" % (value, harness.short(e, 120)))
            if stage is None:
                stage = name
            return False
    s_ok = attempt("set", lambda: l.set("xx", value))
    w_ok = attempt("write", lambda: str(l)) if s_ok else None
    if s_ok and w_ok and "INVALID" in str(l):
        w_ok = False
        if stage is None:
            stage = "write-marker"
    v_ok = attempt("validate", lambda: l.validate()) if s_ok else None
    vf_ok = attempt("validate_field", lambda: l.validate_field("xx")) if s_ok else None
    if valid:
        if stage is not None:
            fail("valid-assignment-rejected:%s:level%d:%s%s" % (dt, vlevel, stage, ":after-assignment-to-a-clone" if sibling else ""), "%r" % (value,))
        elif sibling and (str(l) != want_text or str(copy) != copy_text):
            fail("assignment-depends-on-a-clone:%s:level%d" % (dt, vlevel), "%r: wrote %r (alone %r); the copy %r (was %r)" % (value, str(l), want_text, str(copy), copy_text))
    else:
        if vlevel >= 3 and s_ok:
            fail("invalid-assignment-not-reported-at-set:%s" % dt, "%r" % (value,))
        if vlevel == 2 and s_ok and w_ok:
            fail("invalid-assignment-written-at-level2:%s" % dt, "%r -> %s" % (value, str(l)))
        if s_ok and v_ok and vf_ok:
            fail("invalid-assignment-passes-validate:%s:level%d" % (dt, vlevel), "%r" % (value,))
    return dict(key=case[1:], nontrivial=True, failures=fails, sample=dict(datatype=dt, value=repr(value), valid=valid, vlevel=vlevel, first_error_at=stage))


def _posvalues():
    A = gfapy.Alignment
    OL = gfapy.OrientedLine
    return [
        ("P\tp\ta+,b+\t*", "gfa1", "overlaps", [([A("2M", version="gfa1")], True), ([A("2M", version="gfa1"), A("*", version="gfa1")], True), ([[12, 5]], False), ([], False), ([gfapy.Trace([12, 5])], False)]),
        ("P\tp\ta+,b+\t*", "gfa1", "segment_names", [([OL("a", "+"), OL("c", "-")], True), ([], False), ([OL("a", "x")], False)]),
        ("S\ta\t8\t*", "gfa2", "slen", [(9, True), ("x", False), (1.5, False)]),
        ("S\ta\t*", "gfa1", "sequence", [("ACGT", True), ("AC GT", False), (5, False)]),
        ("E\te\ta+\tb-\t0\t2\t2\t4$\t*", "gfa2", "beg1", [(1, True), (-1, False), ("x", False)]),
        ("E\te\ta+\tb-\t0\t2\t2\t4$\t*", "gfa2", "alignment", [(A("2M"), True), (A("1,2"), True), (A("5M5=", version="gfa1"), False), ("x", False)]),
        ("U\tu\ta b", "gfa2", "items", [(["a", "c"], True), ([], False), (["a b"], False)]),
        ("O\to\ta+ b-", "gfa2", "items", [([OL("a", "+")], True), ([], False), ([OL("a b", "+")], False)]),
        ("G\tg\ta+\tb-\t10\t*", "gfa2", "disp", [(5, True), ("x", False)]),
        ("S\ta\t*", "gfa1", "name", [("b", True), ("a b", False), ("a+,b", False)]),
        ("F\ta\tx+\t0\t4\t0\t4\t*", "gfa2", "s_end", [(5, True), ("x", False), (-2, False)]),
    ]


def assignpos_case(case):
    """a decoded value assigned to a POSITIONAL field of an unconnected line: a valid one is never rejected; an invalid one is reported at
    the assignment at level 3, at the latest when the line is written at level 2, and by validate() / validate_field() at every level"""
    _, idx, vidx, vlevel = case
    text, version, field, vals = _posvalues()[idx]
    value, valid = vals[vidx]
    fails = []
    def fail(sig, what):
        fails.append(dict(signature="C18:positional:" + sig, what=what, case=dict(line=text, field=field, value=repr(value), valid=valid, vlevel=vlevel),
                          reproducer="import gfapy\nl = gfapy.Line(%r, version=%r, vlevel=%d)\nl.set(%r, <%s>)\nprint(str(l)); l.validate_field(%r); l.validate()" % (text, version, vlevel, field, repr(value), field)))
    l = gfapy.Line(text, version=version, vlevel=vlevel)
    stage = None
    def attempt(name, f):
        nonlocal stage
        try:
            f(); return True
        except gfapy.Error:
            stage = stage or name; return False
        except Exception as e:
            fail("foreign-exception:%s:%s:%s" % (name, field, type(e).__name__), "%r: %s" % (value, harness.short(e, 120)))
            stage = stage or name; return False
    s_ok = attempt("set", lambda: l.set(field, value))
    w_ok = None
    if s_ok:
        w_ok = attempt("write", lambda: str(l))
        if w_ok and "INVALID" in str(l):
            w_ok = False; stage = stage or "write-marker"
    v_ok = attempt("validate", lambda: l.validate()) if s_ok else None
    vf_ok = attempt("validate_field", lambda: l.validate_field(field)) if s_ok else None
    if valid:
        if stage is not None:
            fail("valid-assignment-rejected:%s:level%d:%s" % (field, vlevel, stage), repr(value))
    else:
        if vlevel >= 3 and s_ok:
            fail("invalid-assignment-not-reported-at-set:%s" % field, repr(value))
        if vlevel == 2 and s_ok and w_ok:
            fail("invalid-assignment-written-at-level2:%s" % field, "%r -> %s" % (value, str(l)))
        if s_ok and (v_ok or vf_ok):
            fail("invalid-assignment-passes-%s:%s:level%d" % ("validate" if v_ok else "validate_field", field, vlevel), repr(value))
    return dict(key=case[1:], nontrivial=True, failures=fails, sample=dict(field=field, value=repr(value), valid=valid, vlevel=vlevel, first_error_at=stage))


def aftergraphop_case(case):
    """lines made by a graph operation (the merged segment of a linear path, the copy made by multiply) obey the validation level of their
    Gfa like any other line: an invalid value assigned to them is reported at level 3 at once and at level 2 on writing"""
    _, op, seqs, vlevel = case
    fails = []
    lines = ["S\ta\t%s" % seqs[0], "S\tb\t%s" % seqs[1], "S\tc\t%s" % seqs[2], "L\ta\t+\tb\t+\t%s" % ("2M" if "*" not in seqs else "*"), "L\tb\t+\tc\t+\t%s" % ("2M" if "*" not in seqs else "*")]
    def fail(sig, what):
        fails.append(dict(signature="C18:after-%s:%s" % (op, sig), what=what, case=dict(lines=lines, op=op, vlevel=vlevel)))
    try:
        g = gfapy.Gfa(lines, vlevel=vlevel)
        if op == "merge":
            g.merge_linear_paths()
            new = [s_ for s_ in g.segments if "_" in s_.name]
        else:
            g.multiply("b", 2)
            new = [s_ for s_ in g.segments if "*" in s_.name]
        if not new:
            fail("no-new-line", str(g)); return dict(key=case, nontrivial=True, failures=fails)
        l = new[0]
        if l.vlevel != vlevel:
            fail("line-at-another-level", "level %d graph, the new line %s is at level %s" % (vlevel, l.name, l.vlevel))
        try:
            l.set("sequence", "AC GT")
            at_set = False
        except gfapy.Error:
            at_set = True
        if vlevel >= 3 and not at_set:
            fail("invalid-assignment-not-reported-at-set", str(l.name))
        if vlevel == 2 and not at_set:
            try:
                t = str(l)
                if "INVALID" not in t:
                    fail("invalid-assignment-written-at-level2", t)
            except gfapy.Error:
                pass
    except gfapy.Error as e:
        fail("raises-%s" % type(e).__name__, harness.short(e, 160))
    except Exception as e:
        fail("foreign-%s" % type(e).__name__, harness.short(e, 160))
    return dict(key=case, nontrivial=True, failures=fails, sample=dict(op=op, vlevel=vlevel))


def check(case):
    if case[0] == "aftergraphop":
        return aftergraphop_case(case)
    if case[0] == "assignpos":
        return assignpos_case(case)
    return doc_case(case) if case[0] == "doc" else assign_case(case)


def cases(tier, seed):
    rng = random.Random(seed)
    out = []
    for version in ("gfa1", "gfa2"):
        docs = list(universe.documents(version, 2 if tier == "quick" else 3))
        if tier == "quick":
            docs = rng.sample(docs, min(300, len(docs)))
        for ids in docs:
            out.append(("doc", version, universe.lines_of(version, ids)))
        seg = "S\tA\t*" if version == "gfa1" else "S\tA\t8\t*"
        for dt, vals in TAGPOOL.items():
            for v in vals:
                out.append(("doc", version, [seg + "\txx:%s:%s" % (dt, v)]))
                out.append(("doc", version, [seg, "H\txx:%s:%s" % (dt, v), "H\txx:%s:%s" % (dt, vals[0])]))
        for dt, (good, bad) in ASSIGN.items():
            for vlevel in (0, 1, 2, 3):
                for declared in (True, False):
                    for v in good:
                        out.append(("assign", version, dt, v, True, vlevel, declared))
                    for v in bad:
                        out.append(("assign", version, dt, v, False, vlevel, declared))
                for v in good:
                    out.append(("assign", version, dt, v, True, vlevel, False, True))
        for dt, v, valid in NEWTAG:
            for vlevel in (0, 1, 2, 3):
                out.append(("assign", version, dt, v, valid, vlevel, "new-tag"))
    for op in ("merge", "multiply"):
        for seqs in (("*", "*", "*"), ("ACGTAA", "AACCGG", "GGTTAA")):
            for vlevel in (0, 1, 2, 3):
                out.append(("aftergraphop", op, seqs, vlevel))
    for i, (_t, _v, _f, vals) in enumerate(_posvalues()):
        for j in range(len(vals)):
            for vlevel in (0, 1, 2, 3):
                out.append(("assignpos", i, j, vlevel))
    return out


if __name__ == "__main__":
    tier, seed = harness.args()
    cs = cases(tier, seed)
    res = harness.run(cs, check,
                      rule="(a) catalogue documents and every tag datatype x value pool at vlevel 0,1,2,3: acceptance monotone (accepted at k => accepted at k-1), same canonical content, same text; "
                           "(b) assignment programs: for every tag datatype, valid and invalid Python values are set on a declared / newly typed tag at each level, then written, validated and field-validated: "
                           "the same for decoded values assigned to positional fields (lists of alignments / oriented identifiers / identifiers, positions, lengths, names, sequences, alignments): a valid value is never rejected (also when a clone of the line was given a tag of that name with another kind of value first), and writes the same text; an invalid one is reported at set (level 3), at the latest at write (level 2), and by validate()/validate_field() at every level",
                      bound="single assignment per line; documents <=%d primary lines" % (2 if tier == "quick" else 3), exhaustive=False)
    harness.emit(res)
