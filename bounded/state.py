"""Observation of a real gfapy.Gfa for the bounded tier: registered lines, WF (closed + symmetric reference graph),
UNIQ (identifier namespace), full-state snapshot, and application of history steps."""
import gfapy


def registered(gfa):
    out = []
    for rt, coll in gfa._records.items():
        if rt == "H":
            continue
        if rt == "F":
            for sub in coll.values():
                out.extend(sub.values())
        elif isinstance(coll, dict):
            out.extend(coll.values())
    return out


def _lines_in(v):
    """Line objects inside a field value / list, with multiplicity"""
    out = []
    if isinstance(v, gfapy.Line):
        out.append(v)
    elif isinstance(v, gfapy.OrientedLine):
        if isinstance(v.line, gfapy.Line):
            out.append(v.line)
    elif isinstance(v, list):
        for e in v:
            out.extend(_lines_in(e))
    return out


def field_refs(x):
    out = []
    for fn in x.positional_fieldnames:
        v = x._data.get(fn)
        if not isinstance(v, str):
            out.extend(_lines_in(v))
    return out


def back_refs(x):
    out = []
    for k, lst in (x._refs or {}).items():
        out.extend(_lines_in(lst))
    return out


def ident(x):
    try:
        return str(x)
    except Exception as e:
        return "<%s unprintable: %s>" % (type(x).__name__, type(e).__name__)


def wf_errors(gfa):
    errs = []
    reg = registered(gfa)
    regids = {id(x) for x in reg}
    if len(regids) != len(reg):
        dup = [x for x in reg if sum(1 for y in reg if y is x) > 1]
        errs.append(("listed-twice", "line %s is listed more than once by the Gfa" % ident(dup[0])))
    for rt, coll in gfa._records.items():
        if rt in ("H", "F") or not isinstance(coll, dict):
            continue
        for key, x in coll.items():
            if isinstance(key, str):
                try:
                    nm = x.name
                except Exception:
                    nm = None
                if nm != key:
                    errs.append(("stale-identifier", "line %s is still found under the identifier %r" % (ident(x), key)))
    for x in reg:
        if x._gfa is not gfa:
            errs.append(("owner", "line %s listed by the Gfa reports another owner" % ident(x)))
        # found under its current identifier
        sk = x.__class__.STORAGE_KEY
        if sk == "name":
            nm = x.name
            if isinstance(nm, str) and not gfapy.is_placeholder(nm):
                if gfa._records[x.record_type].get(nm) is not x:
                    errs.append(("identifier", "line %s not found under its identifier %r" % (ident(x), nm)))
        for fn in getattr(x.__class__, "REFERENCE_FIELDS", []):
            v = x._data.get(fn)
            if isinstance(v, str) and x.record_type not in ("P",) and fn != "overlaps":
                errs.append(("dangling-name", "connected line %s holds a name instead of a reference in %s" % (ident(x), fn)))
        for k, lst in (x._refs or {}).items():
            for e in lst:
                if not (isinstance(e, gfapy.Line) or (isinstance(e, gfapy.OrientedLine) and isinstance(e.line, gfapy.Line))):
                    errs.append(("junk-back-reference", "%s lists %r (not a line) in its collection %s" % (ident(x), e, k)))
        for y in field_refs(x) + back_refs(x):
            if id(y) not in regids:
                errs.append(("closure:%s->%s" % (x.record_type, y.record_type), "%s reaches %s which is not a line of the Gfa (connected=%s)" % (ident(x), ident(y), y._gfa is not None)))
        fr = field_refs(x)
        for y in {id(y): y for y in fr}.values():
            need = sum(1 for z in fr if z is y)
            have = sum(1 for z in back_refs(y) if z is x)
            if x.record_type in ("P", "O", "U"):
                if have < 1:
                    errs.append(("symmetry", "%s references %s but is not among its back-references" % (ident(x), ident(y))))
            elif have != need:
                errs.append(("symmetry", "%s references %s %d time(s) but occurs %d time(s) in its back-references" % (ident(x), ident(y), need, have)))
        for y in {id(y): y for y in back_refs(x)}.values():
            if id(y) not in regids:
                continue
            if not any(z is x for z in field_refs(y)) and not any(z is x for z in back_refs(y)):
                errs.append(("symmetry", "%s lists %s as back-reference but %s does not reference it" % (ident(x), ident(y), ident(y))))
    return errs


def uniq_errors(gfa):
    errs = []
    seen = {}
    for x in registered(gfa):
        if x.record_type in ("S", "P", "E", "G", "O", "U", "L", "C"):
            nm = x.get("name") if x.record_type not in ("L", "C") else x._data.get("ID")
            try:
                nm = x.name
            except Exception:
                pass
            if isinstance(nm, str) and not gfapy.is_placeholder(nm):
                if nm in seen and seen[nm] is not x:
                    errs.append(("duplicate", "identifier %r carried by %s and %s" % (nm, ident(seen[nm]), ident(x))))
                seen[nm] = x
    for nm, x in seen.items():
        got = gfa.line(nm)
        if got is not x:
            errs.append(("lookup", "line(%r) returns %s instead of %s" % (nm, ident(got) if got is not None else None, ident(x))))
    names = gfa.names
    if len(names) != len(set(names)):
        errs.append(("names", "gfa.names has duplicates: %r" % (sorted(names),)))
    return errs


def snapshot(gfa):
    """observable state: written content (as a sorted multiset of lines), version, identifiers, and per line its reference
    targets and back-references (by written form)"""
    reg = registered(gfa)
    per = []
    for x in reg:
        per.append((ident(x), x.virtual, tuple(sorted(ident(y) for y in field_refs(x))),
                    tuple(sorted((k, tuple(ident(y) for y in _lines_in(v))) for k, v in (x._refs or {}).items() if v))))
    try:
        text = tuple(sorted(str(gfa).split("\n")))
    except Exception as e:
        text = ("<unprintable %s>" % type(e).__name__,)
    # the declared datatype of tags is observable (get_datatype; it decides how a later value of that tag is written): recorded for the
    # header and for every line, for the tags they carry and for a few probe names that failing operations use
    probes = ("nn", "xx", "zz", "ab", "TS", "VN")
    def dts(x):
        try:
            names = set(x.tagnames) | {p for p in probes if p in getattr(x, "_datatype", {})}
            return tuple(sorted((t, str(x._datatype.get(t))) for t in names if t in x._datatype))
        except Exception:
            return ()
    datatypes = tuple(sorted((ident(x), dts(x)) for x in reg + [gfa.header] if dts(x)))
    return dict(text=text, version=gfa.version, names=tuple(sorted(map(str, gfa.names))), lines=tuple(sorted(per)), datatypes=datatypes)


def snap_diff(a, b):
    out = []
    for k in ("version", "names", "text", "lines", "datatypes"):
        if a.get(k) != b.get(k):
            if k in ("text", "lines", "names", "datatypes"):
                sa, sb = set(a[k]), set(b[k])
                out.append("%s: -%s +%s" % (k, sorted(map(str, sa - sb))[:4], sorted(map(str, sb - sa))[:4]))
            else:
                out.append("%s: %r -> %r" % (k, a[k], b[k]))
    return out


def apply_step(gfa, step):
    op = step[0]
    if op == "rm":
        gfa.rm(step[1])
    elif op == "rm_line":          # remove an anonymous line identified by its written form
        from bounded import histories
        for x in registered(gfa):
            if histories.same_line(str(x), step[1], gfa.version):
                x.disconnect()
                return
        raise KeyError(step[1])
    elif op == "rename":
        gfa.line(step[1]).name = step[2]
    elif op == "add":
        gfa.add_line(step[1])
    elif op == "settag":
        gfa.line(step[1]).set(step[2], step[3])
    elif op == "deltag":
        gfa.line(step[1]).delete(step[2])
    else:
        raise ValueError(step)


def canon_ident(text, version):
    from bounded import oracle
    try:
        r = oracle.tokenize(text, version)
        if r.rt == "L" and version == "gfa1":
            r.pos = oracle.link_canon(r.pos)
        if r.rt == "U":
            r.pos[1] = " ".join(sorted(r.pos[1].split(" ")))
        return str(r.key())
    except Exception:
        return text


def canon_snapshot(gfa):
    """order-insensitive observation: version, identifier namespace, canonical content, and per line the multiset of its
    reference targets and the SET of lines in each back-reference collection"""
    from bounded import oracle
    v = gfa.version
    per = []
    def oriented(e):
        """a back-reference entry with its orientation, the orientation being taken relative to the canonical spelling of a link"""
        if isinstance(e, gfapy.OrientedLine) and isinstance(e.line, gfapy.Line):
            o = e.orient
            t = ident(e.line)
            if v == "gfa1" and e.line.record_type == "L":
                f = t.split("\t")
                if oracle.link_canon(f[1:6]) != f[1:6]:
                    o = oracle.inv(o)
            return canon_ident(t, v) + o
        if isinstance(e, gfapy.Line):
            return canon_ident(ident(e), v)
        return None
    for x in registered(gfa):
        cid = canon_ident(ident(x), v)
        per.append((cid, x.virtual, tuple(sorted(canon_ident(ident(y), v) for y in field_refs(x))),
                    tuple(sorted((k, tuple(sorted(filter(None, (oriented(e) for e in lst))))) for k, lst in (x._refs or {}).items() if lst))))
    _, content = oracle.view(str(gfa), v)
    return dict(version=v, names=tuple(sorted(map(str, gfa.names))), content=tuple(sorted(map(str, content.elements()))), lines=tuple(sorted(per)))
