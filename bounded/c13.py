"""C13 bounded stand-in: the version is a function of the SET of line kinds (and of the explicit parameter), whatever the
order; mixed documents raise VersionError; queued lines are added exactly once."""
import itertools, random
from bounded import harness
import gfapy

KIND = {
    "Hn": "H\txx:i:1", "H1": "H\tVN:Z:1.0", "H2": "H\tVN:Z:2.0", "H3": "H\tVN:Z:3.0", "H11": "H\tVN:Z:1.1", "H21": "H\tVN:Z:2.10",
    "S1": "S\tA\t*", "S2": "S\tB\t8\t*", "S1b": "S\tC\tACGT\tLN:i:4", "S2b": "S\tD\t4\tACGT",
    "L": "L\tA\t+\tA\t-\t*", "C": "C\tA\t+\tC\t+\t0\t*", "P": "P\tp\tA+\t*",
    "E": "E\t*\tB+\tB-\t0\t2\t0\t2\t*", "G": "G\t*\tB+\tD-\t1\t*", "F": "F\tB\tx+\t0\t2\t0\t2\t*", "O": "O\to\tB+", "U": "U\tu\tB",
    "K": "# comment",
    # custom records (GFA2 only): a one-letter type, and types spelled with the letters of GFA1 record types
    "X": "X\tq\t1", "CP": "CP\tsample1\t42\txx:Z:meta", "LC": "LC\tz",
    # segments whose syntax has to be told from the fields before the tags: tags of every datatype (the syntax is inferred by counting the fields that do not look like tags)
    "S1t": "S\tT\tACGT\tLN:i:4\tab:Z:s\tcd:J:[1]\tef:H:0A\tgh:B:c,1,-2\tij:A:x\tkl:f:0.5", "S2t": "S\tW\t4\tACGT\tab:Z:s\tcd:J:[1]\tef:H:0A\tgh:B:f,1.5\tij:A:x\tkl:f:0.5",
}
V1 = {"H1", "S1", "S1b", "S1t", "L", "C", "P"}
V2 = {"H2", "S2", "S2b", "S2t", "E", "G", "F", "O", "U", "X", "CP", "LC"}


def oracle(kinds, explicit, dialect=None):
    ev1 = bool(set(kinds) & V1) or explicit == "gfa1" or dialect == "rgfa"            # rGFA is a dialect of GFA1
    ev2 = bool(set(kinds) & V2) or explicit == "gfa2"
    if "H3" in kinds or "H11" in kinds or "H21" in kinds or (ev1 and ev2):          # only VN 1.0 and 2.0 name a version gfapy knows
        return "VersionError"
    if ev1:
        return "gfa1"
    if ev2:
        return "gfa2"
    return None          # version-neutral document: not pinned


def build(lines, explicit, entry, dialect=None):
    kw = dict(dialect=dialect) if dialect else {}
    return _build(lines, explicit, entry, kw)


def _build(lines, explicit, entry, kw):
    if entry == "add0":
        # validation switched off: mixing versions is still refused with VersionError (the version rules are not a validation level)
        g = gfapy.Gfa(version=explicit, vlevel=0, **kw) if explicit else gfapy.Gfa(vlevel=0, **kw)
        for l in lines:
            g.add_line(l)
        g.process_line_queue()
        return g
    if entry == "init":
        g = gfapy.Gfa(lines, version=explicit, vlevel=1, **kw) if explicit else gfapy.Gfa(lines, vlevel=1, **kw)
    elif entry == "objects":
        g = gfapy.Gfa(version=explicit, vlevel=1, **kw) if explicit else gfapy.Gfa(vlevel=1, **kw)
        for l in lines:
            g.add_line(gfapy.Line(l))               # the line arrives as a gfapy.Line instance (its class was chosen from the text alone)
        g.process_line_queue()
    elif entry == "file":
        import tempfile, os
        fd, path = tempfile.mkstemp(suffix=".gfa")
        try:
            with os.fdopen(fd, "w") as fh:
                fh.write("\n".join(lines) + "\n")
            g = gfapy.Gfa.from_file(path, version=explicit, vlevel=1, **kw) if explicit else gfapy.Gfa.from_file(path, vlevel=1, **kw)
        finally:
            os.unlink(path)
    else:
        g = gfapy.Gfa(version=explicit, vlevel=1, **kw) if explicit else gfapy.Gfa(vlevel=1, **kw)
        for l in lines:
            g.add_line(l)
        g.process_line_queue()
    return g


def check(case):
    kinds, explicit = case[:2]
    dialect = case[2] if len(case) > 2 else None
    want = oracle(kinds, explicit, dialect)
    fails = []
    outcomes = {}
    for perm in itertools.permutations(kinds):
        lines = [KIND[k] for k in perm]
        for entry in ("add", "init", "file", "objects", "add0"):
            try:
                g = build(lines, explicit, entry, dialect)
                out = g.version
                n = len([l for l in g.lines if not l.virtual])
                nh = sum(1 for k in perm if k.startswith("H"))
                if n != len(perm) and not (nh and n == len(perm)):
                    fails.append(dict(signature="C13:line-count", what="%d lines given, %d in the Gfa: %r" % (len(perm), n, lines), case=dict(lines=lines, explicit=explicit)))
            except gfapy.VersionError:
                out = "VersionError"
            except gfapy.Error as e:
                out = "Error:" + type(e).__name__
                if entry != "add" or dialect:
                    continue          # (the rules of the rGFA dialect about tags and headers are not statements about the version;) Gfa(list) / from_file also validate the references of the document: not a statement about the version
            except Exception as e:
                out = "Foreign:" + type(e).__name__
            # (a version-neutral document: which version is assumed is not pinned, but it is the same through every entry point)
            outcomes.setdefault(out, lines)
    if len(outcomes) > 1:
        fails.append(dict(signature="C13:order-dependent:%s" % "/".join(sorted(map(str, outcomes))), what=str({k: v for k, v in outcomes.items()})[:600], case=dict(kinds=list(kinds), explicit=explicit),
                          reproducer="import gfapy\nfor lines in %r:\n    try:\n        g = gfapy.Gfa(vlevel=1)\n        [g.add_line(l) for l in lines]; g.process_line_queue(); print(g.version)\n    except Exception as e: print(type(e).__name__)" % (list(outcomes.values()),)))
    elif want is not None:
        got = next(iter(outcomes))
        if got != want:
            fails.append(dict(signature="C13:wrong-outcome:want-%s:got-%s" % (want, got), what="%r explicit=%s -> %s" % (kinds, explicit, got), case=dict(kinds=list(kinds), explicit=explicit, lines=next(iter(outcomes.values())))))
    return dict(key=(tuple(sorted(kinds)), explicit, dialect), nontrivial=want is not None, failures=fails, sample=dict(kinds=list(kinds), explicit=explicit, oracle=want, outcomes=list(outcomes)))


def cases(tier, seed):
    out = []
    kinds = list(KIND)
    maxk = 3 if tier == "quick" else 4
    for k in range(1, maxk + 1):
        for c in itertools.combinations(kinds, k):
            for explicit in (None, "gfa1", "gfa2"):
                out.append((c, explicit))
                if k <= 2:
                    out.append((c, explicit, "rgfa"))
    for explicit in (None, "gfa1", "gfa2"):
        out.append(((), explicit)); out.append(((), explicit, "rgfa"))           # the empty document
    return out


if __name__ == "__main__":
    tier, seed = harness.args()
    cs = cases(tier, seed)
    res = harness.run(cs, check,
                      rule="every set of <=%d of the %d line kinds (headers without/with VN 1.0/2.0/3.0/1.1/2.10, GFA1/GFA2 segment syntax without tags and with tags of every datatype, L C P, E G F O U, comment) x explicit version None/gfa1/gfa2, "
                           "in ALL orders of its lines (added one by one, then process_line_queue); oracle: version = function of the set of kinds, VersionError iff GFA1 and GFA2 evidence are mixed or the VN is unknown; "
                           "the same with dialect='rgfa' for sets of <=2 kinds (GFA2 evidence -> VersionError, at level 0 too) and for the empty document; every order and every entry point (add_line of strings one by one, of gfapy.Line instances one by one, Gfa(list), Gfa.from_file) must give the same outcome; every line is in the Gfa exactly once. one evaluation = one set with all its orders" % (3 if tier == "quick" else 4, len(KIND)),
                      bound="sets of <=%d kinds, all permutations" % (3 if tier == "quick" else 4), exhaustive=True)
    harness.emit(res)
