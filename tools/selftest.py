#!/usr/bin/env python3
"""tools/selftest.py [-j N] — self-test of the deductive tier: every entry below is a deliberately broken body of a function under
contract (one textual replacement in a scratch copy of /repo/gfapy).  Each must be REFUTED by the named contract (a VIOLATION line of
that contract, exit 1) while the unchanged tree verifies.  A mutant that survives means the contract (or the engine) is too weak:
the script exits 1 and names it.  Nothing is written under /verif/evidence (VERIF_EVIDENCE_DIR is redirected).

Run by hand after engine changes:  python3 tools/selftest.py
"""
import os, shutil, subprocess, sys, tempfile
from concurrent.futures import ThreadPoolExecutor

REPO = os.environ.get("VERIF_REPO", "/repo")
VERIF = os.path.dirname(os.path.dirname(os.path.abspath(__file__)))

# (property, contract id (substring for --only), file under gfapy/, old text, new text)
MUTANTS = [
    ("C15", "MultiplyOrchestration", "graph_operations/multiplication.py", "self.__divide_segment_and_connection_counts(s, factor)", "self.__divide_segment_and_connection_counts(s, factor - 1)"),
    ("C15", "MultiplyOrchestration", "graph_operations/multiplication.py", "        if len(copy_names) != factor - 1:", "        if len(copy_names) > factor - 1:"),
    ("C15", "DivideCounts", "graph_operations/multiplication.py", "gfa_line.get(count_tag) // factor", "gfa_line.get(count_tag) // (factor - 1)"),
    ("C15", "DivideCounts", "graph_operations/multiplication.py", 'for count_tag in ["KC", "RC", "FC"]:', 'for count_tag in ["KC", "RC"]:'),
    ("C15", "ComputeCopyNames", "graph_operations/multiplication.py", "      while name in self.names or self.line(name) is not None or \\\n          name in reserved:", "      while name in self.names or \\\n          name in reserved:"),
    ("C15", "ComputeCopyNames", "graph_operations/multiplication.py", "    for i in range(first,factor+first-1):", "    for i in range(first,factor+first):"),
    ("C15", "AutoSelectDistributeEnd", "graph_operations/multiplication.py", "    elif esize < 2:\n      if bsize < 2:", "    elif esize < 2:\n      if bsize < 3:"),
    ("C13", "SegmentSyntaxFromFields", "line/segment/segment.py", "      n_positionals = i-1", "      n_positionals = i"),
    ("C13", "SegmentSyntaxFromFields", "line/segment/segment.py", 'r"^..:.:.*$"', 'r"^..:[AifZJH]:.*$"'),
    ("C13", "SegmentSyntaxFromFields", "line/segment/segment.py", "    if n_positionals == 2:", "    if n_positionals <= 2:"),
    ("C04", "ValidateInterval", "line/edge/gfa2/validation.py", "  if gfapy.posvalue(begpos) > gfapy.posvalue(endpos):", "  if gfapy.posvalue(begpos) >= gfapy.posvalue(endpos):"),
    ("C04", "ValidateIntervals_F", "line/fragment/validation.py", '    for pfx in ["s_", "f_"]:', '    for pfx in ["s_"]:'),
    ("C04", "Field_integer_validate_encoded", "field/integer.py", r'"^[-+]?[0-9]+\Z"', r'"^[-+]?[0-9]+$"'),
    ("C18", "Field_identifier_list_gfa2_validate_decoded", "field/identifier_list_gfa2.py", "    if len(obj) == 0:\n      raise gfapy.ValueError(\"the list of identifiers is empty\")\n", ""),
    ("C18", "Field_identifier_list_gfa2_validate_decoded", "field/identifier_list_gfa2.py", '      if not re.match(r"^[!-~]+\\Z", elem):\n        raise gfapy.FormatError(\n        "the list contains', '      if not re.match(r"^[ -~]+\\Z", elem):\n        raise gfapy.FormatError(\n        "the list contains'),
    ("C15", "DivideSegmentAndConnectionCounts", "graph_operations/multiplication.py", "          processed_circulars.append(l)\n", ""),
    ("C15", "DivideSegmentAndConnectionCounts", "graph_operations/multiplication.py", "      else:\n        self.__divide_counts(l, factor)\n\n  def __clone", "      else:\n        pass\n\n  def __clone"),
    ("C15", "DivideSegmentAndConnectionCounts", "graph_operations/multiplication.py", "        if not any(l is p for p in processed_circulars):", "        if any(l is p for p in processed_circulars):"),
    ("C15", "CloneSegmentAndConnections", "graph_operations/multiplication.py", "      processed.append(l)\n", ""),
    ("C15", "CloneSegmentAndConnections", "graph_operations/multiplication.py", "      if lc.to_segment == segment.name:\n        lc.to_segment = clone_name\n", ""),
    ("C15", "CloneSegmentAndConnections", "graph_operations/multiplication.py", "        lc.name = self._compute_copy_names(lc.name, 2, reserved)[0]\n", "        pass\n"),
    ("C15", "DistributeLinks", "graph_operations/multiplication.py", "      to_keep = links_signatures[i:i+diff+1]", "      to_keep = links_signatures[i:i+diff]"),
    ("C15", "DistributeLinks", "graph_operations/multiplication.py", "        if l_sig not in to_keep and l.is_connected():", "        if l_sig in to_keep and l.is_connected():"),
    ("C15", "DistributeLinks", "graph_operations/multiplication.py", "    diff = max([len(et_links)-factor, 0])", "    diff = max([len(et_links)-factor+1, 0])"),
    ("C15", "DistributeLinks", "graph_operations/multiplication.py", "      to_keep = links_signatures[i:i+diff+1]", "      to_keep = links_signatures[i+1:i+diff+1]"),
    ("C15", "DistributeLinks", "graph_operations/multiplication.py", "    if factor < 2:\n      return\n    end_type", "    if factor < 3:\n      return\n    end_type"),
    ("C13", "AddLineUnknownVersion", "lines/creators.py", '      self._check_version_allowed_by_dialect(gfa_line.version)\n', ''),
    ("C10", "ConversionRestores_to_gfa2_s", "gfa.py", '        return "\\n".join(lines)\n      finally:\n        self._take_back_assigned_ids(*unnamed)', '        self._take_back_assigned_ids(*unnamed)\n        return "\\n".join(lines)\n      finally:\n        pass'),
    ("C10", "ConversionRestores_to_gfa2", "gfa.py", "          gfa2.add_line(line.to_gfa2(raise_on_failure=False))\n      finally:\n        self._take_back_assigned_ids(*unnamed)", "          gfa2.add_line(line.to_gfa2(raise_on_failure=False))\n      finally:\n        self._take_back_assigned_ids(unnamed[0], self._max_int_name, unnamed[2])"),
    ("C02", "UnregisterLine", "lines/destructors.py", "      if not collection:\n        self._records[rt].pop(subkey)", "      if collection:\n        self._records[rt].pop(subkey)"),
    ("C02", "UnregisterLine", "lines/destructors.py", "      if gfapy.is_placeholder(name):\n        name = id(gfa_line)\n      collection.pop(name)", "      collection.pop(name)"),
    ("C02", "UnregisterLine", "lines/destructors.py", "    else:\n      collection.pop(id(gfa_line))", "    else:\n      collection.pop(gfa_line.name)"),
    ("C09", "RegisterLine", "lines/creators.py", "      elif key.isascii() and key.isdigit() and len(key) <= 1000:", "      elif key.isdigit() and len(key) <= 1000:"),
    ("C09", "RegisterLine", "lines/creators.py", "        if keynum > self._max_int_name:", "        if keynum < self._max_int_name:"),
    ("C08", "RegisterLine", "lines/creators.py", "    if self._new_virtual_lines is not None and gfa_line.virtual:", "    if self._new_virtual_lines is not None:"),
    ("C02", "RegisterLine", "lines/creators.py", "        self._records[gfa_line.record_type] = {}\n      self._records[gfa_line.record_type][id(gfa_line)] = gfa_line", "        self._records[gfa_line.record_type] = {}\n      self._records[gfa_line.record_type][gfa_line.name] = gfa_line"),
    ("C09", "ValidateNoReferenceToOwnName", "line/common/connection.py", "        if isinstance(ref, gfapy.Line):\n          ref = ref.name\n        if ref == name:", "        if ref == name:"),
    ("C09", "ValidateNoReferenceToOwnName", "line/common/connection.py", "    if gfapy.is_placeholder(name):\n      return\n    if not isinstance(name, str):", "    if not isinstance(name, str):"),
    ("C09", "ValidateNoReferenceToOwnName", "line/common/connection.py", "      for ref in (value if isinstance(value, list) else [value]):\n        if isinstance(ref, gfapy.OrientedLine):\n          ref = ref.line", "      for ref in (value[1:] if isinstance(value, list) else [value]):\n        if isinstance(ref, gfapy.OrientedLine):\n          ref = ref.line"),
    ("C13", "ProcessLineQueue", "lines/creators.py", "    for i in range(0,len(self._line_queue)):", "    for i in range(1,len(self._line_queue)):"),
    ("C13", "ProcessLineQueue", "lines/creators.py", "      self.add_line(self._line_queue[i])\n    self._line_queue = []", "      self.add_line(self._line_queue[i])"),
    ("C13", "ProcessLineQueue", "lines/creators.py", "    if self._version is None:\n      self._version = self._version_guess\n    for i in range(0,len(self._line_queue)):\n      self.add_line(self._line_queue[i])", "    for i in range(0,len(self._line_queue)):\n      self.add_line(self._line_queue[i])\n    if self._version is None:\n      self._version = self._version_guess"),
    ("C13", "ProcessLineQueue", "lines/creators.py", "      self.add_line(self._line_queue[i])\n    self._line_queue = []", "      self.add_line(self._line_queue[0])\n    self._line_queue = []"),
    ("C06", "CheckGfa1PathSteps", "line/group/ordered/to_gfa1.py", '      elif oedge.orient == "+":', '      elif oedge.orient == "-":'),
    ("C06", "CheckGfa1PathSteps", "line/group/ordered/to_gfa1.py", "      if not edge.is_dovetail():\n        ok = False\n      elif", "      if False:\n        ok = False\n      elif"),
    ("C06", "CheckGfa1PathSteps", "line/group/ordered/to_gfa1.py", "    for i in range(1, len(cp)-1, 2):", "    for i in range(3, len(cp)-1, 2):"),
    ("C06", "CheckGfa1PathSteps", "line/group/ordered/to_gfa1.py", "              edge.oriented_to == prev.inverted())", "              edge.oriented_to == nxt.inverted())"),
    ("C05", "RemoveNonfieldBackreferences", "line/common/disconnection.py", "          # cannot be written, it goes with the line (and so do its dependants)\n          ref.disconnect()", "          pass"),
    ("C05", "RemoveNonfieldBackreferences", "line/common/disconnection.py", "            not ref.items:", "            ref.items:"),
    ("C05", "RemoveNonfieldBackreferences", "line/common/disconnection.py", "        self._remove_backreference(ref, k)\n        if isinstance(ref, gfapy.line.group.Group)", "        if isinstance(ref, gfapy.line.group.Group)"),
    ("C05", "RemoveNonfieldBackreferences", "line/common/disconnection.py", "        if isinstance(ref, gfapy.line.group.Group) and ref.is_connected() and \\", "        if isinstance(ref, gfapy.line.group.Group) and \\"),
    ("C12", "SearchLink", "lines/finders.py", "          l.is_compatible(orseg1, orseg2, cigar, True):\n        return l", "          l.is_compatible(orseg1, orseg2, cigar, False):\n        return l"),
    ("C12", "SearchLink", "lines/finders.py", "      if isinstance(l, gfapy.line.edge.Link) and \\\n          l.is_compatible(orseg1, orseg2, cigar, True):\n        return l\n    return None", "      if isinstance(l, gfapy.line.edge.Link) and \\\n          l.is_compatible(orseg1, orseg2, cigar, True):\n        found = l\n    return None"),
    ("C12", "SearchLink", "lines/finders.py", "      if isinstance(l, gfapy.line.edge.Link) and \\\n          l.is_compatible(orseg1, orseg2, cigar, True):", "      if not isinstance(l, gfapy.line.edge.Link) or \\\n          l.is_compatible(orseg1, orseg2, cigar, True):"),
    ("C08", "SetExistingField", "line/common/field_data.py", "      if value is not None and not isinstance(value, str) and \\\n          not gfapy.is_placeholder(value):\n        raise gfapy.TypeError(", "      if False:\n        raise gfapy.TypeError("),
    ("C09", "SetExistingField", "line/common/field_data.py", '          self.record_type in ["E", "G", "O", "U"] and \\', '          self.record_type in ["E", "G"] and \\'),
    ("C05", "DependentLinesTables", "line/group/ordered/ordered.py", 'DEPENDENT_LINES = ["paths", "sets"]', 'DEPENDENT_LINES = ["paths"]'),
    ("C05", "DependentLinesTables", "line/edge/gfa2/gfa2.py", 'DEPENDENT_LINES = ["paths", "sets"]', 'DEPENDENT_LINES = ["sets"]'),
    ("C12", "PathInitializeLinks", "line/group/path/references.py", "            not l.is_compatible_direct(from_segment, to_segment, cigar):", "            True:"),
    ("C12", "IsReplacedByComplement", "line/common/update_references.py", "      return not oldref.is_same(newref)", "      return True"),
    ("C09", "Gfa1EdgesWithoutId", "gfa.py", "    return ([l for l in self.dovetails + self.containments \\", "    return ([l for l in self.dovetails \\"),
    ("C10", "Gfa1EdgesWithoutId", "gfa.py", '            {rt: dict(self._records[rt]) for rt in ["L", "C"]})', '            {rt: self._records[rt] for rt in ["L", "C"]})'),
    ("C10", "Gfa1EdgesWithoutId", "gfa.py", '               if l.get("ID") is None], self._max_int_name,', '               if l.get("ID") is not None], self._max_int_name,'),
    ("C10", "TakeBackAssignedIds", "gfa.py", "    self._max_int_name = max_int_name", "    pass"),
    ("C10", "TakeBackAssignedIds", "gfa.py", "    for rt in records:\n      self._records[rt] = records[rt]", "    for rt in records:\n      self._records[rt] = records[\"L\"]"),
    ("C10", "TakeBackAssignedIds", "gfa.py", '      if l.is_connected() and l.get("ID") is not None:', '      if l.get("ID") is not None:'),
    ("C18", "SetField", "line/common/field_data.py", "        if self.vlevel >= 3:\n          gfapy.Field._validate_gfa_field(value, datatype, fieldname)\n        self._datatype[fieldname] = datatype", "        self._datatype[fieldname] = datatype"),
    ("C17", "FindEdgeFromPathToSegment", "line/group/ordered/captured_path.py", "      if any(e.line is edge for e in edges):\n        # (an edge of the segment with itself is listed once per end)\n        continue\n", ""),
    ("C17", "FindEdgeFromPathToSegment", "line/group/ordered/captured_path.py", "    elif len(edges) > 1:\n      raise gfapy.NotUniqueError(", "    elif len(edges) > 2:\n      raise gfapy.NotUniqueError("),
    ("C17", "FindEdgeFromPathToSegment", "line/group/ordered/captured_path.py", '        edges.append(gfapy.OrientedLine(edge, "-"))', '        edges.append(gfapy.OrientedLine(edge, "+"))'),
    ("C13", "AddLineVersion_gfa1", "lines/creators.py", '      if gfa_line.VN and gfa_line.VN != "1.0":', '      if gfa_line.VN and not gfa_line.VN.startswith("1."):'),
    ("C13", "AddLineVersion_gfa2", "lines/creators.py", '      if gfa_line.version == "gfa1":\n        raise gfapy.VersionError(', '      if False:\n        raise gfapy.VersionError('),
    ("C13", "AddLineUnknownVersion", "lines/creators.py", '      if gfa_line.VN and gfa_line.VN not in ["1.0", "2.0"]:', '      if self._vlevel > 0 and gfa_line.VN and gfa_line.VN not in ["1.0", "2.0"]:'),
    ("C16", "Topology_n_dead_ends", "graph_operations/topology.py", "      if not s.dovetails_R: n+=1", "      if s.dovetails_R: n+=1"),
    ("C16", "Topology_n_containments", "graph_operations/topology.py", "      n += len(s.edges_to_containers)", "      n += len(s.edges_to_contained)"),
    ("C16", "Topology_n_dovetails", "graph_operations/topology.py", "      n += len(s.dovetails_R)\n    return n // 2", "      n += len(s.dovetails_R)\n    return n"),
    ("C20", "SetField", "line/common/field_data.py", "        self._datatype[fieldname] = datatype\n", ""),
    ("C20", "SetField", "line/common/field_data.py", "    elif (self.vlevel == 0) or self._is_valid_custom_tagname(fieldname):", "    elif (self.vlevel <= 1) or self._is_valid_custom_tagname(fieldname):"),
    ("C20", "SetExistingField", "line/common/field_data.py", "        if fieldname not in self.positional_fieldnames:\n", "        if fieldname in self.positional_fieldnames:\n"),
    ("C20", "DefaultTagDatatypeTable", "field/field.py", '    (builtins.dict , "J"),\n', '    (builtins.dict , "Z"),\n'),
    ("C18", "FieldToS", "line/common/writer.py", "    if self.vlevel >= 2:\n      gfapy.Field._validate_gfa_field(v, t, fieldname)", "    elif self.vlevel >= 2:\n      gfapy.Field._validate_gfa_field(v, t, fieldname)"),
    ("C12", "Link_is_compatible_complement", "line/edge/link/equivalence.py", "            (not self.overlap or not other_overlap or\n            (self.overlap == other_overlap.complement()))))", "            (not other_overlap or\n            (self.overlap == other_overlap.complement()))))"),
    ("C12", "Link_is_complement", "line/edge/link/equivalence.py", "            self.overlap == other.overlap.complement())", "            self.overlap == other.overlap)"),
    ("C17", "SameIDImportTags", "line/group/gfa2/same_id.py", "        self.set_datatype(tag, previous.get_datatype(tag))\n", ""),
    ("C17", "SameIDCheckTags", "line/group/gfa2/same_id.py", "      if cur is not None and cur != prv:\n        raise gfapy.NotUniqueError(\n          \"Same tag defined differently in \"+\n          \"multiple group lines with same ID\\n\"+\n          \"Previous tag definition: {}\\n\".format(prv)+\n          \"New tag definition: {}\\n\".format(cur)+\n          \"Group ID: {}\".format(self.name))\n\n  def _import",
     "      if cur and cur != prv:\n        raise gfapy.NotUniqueError(\n          \"Same tag defined differently in \"+\n          \"multiple group lines with same ID\\n\"+\n          \"Previous tag definition: {}\\n\".format(prv)+\n          \"New tag definition: {}\\n\".format(cur)+\n          \"Group ID: {}\".format(self.name))\n\n  def _import"),
    ("C09", "SubstituteVirtualLine", "line/common/virtual_to_real.py", "    previous._gfa = None\n", ""),
    ("C09", "SubstituteVirtualLine", "line/common/virtual_to_real.py", "    self._gfa._unregister_line(previous)\n    self._gfa._register_line(self)\n", "    self._gfa._register_line(self)\n    self._gfa._unregister_line(previous)\n"),
    ("C19", "CloneCopiesEveryMutableValue", "line/common/cloning.py", "                         dialect = self._dialect)", "                         dialect = \"standard\")"),
    ("C19", "CloneCopiesEveryMutableValue", "line/common/cloning.py", "    cpy._datatype = self._datatype.copy()", "    cpy._datatype = self._datatype"),
    ("C19", "LineEq", "line/common/equivalence.py", "      if self._data[k] != v:\n        if self.field_to_s(k) != o.field_to_s(k):", "      if self._data[k] != v:\n        if k not in self.__class__.REFERENCE_FIELDS or self.field_to_s(k) != o.field_to_s(k):"),
    ("C10", "CigarComplement", "alignment/cigar.py", "    comp = [CIGAR.Operation(op.length, op.code) for op in reversed(self)]", "    comp = [op for op in reversed(self)]"),
    ("C12", "CigarComplement", "alignment/cigar.py", '      elif op.code == "D": op.code = "I"', '      elif op.code == "D": op.code = "D"'),
    ("C11", "SubstringType", "line/edge/gfa2/alignment_type.py", "    if gfapy.isfirstpos(begpos):\n      if gfapy.isfirstpos(endpos):\n        return (\"pfx\", True)", "    if gfapy.isfirstpos(begpos):\n      if gfapy.isfirstpos(endpos):\n        return (\"sfx\", True)"),
    ("C06", "LinkFromCoords", "line/edge/gfa1/to_gfa2.py", "    line = getattr(self, field)", "    line = self.to_segment"),
    ("C01", "WriterToList", "line/common/writer.py", "    for fn in self.tagnames:", "    for fn in self.tagnames[1:]:"),
    ("C11", "OtherOrientedSegment", "line/edge/gfa1/other.py", "    if (self.oriented_from == oriented_segment):\n      return self.oriented_to", "    if (self.oriented_from == oriented_segment):\n      return self.oriented_from"),
    ("C11", "OtherOrientedSegment", "line/edge/gfa1/other.py", "    elif (self.oriented_to == oriented_segment):\n      return self.oriented_from\n    elif tolerant:", "    elif tolerant:"),
    ("C12", "OtherOrientedSegment", "line/edge/gfa1/other.py", "    elif (self.oriented_to == oriented_segment):\n      return self.oriented_from\n    elif tolerant:\n      return None", "    elif (self.oriented_to == oriented_segment):\n      return self.oriented_from\n    elif not tolerant:\n      return None"),
    ("C12", "Canonicize", "line/edge/link/canonical.py", "    if not self.is_canonical():\n      return self.complement()", "    if self.is_canonical():\n      return self.complement()"),
    ("C06", "ContainmentRpos", "line/edge/containment/pos.py", "    return self.pos + self.overlap.length_on_reference()", "    return self.pos + self.overlap.length_on_reference() - 1"),
    ("C06", "ContainmentRpos", "line/edge/containment/pos.py", "    if isinstance(self.overlap, gfapy.Placeholder):", "    if isinstance(self.overlap, gfapy.CIGAR):"),
]


def run(m):
    pid, cid, path, old, new = m
    W = tempfile.mkdtemp(prefix="/tmp/selftest.")
    try:
        shutil.copytree(os.path.join(REPO, "gfapy"), os.path.join(W, "gfapy"))
        p = os.path.join(W, "gfapy", path)
        s = open(p).read()
        if s.count(old) != 1:
            return (m, "STALE", "the text to replace occurs %d times" % s.count(old))
        open(p, "w").write(s.replace(old, new))
        env = dict(os.environ, VERIF_REPO=W, VERIF_EVIDENCE_DIR=os.path.join(W, "ev"))
        r = subprocess.run(["./check", pid, "--only", cid, "--no-bounded"], cwd=VERIF, env=env, capture_output=True, text=True)
        lines = [l for l in r.stdout.splitlines() if l.startswith("VIOLATION") and cid in l]
        if r.returncode == 1 and lines:
            return (m, "refuted", lines[0][:160])
        return (m, "SURVIVED", "exit %d; %s" % (r.returncode, [l for l in r.stdout.splitlines() if l.startswith(("SUMMARY", "UNDECIDED", "CHECKER"))][:2]))
    finally:
        shutil.rmtree(W, ignore_errors=True)


def main():
    jobs = int(sys.argv[sys.argv.index("-j") + 1]) if "-j" in sys.argv else 6
    with ThreadPoolExecutor(jobs) as ex:
        res = list(ex.map(run, MUTANTS))
    bad = 0
    for (pid, cid, path, old, new), verdict, info in res:
        print("%-9s %s %-34s %s :: %s" % (verdict, pid, cid, path, info))
        if verdict != "refuted":
            bad += 1
    print("selftest: %d broken bodies, %d refuted by their contract, %d not" % (len(res), len(res) - bad, bad))
    return 1 if bad else 0


if __name__ == "__main__":
    sys.exit(main())
