#!/bin/bash
# tools/try_seed.sh <patch.diff> [property ids...]   (default: all 20)
# applies the patch to a scratch copy of /repo (outside /repo and /verif), runs the quick checks against it, removes the copy
set -u
PATCH=$(readlink -f "$1"); shift
PROPS="${@:-C01 C02 C03 C04 C05 C06 C07 C08 C09 C10 C11 C12 C13 C14 C15 C16 C17 C18 C19 C20}"
D=$(mktemp -d /tmp/seedrun.XXXXXX)
mkdir -p "$D/repo" && cp -r /repo/gfapy "$D/repo/" && (cd "$D/repo" && patch -p1 -s < "$PATCH") || { echo "patch failed"; rm -rf "$D"; exit 3; }
cd /verif
for p in $PROPS; do
  out=$(VERIF_REPO="$D/repo" VERIF_EVIDENCE_DIR="$D/evidence" ./check $p 2>&1 | grep -v "^WARNING conda"); code=$?
  echo "$out" | grep -E "^(VIOLATION|UNDECIDED|CHECKER-BROKEN)" | head -4 | cut -c1-220
  echo "$out" | grep "^SUMMARY" | sed 's/^SUMMARY //' | cut -c1-200
done
rm -rf "$D"
