"""tools/design_tables.py — regenerate the generated tables of DESIGN.md §8 (contracts under PyVC, fixes, findings, seeded changes)
between the markers <!-- GEN:<name> --> ... <!-- /GEN:<name> -->.   python3-vt tools/design_tables.py"""
import json, os, re, subprocess, sys, glob
sys.path.insert(0, os.path.dirname(os.path.dirname(os.path.abspath(__file__))))
from pyvc import contract as C
import contracts.all  # noqa

ROOT = os.path.dirname(os.path.dirname(os.path.abspath(__file__)))


def contracts_table():
    rows = ["| contract | function(s) | properties | what the obligations say |", "|---|---|---|---|"]
    groups = {}
    for cid, c in C.REGISTRY.items():
        if cid.startswith("Field_"):
            groups.setdefault("Field_*", []).append(c)
            continue
        doc = " ".join((c.doc or "").split())
        rows.append("| %s | `%s` | %s | %s |" % (cid, (c.fn or "many").replace("gfapy/", ""), " ".join(c.props), doc[:260]))
    fs = groups.get("Field_*", [])
    if fs:
        props = sorted({p for c in fs for p in c.props})
        rows.append("| Field_* (%d contracts) | `field/<datatype>.py::decode / unsafe_decode / validate_encoded / validate_decoded` | %s | accept language == specs/grammar.py on [^\\t\\n]*; only gfapy.Error escapes |" % (len(fs), " ".join(props)))
    return "\n".join(rows)


def fixes_table():
    out = subprocess.run(["git", "-C", "/repo", "log", "--reverse", "--format=%h %s"], capture_output=True, text=True).stdout.splitlines()
    kf = open(os.path.join(ROOT, "known_findings.jsonl")).read().splitlines()
    prop = {}
    for l in kf:
        m = re.match(r"fixed: property=(C\d\d) (\w+) ", l)
        if m:
            prop.setdefault(m.group(2), []).append(m.group(1))
    rows = ["| commit | property | fix |", "|---|---|---|"]
    for l in out:
        h, _, msg = l.partition(" ")
        if msg.startswith("fix:"):
            rows.append("| %s | %s | %s |" % (h, " ".join(sorted(set(prop.get(h, ["-"])))), msg[4:].strip()))
    return "\n".join(rows)


def findings_table():
    rows = ["| id | property | what fails | why recorded, not repaired |", "|---|---|---|---|"]
    for l in open(os.path.join(ROOT, "known_findings.jsonl")):
        if l.startswith("{"):
            d = json.loads(l)
            rows.append("| %s | %s | %s | %s |" % (d["id"], d["property"], " ".join(d["what"].split())[:420], " ".join(d.get("why_not_fixed", d.get("why", "see entry")).split())[:300]))
    return "\n".join(rows)


def seeded_table():
    rows = ["| seed | change | first run | caught now by |", "|---|---|---|---|"]
    for d in sorted(glob.glob(os.path.join(ROOT, "seeded", "C*"))):
        try:
            m = json.load(open(os.path.join(d, "meta.json")))
        except Exception:
            continue
        rows.append("| %s | %s | %s | %s |" % (os.path.basename(d), " ".join(m["change"].split())[:200], m["detected_when_first_run"], " ".join(m["detected_now_by"].split())[:330]))
    return "\n".join(rows)


GEN = {"contracts": contracts_table, "fixes": fixes_table, "findings": findings_table, "seeded": seeded_table}

if __name__ == "__main__":
    p = os.path.join(ROOT, "DESIGN.md")
    s = open(p).read()
    for name, fn in GEN.items():
        a, b = "<!-- GEN:%s -->" % name, "<!-- /GEN:%s -->" % name
        if a in s and b in s:
            s = s[:s.index(a) + len(a)] + "\n" + fn() + "\n" + s[s.index(b):]
    open(p, "w").write(s)
    print("DESIGN.md tables regenerated")
