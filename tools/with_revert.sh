#!/bin/bash
# tools/with_revert.sh <grep-of-fix-commit-subject> <check args...> — run a check against a scratch worktree in which one fix: commit is reverted
PAT=$1; shift
W=$(mktemp -d /tmp/mutx.XXXXXX)
git -C /repo worktree add -f --detach "$W/wt" HEAD -q
C=$(git -C /repo log --format=%h --grep="$PAT" -1)
(cd "$W/wt" && git revert --no-commit "$C" >/dev/null 2>&1 && git status --short)
VERIF_EVIDENCE_DIR=$W/ev VERIF_REPO=$W/wt /verif/check "$@" 2>&1 | grep -v conda | grep "VIOLATION\|SUMMARY\|UNDECIDED\|BROKEN" | cut -c1-330 | head -12
git -C /repo worktree remove --force "$W/wt"; rm -rf "$W"
