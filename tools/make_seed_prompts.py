"""tools/make_seed_prompts.py <batch> — scratch worktrees /tmp/wt<batch>/<Cxx> of /repo HEAD and one prompt per property
(/tmp/prompt<batch>_<Cxx>.txt) for an independent sub-agent: only the property text, the worktree, and the earlier ideas to avoid.
Nothing from /verif is shown to the sub-agent."""
import json, os, subprocess, sys
b = sys.argv[1]
props = {json.loads(l)['id']: json.loads(l) for l in open('/verif/properties.jsonl')}
os.makedirs('/tmp/wt%s' % b, exist_ok=True)
for pid, p in props.items():
    wt = '/tmp/wt%s/%s' % (b, pid)
    if not os.path.exists(wt):
        subprocess.run(['git', '-C', '/repo', 'worktree', 'add', '-f', '--detach', wt, 'HEAD', '-q'], check=True)
    used = []
    for k in range(1, int(b)):
        try:
            used.append(json.load(open('/verif/seeded/%s-%d/meta.json' % (pid, k)))['change'])
        except Exception:
            pass
    earlier = "\n".join('  (%d) "%s"' % (i + 1, u) for i, u in enumerate(used))
    txt = f"""You are helping to test a verification framework for the Python library gfapy (a library for GFA1/GFA2 sequence-graph files). You have your own scratch git worktree of the library at {wt} (work ONLY there; do not touch /repo, /verif or any other directory; do not read anything under /verif).

Here is a semantic property that the library is supposed to satisfy:

  Title: {p['title']}
  Statement: {p['statement']}
  Quantified over: {p['quantifier']['text']}

Earlier volunteers already used these ideas, so do NOT reuse them or close variants of them (choose a different function, preferably a different file, and a different mechanism):
{earlier}

Your task: make ONE small, realistic change to the library source under {wt}/gfapy (the kind of bug a developer could plausibly introduce during a refactoring or a "fix": an off-by-one, a wrong branch, a swapped argument, a forgotten case, a copy that became an alias, a check moved after a write, a changed default, ...) such that:
  1. the library still imports and the existing test suite still passes unchanged: run `cd {wt} && /venv/bin/python -m pytest -q -p no:cacheprovider --timeout=900 -q 2>&1 | tail -3` (one test, test_stable_sequence_names, is known to fail or be flaky already; ignore it; everything else must pass);
  2. the property above is violated by the changed code;
  3. the violation needs something SPECIFIC to manifest — an unusual input, a particular combination of orientations / record types, a multi-step sequence of operations, a particular arrival order of lines, two cooperating code sites that each look fine alone — NOT something that ordinary use would expose at once (so: do not break the common path).

Then write a demonstration: a small standalone Python program {wt}/demo_{pid}.py that uses only the public behaviour of gfapy, exits with status 0 on the ORIGINAL code and with a non-zero status (assertion failure) on the CHANGED code. Verify both yourself: run it with `cd {wt} && PYTHONPATH={wt} /venv/bin/python demo_{pid}.py` on the changed tree, then save your change with `git diff -- gfapy > {wt}/patch_{pid}.diff`, take it out with `git apply -R {wt}/patch_{pid}.diff`, run the demo again on the original tree, and put the change back with `git apply {wt}/patch_{pid}.diff`. Do NOT use `git stash`: the stash is shared by all worktrees of the repository and other volunteers work next to you.

Finally produce the patch: `cd {wt} && git diff -- gfapy > {wt}/patch_{pid}.diff` (the diff must contain only changes under gfapy/).

Report back (in your final message, keep it under 350 words): the path of the patch, the path of the demo, one paragraph describing the change, what exactly it needs in order to manifest, the outcomes of the commands (test suite result, demo exit status on changed and on original code), and - separately, in at most five lines - anything you noticed where the ORIGINAL code already violates the property (with the input that shows it). Keep the change minimal (a few lines). Do not commit anything. Do not modify tests. (Every shell command prints one harmless conda WARNING line; ignore it. The machine is busy: commands may be slow.)"""
    open('/tmp/prompt%s_%s.txt' % (b, pid), 'w').write(txt)
print("ok")
