#!/usr/bin/env python3
"""tools/harmless_edits.py - semantics-preserving edits of functions under contract (renamed locals, reordered independent statements,
an if turned around, a for loop rewritten as a while loop, a helper variable): every check must still exit 0 on them.  A contract
that no longer fits the shape of the code reports itself as out of reach (NOTE) and leaves the decision to the bounded twin; it must
not report a violation or a broken checker.  Run by hand:  python3 tools/harmless_edits.py"""
import subprocess, tempfile, shutil, os
EDITS = [
 ("C15", "graph_operations/multiplication.py", "      for cn in copy_names:\n        self.__clone_segment_and_connections(s, cn, copy_names)", "      for copy_name in copy_names:\n        self.__clone_segment_and_connections(s, copy_name, copy_names)"),
 ("C18", "line/common/writer.py", "    if not isinstance(v, str):\n      v = gfapy.Field._to_gfa_field(v, datatype = t, fieldname = fieldname,\n                                  line = self)\n", "    if isinstance(v, str):\n      pass\n    else:\n      v = gfapy.Field._to_gfa_field(v, datatype = t, fieldname = fieldname,\n                                  line = self)\n"),
 ("C13", "line/segment/segment.py", "    n_positionals = len(data)-1\n    for i in range(len(data)-1, 0, -1):\n      if not re.search(r\"^..:.:.*$\", data[i]):\n        break\n      n_positionals = i-1\n", "    n_positionals = len(data)-1\n    i = len(data)-1\n    while i > 0:\n      if not re.search(r\"^..:.:.*$\", data[i]):\n        break\n      n_positionals = i-1\n      i -= 1\n"),
 ("C20", "line/common/field_data.py", "        self._datatype[fieldname] = datatype\n        self._data[fieldname] = value\n", "        self._data[fieldname] = value\n        self._datatype[fieldname] = datatype\n"),
 ("C15", "graph_operations/multiplication.py", "      links = self.segment(sn).dovetails_of_end(end_type).copy()\n      for l in links:", "      links_of_member = self.segment(sn).dovetails_of_end(end_type).copy()\n      for l in links_of_member:"),
 ("C02", "lines/destructors.py", "      subkey = gfa_line.external.name\n      collection = collection[subkey]\n      collection.pop(id(gfa_line))\n      if not collection:\n        self._records[rt].pop(subkey)", "      subkey = gfa_line.external.name\n      fragments = collection[subkey]\n      fragments.pop(id(gfa_line))\n      if len(fragments) == 0:\n        self._records[rt].pop(subkey)"),
 ("C04", "line/edge/gfa2/validation.py", "    for n in [\"1\", \"2\"]:\n      validate_interval", "    for n in [\"2\", \"1\"]:\n      validate_interval"),
 ("C12", "line/edge/link/equivalence.py", "    return (self.from_end == other.from_end and\n            self.to_end == other.to_end and\n            self.overlap == other.overlap)", "    same_ends = (self.from_end == other.from_end and self.to_end == other.to_end)\n    return (same_ends and self.overlap == other.overlap)"),
 ("C16", "graph_operations/topology.py", "    n = 0\n    for s in self.segments:\n      if not s.dovetails_L: n+=1\n      if not s.dovetails_R: n+=1\n    return n", "    n = 0\n    for s in self.segments:\n      if not s.dovetails_R: n+=1\n      if not s.dovetails_L: n+=1\n    return n"),
 ("C19", "line/common/cloning.py", "      elif isinstance(v, gfapy.LastPos):\n        data_cpy[k] = gfapy.LastPos(v.value, valid = True)\n      else:\n        data_cpy[k] = v", "      elif not isinstance(v, gfapy.LastPos):\n        data_cpy[k] = v\n      else:\n        data_cpy[k] = gfapy.LastPos(v.value, valid = True)"),
 ("C09", "line/common/virtual_to_real.py", "    previous._gfa = None\n    previous._refs = {}\n", "    previous._refs = {}\n    previous._gfa = None\n"),
 ("C17", "line/group/gfa2/same_id.py", "      if cur is not None:\n        if cur != prv:\n          raise gfapy.NotUniqueError(", "      if cur is not None:\n        if not (cur == prv):\n          raise gfapy.NotUniqueError("),
]
for pid, path, old, new in EDITS:
    W = tempfile.mkdtemp(prefix="/tmp/harmless.")
    shutil.copytree("/repo/gfapy", W + "/gfapy")
    p = W + "/gfapy/" + path; s = open(p).read()
    if s.count(old) != 1:
        print(pid, path, "PATTERN COUNT", s.count(old)); shutil.rmtree(W); continue
    open(p, "w").write(s.replace(old, new))
    t = subprocess.run("cd %s && cp -r /repo/tests . && /venv/bin/python -m pytest -q -p no:cacheprovider -x -q tests 2>&1 | tail -1" % W, shell=True, capture_output=True, text=True).stdout.strip()
    r = subprocess.run("cd /verif && VERIF_EVIDENCE_DIR=%s/ev VERIF_REPO=%s ./check %s 2>&1 | grep 'VIOLATION\\|SUMMARY\\|NOTE\\|BROKEN\\|UNDEC' | cut -c1-260; echo exit=${PIPESTATUS[0]}" % (W, W, pid), shell=True, capture_output=True, text=True, executable="/bin/bash").stdout
    print("==", pid, path, "| tests:", t[-40:]); print(r)
    shutil.rmtree(W)
