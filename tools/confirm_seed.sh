#!/bin/bash
# tools/confirm_seed.sh <PID> [suffix]  — confirm a sub-agent's mutant myself in a scratch worktree, then run every quick check against it
PID=$1; SUF=${2:-1}
SRC=${SEEDSRC:-/tmp/wt}/$PID
PATCH=$SRC/patch_$PID.diff; DEMO=$SRC/demo_$PID.py
[ -f "$PATCH" ] && [ -f "$DEMO" ] || { echo "missing patch/demo for $PID"; exit 2; }
W=$(mktemp -d /tmp/confirm.XXXXXX)
git -C /repo worktree add -f --detach "$W/wt" HEAD -q
cd "$W/wt"
cp "$DEMO" demo.py
PYTHONPATH=$W/wt /venv/bin/python demo.py > "$W/demo_orig.log" 2>&1; D0=$?
git apply "$PATCH" || { echo "patch does not apply"; }
T=$(/venv/bin/python -m pytest -q -p no:cacheprovider --timeout=900 2>&1 | tail -1)
PYTHONPATH=$W/wt /venv/bin/python demo.py > "$W/demo_mut.log" 2>&1; D1=$?
echo "$PID: tests: $T | demo original exit=$D0 | demo mutated exit=$D1"
tail -2 "$W/demo_mut.log" | cut -c1-300
DEST=/verif/seeded/$PID-$SUF
mkdir -p "$DEST"; cp "$PATCH" "$DEST/patch.diff"; cp "$DEMO" "$DEST/demo.py"
cd /verif
git -C /repo worktree remove --force "$W/wt"; rm -rf "$W"
echo "--- checks against the mutant:"
/verif/tools/try_seed.sh "$DEST/patch.diff" ${@:3} | tee "$DEST/checks.log"
