#!/bin/bash
# tools/run_all_seeds.sh [out.log] — every seeded change against the check(s) named in its meta.json (how_to_rerun); prints caught / MISSED per seed
OUT=${1:-/tmp/allseeds.log}; : > "$OUT"
cd /verif
for d in seeded/C*; do
  [ -f "$d/meta.json" ] || continue
  cmd=$(python3 -c "import json,sys; print(json.load(open('$d/meta.json'))['how_to_rerun'])" 2>/dev/null)
  props=$(echo "$cmd" | sed 's/.*patch.diff//')
  res=$(tools/try_seed.sh "$d/patch.diff" $props 2>&1 | grep -v -i conda)
  if echo "$res" | grep -q "^VIOLATION"; then s=caught; elif echo "$res" | grep -q "patch failed"; then s="PATCH-FAILED"; else s=MISSED; fi
  echo "$(basename $d) $s [$props ] $(echo "$res" | grep -c '^VIOLATION') violation lines" | tee -a "$OUT"
done
