"""C19 / C10 — Line.__eq__: two lines are equal iff they have the same record type, the same set of fields, and every field holds
equal values or - when the stored values differ (a reference against an identifier, a text against its parsed value, JSON against its
round trip) - is WRITTEN the same way.  All numbers of fields; the comparison of two values and of two written forms are symbolic
relations."""
import z3, builtins
from pyvc.contract import Contract, Case, register
from pyvc.dsl import *
from pyvc.values import *

AIB = z3.ArraySort(I, B)


@register
class LineEq(Contract):
    fn = "gfapy/line/common/equivalence.py::Equivalence.__eq__"
    props = ("C19", "C10")
    fragment = "L"
    doc = ("l == o for two different lines: True iff same record type, same field names, and for EVERY field (reference field or not, positional "
           "or tag) equal stored values or equal written forms; comparing writes nothing (loop invariant over the fields of o)")

    def cases(self, ctx):
        g = ctx.gfapy
        n = z3.Int("n_fields")
        same_rt, same_keys = z3.Bool("same_record_type"), z3.Bool("same_field_names")
        same_val, same_txt = z3.Const("stored_values_equal", AIB), z3.Const("written_forms_equal", AIB)
        k, j = z3.Int("k"), z3.Int("j")
        class V:
            def __init__(self, t, side):
                self.t, self.side = t, side
            def pyvc_eq(self, E, other):
                return same_val[self.t]
        class T(V):
            def pyvc_eq(self, E, other):
                return same_txt[self.t]
        class Data:
            def __init__(self, side):
                self.side = side
            def pyvc_getitem(self, E, i, st):
                yield ("val", V(i.t, self.side), st)
            def pyvc_attr(self, E, attr, st):
                me = self
                class M:
                    def pyvc_call(self, E, pos, kw, st):
                        if attr == "items":
                            yield ("val", SList(n, z3.Lambda([k], k), lambda t: (Ref(t), V(t, me.side))), st)
                        elif attr == "keys":
                            yield ("val", Keys(me.side), st)
                        else:
                            raise Unsupported("_data.%s" % attr)
                yield ("val", M(), st)
        class Keys:
            def __init__(self, side):
                self.side = side
            def pyvc_eq(self, E, other):
                return same_keys
        class RT:
            def pyvc_eq(self, E, other):
                return same_rt
        s, o = Obj(g.Line, "self"), Obj(g.Line, "other")
        heap = {s.oid: {"_data": Data("self")}, o.oid: {"_data": Data("other")}}
        def m_f2s(E, st, pos, kw):
            yield ("val", T(pos[1].t, "self" if pos[0] is s else "other"), [])
        models = {ctx.fn("gfapy/line/common/writer.py::Writer.field_to_s"): m_f2s, builtins.sorted: const_model(lambda x: x),
                  g.Line.record_type.fget: const_model(lambda s_: RT())}
        ok = lambda t: z3.Or(same_val[t], same_txt[t])
        inv = {("Equivalence.__eq__", 0): dict(inv=lambda i, st: z3.And(i <= n, z3.ForAll([j], z3.Implies(z3.And(0 <= j, j < i), ok(j)))),
                                                mod={"k": lambda nm: Ref(fresh(nm, I)), "v": lambda nm: V(fresh(nm, I), "other")})}
        def post(kd, v, st):
            if kd != "return":
                return z3.BoolVal(False)
            r = z3.BoolVal(v) if isinstance(v, bool) else v
            return r == z3.And(same_rt, same_keys, z3.ForAll([j], z3.Implies(z3.And(0 <= j, j < n), ok(j))))
        return [Case("two-lines", [s, o], post, pre=[n >= 0], heap=heap, models=models, invariants=inv, symbols=dict(n_fields=n), minimize=[n],
                     replay=lambda w: {"target": "bounded.replay_helpers:clone_value_cases"}, confirm=battery_confirm)]
