"""C02 / C09 / C05 — the registry of a Gfa: Destructors._unregister_line takes exactly the entry of the line out of the collection of its record type."""
import z3, builtins
from pyvc.contract import Contract, Case, register
from pyvc.dsl import *
from pyvc.values import *


@register
class UnregisterLine(Contract):
    fn = "gfapy/lines/destructors.py::Destructors._unregister_line"
    props = ("C02", "C09", "C05")
    fragment = "H"
    doc = ("_unregister_line(line): exactly one entry leaves the registry - the collection of the line's record type loses the key under which the line is stored: "
           "its name (identified lines), its identity when the name is a placeholder or the record type has no identifier, and for a fragment the entry of its "
           "identity in the sub-collection of its external sequence - that sub-collection is dropped iff the fragment was the last one in it; nothing else "
           "is popped, in any collection; a header is never unregistered (AssertionError, nothing popped)")

    def cases(self, ctx):
        g = ctx.gfapy
        rt, prt = enum("rt", ["H", "S", "L", "C", "P", "E", "G", "F", "O", "U", "#", "X"])
        sk, psk = enum("storage_key", ["name", "external", "none"])
        placeholder = z3.Bool("name_is_placeholder")
        nfrag = z3.Int("fragments_of_that_external_sequence")
        gfa, line = Obj(g.Gfa, "gfa"), Obj(g.Line, "line")
        name, ext, extname = Obj(None, "name"), Obj(None, "external"), Obj(None, "external_name")
        class IdOf:
            def __init__(self, of):
                self.of = of
        def ev(st, *what):
            return st.with_ghost("events", tuple(st.ghost.get("events", ())) + (what,))
        def keykind(k_):
            return "name" if k_ is name else "external_name" if k_ is extname else ("id(line)" if isinstance(k_, IdOf) and k_.of is line else "other")
        class Popper:
            def __init__(self, where):
                self.where = where
            def pyvc_call(self, E, pos, kw, st):
                yield ("val", None, ev(st, "pop", self.where, keykind(pos[0])))
        class Sub:                                            # records[rt][external name]: the fragments of one external sequence
            def pyvc_attr(self, E, attr, st):
                if attr != "pop":
                    raise Unsupported("subcollection.%s" % attr)
                yield ("val", Popper("records[rt][external_name]"), st)
            def pyvc_truth(self, E):
                # asked after the pop: anything left?
                return nfrag > 1
        class Coll:
            def __init__(self, of_rt):
                self.of_rt = of_rt
            def pyvc_attr(self, E, attr, st):
                if attr != "pop":
                    raise Unsupported("collection.%s" % attr)
                yield ("val", Popper("records[rt]" if self.of_rt is rt else "records[other]"), st)
            def pyvc_getitem(self, E, i, st):
                if i is not extname:
                    raise Unsupported("collection[%r]" % (i,))
                yield ("val", Sub(), st)
        class Records:
            def pyvc_getitem(self, E, i, st):
                yield ("val", Coll(i), st)
        class Cls:
            def pyvc_attr(self, E, attr, st):
                if attr != "STORAGE_KEY":
                    raise Unsupported("class attribute %s" % attr)
                # (None for the record types without identifier)
                yield ("val", Opt(sk == sv("none"), sk), st)
        heap = {gfa.oid: {"_records": Records()}, line.oid: {"record_type": rt, "__class__": Cls(), "name": name, "external": ext}, name.oid: {}, ext.oid: {"name": extname}, extname.oid: {}}
        def m_id(E, st, pos, kw):
            yield ("val", IdOf(pos[0]), [])
        models = {ctx.fn("gfapy/lines/lines.py::Lines._api_private_check_gfa_line"): const_model(lambda *a: None),
                  g.is_placeholder: const_model(lambda x: placeholder), builtins.id: m_id}
        P = lambda where, key: ("pop", where, key)
        def post(kd, v, st):
            e = tuple(st.ghost.get("events", ()))
            if kd == "raise":
                return z3.And(rt == sv("H"), z3.BoolVal(v.cls is g.AssertionError and e == ()))
            table = {(P("records[rt]", "name"),): z3.And(sk == sv("name"), z3.Not(placeholder)),
                     (P("records[rt]", "id(line)"),): z3.Or(z3.And(sk == sv("name"), placeholder), sk == sv("none")),
                     (P("records[rt][external_name]", "id(line)"),): z3.And(sk == sv("external"), nfrag > 1),
                     (P("records[rt][external_name]", "id(line)"), P("records[rt]", "external_name")): z3.And(sk == sv("external"), nfrag <= 1)}
            return z3.And(rt != sv("H"), table.get(e, z3.BoolVal(False)))
        return [Case("by-storage-key", [gfa, line], post, pre=[prt, psk, nfrag >= 1], heap=heap, models=models,
                     symbols=dict(rt=rt, storage_key=sk, name_is_placeholder=placeholder, fragments_of_that_external_sequence=nfrag), minimize=[nfrag],
                     replay=lambda w: {"target": "bounded.replay_helpers:registry_cases"}, confirm=battery_confirm)]


@register
class RegisterLine(Contract):
    fn = "gfapy/lines/creators.py::Creators._register_line"
    props = ("C02", "C09", "C08", "C07", "C03")
    fragment = "H"
    doc = ("_register_line(line): the line is stored exactly once, in the collection of its record type (created first if the Gfa has none yet) under the key "
           "_unregister_line looks for: its name, its identity when the name is a placeholder or the record type has no identifier; a fragment under its identity "
           "in the sub-collection of its external sequence (created first if there is none); a header is merged into the header of the Gfa instead. "
           "A virtual line is also noted in the log of the connect in progress iff one is open (C08: what a refused line leaves is taken back from that log). "
           "The counter of integer names becomes max(counter, n) iff the name is an ASCII digit string of at most 1000 characters with value n, and is "
           "untouched otherwise (C09: unused_name() stays fresh)")

    def cases(self, ctx):
        g = ctx.gfapy
        rt, prt = enum("rt", ["H", "S", "L", "C", "P", "E", "G", "F", "O", "U", "#", "X"])
        sk, psk = enum("storage_key", ["merge", "name", "external", "none"])
        placeholder, ascii_, digit = z3.Bool("name_is_placeholder"), z3.Bool("name_isascii"), z3.Bool("name_isdigit")
        keylen, keynum, max0 = z3.Int("len_of_name"), z3.Int("int_of_name"), z3.Int("max_int_name")
        rt_known, ext_known = z3.Bool("collection_exists"), z3.Bool("subcollection_exists")
        log_open, virtual = z3.Bool("a_connect_is_in_progress"), z3.Bool("line_is_virtual")
        gfa, line = Obj(g.Gfa, "gfa"), Obj(g.Line, "line")
        ext, extline = Obj(None, "external"), Obj(None, "external_line")
        class IdOf:
            def __init__(self, of):
                self.of = of
        def ev(st, *what):
            return st.with_ghost("events", tuple(st.ghost.get("events", ())) + (what,))
        class Method:
            def __init__(self, f):
                self.f = f
            def pyvc_call(self, E, pos, kw, st):
                yield from self.f(pos, st)
        class NameV:                                           # the name of the line: a text of which only these observations are made
            def pyvc_attr(self, E, attr, st):
                if attr == "isascii":
                    yield ("val", Method(lambda pos, st_: iter([("val", ascii_, st_)])), st)
                elif attr == "isdigit":
                    yield ("val", Method(lambda pos, st_: iter([("val", digit, st_)])), st)
                else:
                    raise Unsupported("name.%s" % attr)
        name = NameV()
        def keykind(k_):
            return "name" if k_ is name else "external_line" if k_ is extline else ("id(line)" if isinstance(k_, IdOf) and k_.of is line else "other")
        class Log:
            def pyvc_attr(self, E, attr, st):
                if attr != "append":
                    raise Unsupported("log.%s" % attr)
                yield ("val", Method(lambda pos, st_: iter([("val", None, ev(st_, "log", "line" if pos[0] is line else "other"))])), st)
        class Sub:
            def pyvc_setitem(self, E, i, v, st):
                yield ("fall", None, ev(st, "store", "records[rt][external_line]", keykind(i), "line" if v is line else "other"))
        class Coll:
            def __init__(self, of_rt):
                self.where = "records[rt]" if of_rt is rt else "records[other]"
            def pyvc_setitem(self, E, i, v, st):
                if isinstance(v, dict) and not v:
                    yield ("fall", None, ev(st, "new_subcollection", self.where, keykind(i)))
                else:
                    yield ("fall", None, ev(st, "store", self.where, keykind(i), "line" if v is line else "other"))
            def pyvc_contains(self, E, x):
                if x is not extline:
                    raise Unsupported("%r in collection" % (x,))
                return ext_known
            def pyvc_getitem(self, E, i, st):
                if i is not extline:
                    raise Unsupported("collection[%r]" % (i,))
                yield ("val", Sub(), st)
            def pyvc_attr(self, E, attr, st):
                if attr != "_merge":
                    raise Unsupported("collection.%s" % attr)
                yield ("val", Method(lambda pos, st_: iter([("val", None, ev(st_, "merge", "line" if pos[0] is line else "other"))])), st)
        class Records:
            def pyvc_getitem(self, E, i, st):
                yield ("val", Coll(i), st)
            def pyvc_contains(self, E, x):
                if x is not rt:
                    raise Unsupported("%r in records" % (x,))
                return rt_known
            def pyvc_setitem(self, E, i, v, st):
                ok = i is rt and isinstance(v, dict) and not v
                yield ("fall", None, ev(st, "new_collection" if ok else "records-assigned-something-else"))
        class Cls:
            def pyvc_attr(self, E, attr, st):
                if attr != "STORAGE_KEY":
                    raise Unsupported("class attribute %s" % attr)
                yield ("val", Opt(sk == sv("none"), sk), st)
        heap = {gfa.oid: {"_records": Records(), "_new_virtual_lines": Opt(z3.Not(log_open), Log()), "_max_int_name": max0},
                line.oid: {"record_type": rt, "__class__": Cls(), "name": name, "external": ext, "virtual": virtual}, ext.oid: {"line": extline}, extline.oid: {}}
        def m_id(E, st, pos, kw):
            yield ("val", IdOf(pos[0]), [])
        def m_len(E, st, pos, kw):
            if pos[0] is not name:
                raise Unsupported("len(%r)" % (pos[0],))
            yield ("val", keylen, [])
        def m_int(E, st, pos, kw):
            if pos[0] is not name:
                raise Unsupported("int(%r)" % (pos[0],))
            # (int() of a digit string; Python refuses more than 4300 digits: the code must not ask for longer names)
            yield ("raise", Exc(ValueError), [z3.Or(z3.Not(digit), z3.Not(ascii_), keylen > 4300)])
            yield ("val", keynum, [z3.And(digit, ascii_, keylen <= 4300)])
        models = {ctx.fn("gfapy/lines/lines.py::Lines._api_private_check_gfa_line"): const_model(lambda *a: None),
                  g.is_placeholder: const_model(lambda x: placeholder), builtins.id: m_id, builtins.len: m_len, builtins.int: m_int}
        def post(kd, v, st):
            if kd == "raise":
                return z3.BoolVal(False)
            e = list(st.ghost.get("events", ()))
            logged = z3.BoolVal(bool(e) and e[0] == ("log", "line"))
            if e and e[0][0] == "log":
                e = e[1:]
            e = tuple(e)
            S_ = lambda where, key: ("store", where, key, "line")
            table = {(("merge", "line"),): sk == sv("merge"),
                     (S_("records[rt]", "name"),): z3.And(sk == sv("name"), rt_known, z3.Not(placeholder)),
                     (("new_collection",), S_("records[rt]", "name")): z3.And(sk == sv("name"), z3.Not(rt_known), z3.Not(placeholder)),
                     (S_("records[rt]", "id(line)"),): z3.And(rt_known, z3.Or(z3.And(sk == sv("name"), placeholder), sk == sv("none"))),
                     (("new_collection",), S_("records[rt]", "id(line)")): z3.And(z3.Not(rt_known), z3.Or(z3.And(sk == sv("name"), placeholder), sk == sv("none"))),
                     (S_("records[rt][external_line]", "id(line)"),): z3.And(sk == sv("external"), ext_known),
                     (("new_subcollection", "records[rt]", "external_line"), S_("records[rt][external_line]", "id(line)")): z3.And(sk == sv("external"), z3.Not(ext_known))}
            counts = z3.And(sk == sv("name"), z3.Not(placeholder), ascii_, digit, keylen <= 1000)
            mx = st.attrs(gfa).get("_max_int_name")
            return z3.And(logged == z3.And(log_open, virtual), table.get(e, z3.BoolVal(False)),
                          S(mx) == z3.If(z3.And(counts, keynum > max0), keynum, max0))
        return [Case("by-storage-key", [gfa, line], post, pre=[prt, psk, keylen >= 1, keynum >= 0], heap=heap, models=models,
                     symbols=dict(rt=rt, storage_key=sk, name_is_placeholder=placeholder, name_isascii=ascii_, name_isdigit=digit, len_of_name=keylen, int_of_name=keynum,
                                  max_int_name=max0, collection_exists=rt_known, subcollection_exists=ext_known, a_connect_is_in_progress=log_open, line_is_virtual=virtual),
                     minimize=[keylen, keynum, max0],
                     replay=lambda w: {"target": "bounded.replay_helpers:registry_cases"}, confirm=battery_confirm)]


AII = z3.ArraySort(I, I)
AIB = z3.ArraySort(I, B)
AIAI = z3.ArraySort(I, AII)


@register
class ValidateNoReferenceToOwnName(Contract):
    fn = "gfapy/line/common/connection.py::Connection._validate_no_reference_to_own_name"
    props = ("C09", "C08")
    fragment = "H"
    doc = ("a line that is stored by name and whose name is not a placeholder is refused with NotUniqueError iff one of its reference fields mentions that name - "
           "as a text, as a line with that name, or as an oriented reference to either, in a single-valued field or anywhere in a list (loop invariants over the "
           "reference fields and over the items of a list; every number of fields and items); a name that is not a text is refused with FormatError; "
           "lines stored otherwise, or with a placeholder name, are never refused here; nothing is written")

    def cases(self, ctx):
        g = ctx.gfapy
        by_name, placeholder, name_is_str = z3.Bool("stored_by_name"), z3.Bool("name_is_placeholder"), z3.Bool("name_is_a_text")
        own = z3.Int("own_name")
        nf = z3.Int("n_reference_fields")
        field_id = z3.Const("reference_field", AII)
        is_list = z3.Const("field_holds_a_list", AIB)
        single = z3.Const("value_of_field", AII)
        n_items = z3.Const("n_items_of_field", AII)
        item = z3.Const("item_of_field", AIAI)
        kind = z3.Const("kind_of_value", AII)          # 0 text, 1 oriented reference, 2 line
        inner = z3.Const("line_of_oriented_reference", AII)
        nm = z3.Const("name_of_line", AII)
        line = Obj(g.Line, "line")
        f, p = z3.Int("f"), z3.Int("p")
        def unwrap1(x):                                  # an oriented reference stands for what it refers to
            return z3.If(kind[x] == 1, inner[x], x)
        def fin(x):                                      # ... and a line for its name
            y = unwrap1(x)
            return z3.If(kind[y] == 2, nm[y], y)
        def hits(x):
            return fin(x) == own
        def field_hits(ff):
            return z3.If(is_list[field_id[ff]], z3.Exists([p], z3.And(0 <= p, p < n_items[field_id[ff]], hits(item[field_id[ff]][p]))), hits(single[field_id[ff]]))
        class Cls:
            def pyvc_attr(self, E, attr, st):
                if attr == "STORAGE_KEY":
                    yield ("val", ite_str(by_name, "name", "other"), st)
                elif attr == "REFERENCE_FIELDS":
                    yield ("val", SList(nf, field_id, lambda t: Ref(t, "fieldname")), st)
                else:
                    raise Unsupported("class attribute %s" % attr)
        heap = {line.oid: {"__class__": Cls(), "name": Ref(own, "value")}}
        def m_get(E, st, pos, kw):
            k_ = pos[1]
            if not isinstance(k_, Ref):
                raise Unsupported("get(%r)" % (k_,))
            x = z3.Int("x!items")
            yield ("val", SList(n_items[k_.t], z3.Lambda([x], item[k_.t][x]), lambda t: Ref(t, "value")), [is_list[k_.t]])
            yield ("val", Ref(single[k_.t], "value"), [z3.Not(is_list[k_.t])])
        def m_isinstance(E, st, pos, kw):
            x, c = pos
            if isinstance(x, (SList, list)):
                yield ("val", c is list, []); return
            if not isinstance(x, Ref):
                raise Unsupported("isinstance(%r, %r)" % (x, c))
            if c is list:
                yield ("val", False, [])
            elif c is str:
                yield ("val", z3.If(x.t == own, name_is_str, kind[x.t] == 0), [])
            elif c is g.OrientedLine:
                yield ("val", kind[x.t] == 1, [])
            elif c is g.Line:
                yield ("val", kind[x.t] == 2, [])
            else:
                raise Unsupported("isinstance(.., %r)" % (c,))
        models = {ctx.fn("gfapy/line/common/field_data.py::FieldData.get"): m_get, builtins.isinstance: m_isinstance,
                  g.is_placeholder: const_model(lambda x: placeholder)}
        label = "Connection._validate_no_reference_to_own_name"
        def none_before(i):
            return z3.ForAll([f], z3.Implies(z3.And(0 <= f, f < i), z3.Not(field_hits(f))))
        def inv_outer(i, st):
            return z3.And(0 <= i, i <= nf, none_before(i))
        def inv_inner(j_, st):
            k_ = st.env["k"].t
            return z3.And(0 <= j_, j_ <= n_items[k_], is_list[k_], z3.ForAll([p], z3.Implies(z3.And(0 <= p, p < j_), z3.Not(hits(item[k_][p])))))
        invs = {(label, 0): dict(inv=inv_outer, mod={"k": lambda nm_: Ref(fresh(nm_, I), "fieldname"), "value": lambda nm_: Unknown(nm_), "ref": lambda nm_: Ref(fresh(nm_, I), "value")}),
                (label, 1): dict(inv=inv_inner, mod={"ref": lambda nm_: Ref(fresh(nm_, I), "value")})}
        # a text is its own name; the name of a line and what an oriented reference refers to are texts / lines (no reference to a reference)
        pre = [nf >= 0, z3.ForAll([f], n_items[f] >= 0), z3.ForAll([f], z3.And(kind[f] >= 0, kind[f] <= 2)),
               z3.ForAll([f], z3.Implies(kind[f] == 1, kind[inner[f]] != 1)), z3.ForAll([f], z3.Implies(kind[f] == 2, kind[nm[f]] == 0)),
               z3.Implies(name_is_str, kind[own] == 0)]
        active = z3.And(by_name, z3.Not(placeholder))
        def post(kd, v, st):
            if kd == "raise":
                if v.cls is g.FormatError:
                    return z3.And(active, z3.Not(name_is_str))
                return z3.And(z3.BoolVal(v.cls is g.NotUniqueError), active, name_is_str, z3.Exists([f], z3.And(0 <= f, f < nf, field_hits(f))))
            return z3.Implies(z3.And(active, name_is_str), none_before(nf))
        return [Case("fields", [line], post, pre=pre, heap=heap, models=models, invariants=invs, zh={"line": inner, "name": nm}, options={"ref_fields": ("line", "name")},
                     symbols=dict(stored_by_name=by_name, name_is_placeholder=placeholder, name_is_a_text=name_is_str, n_reference_fields=nf), minimize=[nf],
                     replay=lambda w: {"target": "bounded.replay_helpers:own_name_cases"}, confirm=battery_confirm)]


@register
class ProcessLineQueue(Contract):
    fn = "gfapy/lines/creators.py::Creators.process_line_queue"
    props = ("C13", "C03")
    fragment = "H"
    doc = ("process_line_queue(): the version, if still unknown, becomes the guess BEFORE the first queued line is added; every line kept aside is handed to "
           "add_line exactly once, in the order of arrival (loop invariant, every queue length); afterwards the queue is empty; if add_line refuses a line "
           "its exception reaches the caller (the state then is the subject of the known finding on C08). Assumed: add_line does not put lines back into the "
           "queue once the version is known (contracts AddLineVersion_gfa1 / _gfa2: no path appends to it)")

    def cases(self, ctx):
        g = ctx.gfapy
        n, bad = z3.Int("n_queued"), z3.Int("index_of_a_line_that_is_refused")
        known = z3.Bool("version_already_known")
        q = z3.Const("queued_line", AII)
        gfa = Obj(g.Gfa, "gfa")
        v0, guess = Obj(None, "version"), Obj(None, "version_guess")
        queue = SList(n, q, lambda t: Ref(t, g.Line))
        j = z3.Int("j")
        heap = {gfa.oid: {"_version": Opt(z3.Not(known), v0), "_version_guess": guess, "_line_queue": queue}, v0.oid: {}, guess.oid: {}}
        def version_now(st):
            v = st.attrs(gfa).get("_version")
            return v
        def m_add(E, st, pos, kw):
            v = version_now(st)
            # when a line is added the version is decided: it was known, or it is the guess by now
            decided = z3.And(st.ghost.get("version_set_first", z3.BoolVal(True)), z3.Or(known, z3.BoolVal(v is guess)))
            zh = dict(st.zh)
            k_ = zh["n_added"]
            yield ("raise", Exc(g.VersionError), [k_ == bad], st.with_ghost("version_set_first", decided))
            zh["added"] = z3.Store(zh["added"], k_, pos[1].t)
            zh["n_added"] = k_ + 1
            yield ("val", None, [k_ != bad], st.with_zh(zh).with_ghost("version_set_first", decided))
        models = {ctx.fn("gfapy/lines/creators.py::Creators.add_line"): m_add}
        def inv(i, st):
            return z3.And(0 <= i, i <= n, st.zh["n_added"] == i, z3.ForAll([j], z3.Implies(z3.And(0 <= j, j < i), st.zh["added"][j] == q[j])),
                          z3.Or(bad < 0, bad >= i))
        invs = {("Creators.process_line_queue", 0): dict(inv=inv, modheap=["added", "n_added"])}
        def post(kd, v, st):
            ver = version_now(st)
            ver_ok = z3.If(known, z3.BoolVal(ver is v0 or (isinstance(ver, Opt) and ver.val is v0)), z3.BoolVal(ver is guess))
            first = st.ghost.get("version_set_first", z3.BoolVal(True))
            if kd == "raise":
                return z3.And(z3.BoolVal(v.cls is g.VersionError), 0 <= bad, bad < n, st.zh["n_added"] == bad, first, ver_ok)
            lq = st.attrs(gfa).get("_line_queue")
            return z3.And(ver_ok, first, st.zh["n_added"] == n, z3.ForAll([j], z3.Implies(z3.And(0 <= j, j < n), st.zh["added"][j] == q[j])),
                          z3.BoolVal(isinstance(lq, list) and lq == []), z3.Or(bad < 0, bad >= n))
        return [Case("queue", [gfa], post, pre=[n >= 0], heap=heap, zh={"added": z3.K(I, z3.IntVal(-1)), "n_added": z3.IntVal(0)}, models=models, invariants=invs,
                     symbols=dict(n_queued=n, version_already_known=known, index_of_a_line_that_is_refused=bad), minimize=[n])]


@register
class SearchLink(Contract):
    fn = "gfapy/lines/finders.py::Finders._search_link"
    props = ("C12", "C03", "C09")
    fragment = "H"
    doc = ("_search_link(from, to, overlap): the FIRST dovetail of the from-segment that is a link and is compatible with the request in either form "
           "(is_compatible with the complement allowed: contract Link_is_compatible) - the same line whatever form it was stored in; None iff the segment is "
           "unknown or none of its dovetails is such a link (loop invariant with early exit, every number of dovetails); nothing is written")

    def cases(self, ctx):
        g = ctx.gfapy
        AIB_ = z3.ArraySort(I, B)
        known = z3.Bool("segment_is_known")
        n = z3.Int("n_dovetails")
        dv = z3.Const("dovetail", AII)
        is_link, compat = z3.Const("is_a_link", AIB_), z3.Const("compatible_with_the_request", AIB_)
        gfa = Obj(g.Gfa, "gfa")
        seg = Obj(g.line.segment.GFA1, "segment")
        o1, o2, cg = Obj(None, "oriented_from"), Obj(None, "oriented_to"), Obj(None, "overlap")
        nm = Obj(None, "name_of_from")
        j = z3.Int("j")
        dovs = SList(n, dv, lambda t: Ref(t, g.line.edge.Link))
        heap = {gfa.oid: {}, seg.oid: {"dovetails": dovs}, o1.oid: {"line": nm}, o2.oid: {}, cg.oid: {}, nm.oid: {}}
        def m_segment(E, st, pos, kw):
            if pos[1] is not nm:
                raise Unsupported("segment(%r)" % (pos[1],))
            yield ("val", seg, [known]); yield ("val", None, [z3.Not(known)])
        def m_isinstance(E, st, pos, kw):
            x, c = pos
            if isinstance(x, Ref) and c is g.line.edge.Link:
                yield ("val", is_link[x.t], [])
            else:
                raise Unsupported("isinstance(%r, %r)" % (x, c))
        def m_compat(E, st, pos, kw):
            if not (pos[1] is o1 and pos[2] is o2 and pos[3] is cg):
                raise Unsupported("is_compatible called with other arguments than (from, to, overlap, ..)")
            either_form = len(pos) > 4 and pos[4] is True
            # (asked without the complement form it is another relation: only the direct one)
            yield ("val", compat[pos[0].t] if either_form else z3.Const("compatible_as_written_only", AIB_)[pos[0].t], [])
        models = {ctx.fn("gfapy/lines/finders.py::Finders.segment"): m_segment, builtins.isinstance: m_isinstance,
                  ctx.fn("gfapy/line/edge/link/equivalence.py::Equivalence.is_compatible"): m_compat}
        hit = lambda x: z3.And(is_link[dv[x]], compat[dv[x]])
        def inv(i, st):
            return z3.And(0 <= i, i <= n, z3.ForAll([j], z3.Implies(z3.And(0 <= j, j < i), z3.Not(hit(j)))))
        invs = {("Finders._search_link", 0): dict(inv=inv, mod={"l": lambda nm_: Ref(fresh(nm_, I), g.line.edge.Link)})}
        def post(kd, v, st):
            if kd == "raise":
                return z3.BoolVal(False)
            nohit = z3.ForAll([j], z3.Implies(z3.And(0 <= j, j < n), z3.Not(hit(j))))
            if v is None:
                return z3.Or(z3.Not(known), nohit)
            if not isinstance(v, Ref):
                return z3.BoolVal(False)
            return z3.And(known, z3.Exists([j], z3.And(0 <= j, j < n, dv[j] == v.t, hit(j), z3.ForAll([z3.Int("j0")], z3.Implies(z3.And(0 <= z3.Int("j0"), z3.Int("j0") < j), z3.Not(hit(z3.Int("j0"))))))))
        return [Case("dovetails", [gfa, o1, o2, cg], post, pre=[n >= 0], heap=heap, models=models, invariants=invs,
                     symbols=dict(segment_is_known=known, n_dovetails=n), minimize=[n],
                     replay=lambda w: {"target": "bounded.replay_helpers:link_compatibility_cases"}, confirm=battery_confirm)]
