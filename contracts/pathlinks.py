"""C12 / C03 — Path._initialize_links: which stored link supports each step of a path, and in which direction it is traversed.
The j-th required link is (from_j, to_j, cigar_j); `found_j` = _search_link finds a stored link for it, `compl_j` = that link is
compatible with the step in COMPLEMENT form, overlap included."""
import z3
from pyvc.contract import Contract, Case, register
from pyvc.dsl import *
from pyvc.values import *

AII = z3.ArraySort(I, I)
AIS = z3.ArraySort(I, Str)
AIB = z3.ArraySort(I, B)


class RefsOfPath:
    """the `_refs` dict of the path: only the key 'links' is used here; the list stored under it is a list object"""
    def pyvc_setitem(self, E, i, v, st):
        if conc(i) != "links" or not isinstance(v, LRef):
            raise Unsupported("_refs[%r] = %r" % (i, v))
        yield ("fall", None, st.with_ghost("links", v))

    def pyvc_getitem(self, E, i, st):
        if conc(i) != "links" or st.ghost.get("links") is None:
            raise Unsupported("_refs[%r]" % (i,))
        yield ("val", st.ghost["links"], st)


@register
class PathInitializeLinks(Contract):
    fn = "gfapy/line/group/path/references.py::References._initialize_links"
    props = ("C12", "C03", "C02", "C06")
    fragment = "L"
    doc = ("for the j-th step (from, to, overlap) of the path: when both segments are known and _search_link finds a stored link, that link is "
           "recorded, with orientation '-' iff it matches the step in complement form WITH THE OVERLAP (is_compatible_complement(from, to, "
           "overlap)) and not as written (is_compatible_direct: a hairpin with a symmetric overlap fits both ways and counts as forward, whichever of "
           "path and link arrived first), else '+'; otherwise a virtual link is created, connected and recorded with '+' (NotFoundError instead when segments "
           "must come first); every recorded link gets the path as back-reference exactly once; the j-th element of _refs['links'] belongs to "
           "the j-th step (loop invariant over all path lengths; the orientation of a step never depends on the steps before it)")

    def cases(self, ctx):
        g = ctx.gfapy
        n = z3.Int("n_steps")
        frm, to, cig = z3.Const("step_from", AII), z3.Const("step_to", AII), z3.Const("step_overlap", AII)
        present = z3.Const("segment_known", AIB)
        found = z3.Function("link_found", I, I, I, B)
        link_of = z3.Function("stored_link", I, I, I, I)
        compl = z3.Function("complement_form_with_overlap", I, I, I, I, B)
        compl_noc = z3.Function("complement_form_ignoring_overlap", I, I, I, B)
        direct = z3.Function("as_written_with_overlap", I, I, I, I, B)
        sfo = z3.Bool("segments_first_order")
        k, j = z3.Int("k"), z3.Int("j")
        h0 = {"L_n": z3.Const("L_n", AII), "L_e": z3.Const("L_e", z3.ArraySort(I, AII)), "next_list": z3.Int("next_list"),
              "next_ol": z3.Int("next_ol"), "next_link": z3.Int("next_link"),
              "line": z3.Const("line", AII), "orient": z3.Const("orient", AIS),                 # fields of OrientedLine objects (steps and results)
              "ol_line": z3.Const("ol_line", AII), "ol_orient": z3.Const("ol_orient", AIS),
              "is_virtual": z3.Const("is_virtual", AIB), "connected": z3.Const("connected", AIB), "backrefs": z3.Const("backrefs", AII)}
        steps = SList(n, z3.Lambda([k], k), lambda t: (Ref(frm[t]), Ref(to[t]), Ref(cig[t])))
        s = Obj(g.line.group.Path, "path")
        gfa = Obj(g.Gfa, "gfa")
        heap = {s.oid: {"_gfa": gfa, "_refs": RefsOfPath()}, gfa.oid: {"_segments_first_order": sfo}}
        ol_base, link_base, list_id = h0["next_ol"], h0["next_link"], h0["next_list"]
        def P(t):        # both segments of step t are known
            return z3.And(present[h0["line"][frm[t]]], present[h0["line"][to[t]]])
        def F(t):
            return found(frm[t], to[t], cig[t])
        def m_required(E, st, pos, kw):
            yield ("val", steps, [])
        def m_segment(E, st, pos, kw):
            self_, name = pos
            yield ("val", Opt(z3.Not(present[name.t]), Ref(name.t)), [])
        def m_search(E, st, pos, kw):
            self_, f_, t_, c_ = pos
            yield ("val", Opt(z3.Not(found(f_.t, t_.t, c_.t)), Ref(link_of(f_.t, t_.t, c_.t), g.line.edge.Link)), [])
        def m_compl(E, st, pos, kw):
            self_, f_, t_ = pos[:3]
            self_ = self_.val if isinstance(self_, Opt) else self_
            c_ = pos[3] if len(pos) > 3 else kw.get("cigar", kw.get("overlap"))
            if isinstance(c_, Ref):
                yield ("val", compl(self_.t, f_.t, t_.t, c_.t), [])
            else:
                yield ("val", compl_noc(self_.t, f_.t, t_.t), [])
        def m_direct(E, st, pos, kw):
            self_, f_, t_ = pos[:3]
            self_ = self_.val if isinstance(self_, Opt) else self_
            c_ = pos[3] if len(pos) > 3 else kw.get("cigar", kw.get("overlap"))
            if not isinstance(c_, Ref):
                raise Unsupported("is_compatible_direct without the overlap of the step")
            yield ("val", direct(self_.t, f_.t, t_.t, c_.t), [])
        def m_link_ctor(E, st, pos, kw):
            zh = dict(st.zh)
            t = zh["next_link"]
            zh["next_link"] = t + 1
            zh["is_virtual"] = z3.Store(zh["is_virtual"], t, z3.BoolVal(kw.get("virtual") is True))
            zh["connected"] = z3.Store(zh["connected"], t, z3.BoolVal(False))
            zh["backrefs"] = z3.Store(zh["backrefs"], t, z3.IntVal(0))
            yield ("val", Ref(t, g.line.edge.Link), [], st.with_zh(zh))
        def m_connect(E, st, pos, kw):
            self_, gfa_ = pos
            zh = dict(st.zh)
            zh["connected"] = z3.Store(zh["connected"], self_.t, z3.BoolVal(True))
            yield ("val", None, [], st.with_zh(zh))
        def m_ol_ctor(E, st, pos, kw):
            l_, o_ = pos
            l_ = l_.val if isinstance(l_, Opt) else l_
            zh = dict(st.zh)
            t = zh["next_ol"]
            zh["next_ol"] = t + 1
            zh["ol_line"] = z3.Store(zh["ol_line"], t, l_.t)
            zh["ol_orient"] = z3.Store(zh["ol_orient"], t, S(o_))
            yield ("val", Ref(t), [], st.with_zh(zh))
        def m_add_reference(E, st, pos, kw):
            self_, line_, key_ = pos[:3]
            self_ = self_.val if isinstance(self_, Opt) else self_
            zh = dict(st.zh)
            zh["backrefs"] = z3.Store(zh["backrefs"], self_.t, zh["backrefs"][self_.t] + z3.If(z3.BoolVal(conc(key_) == "paths" and line_ is s), 1, 1000))
            yield ("val", None, [], st.with_zh(zh))
        f = ctx.fn
        models = {f("gfapy/line/group/path/references.py::References._compute_required_links"): m_required,
                  f("gfapy/lines/finders.py::Finders.segment"): m_segment, f("gfapy/lines/finders.py::Finders._search_link"): m_search,
                  f("gfapy/line/edge/link/equivalence.py::Equivalence.is_compatible_complement"): m_compl,
                  f("gfapy/line/edge/link/equivalence.py::Equivalence.is_compatible_direct"): m_direct,
                  g.line.edge.Link: m_link_ctor, f("gfapy/line/common/connection.py::Connection.connect"): m_connect,
                  g.OrientedLine: m_ol_ctor, f("gfapy/line/common/connection.py::Connection._add_reference"): m_add_reference}
        def step_ok(zh, t):
            e = zh["L_e"][list_id][t]
            l = zh["ol_line"][e]
            stored = z3.And(P(t), F(t))
            return z3.And(e == ol_base + t,
                          zh["ol_orient"][e] == z3.If(z3.And(stored, compl(link_of(frm[t], to[t], cig[t]), frm[t], to[t], cig[t]), z3.Not(direct(link_of(frm[t], to[t], cig[t]), frm[t], to[t], cig[t]))), sv("-"), sv("+")),
                          z3.If(stored, l == link_of(frm[t], to[t], cig[t]),
                                z3.And(l >= link_base, l < zh["next_link"], zh["is_virtual"][l], zh["connected"][l], zh["backrefs"][l] == 1)))
        def inv0(i, st):
            zh = st.zh
            return z3.And(i <= n, zh["L_n"][list_id] == i, zh["next_ol"] == ol_base + i, zh["next_list"] == list_id + 1, zh["next_link"] >= link_base,
                          zh["line"] == h0["line"], zh["orient"] == h0["orient"],
                          z3.ForAll([j], z3.Implies(z3.And(0 <= j, j < i), step_ok(zh, j))),
                          # links that existed before are untouched except for the back-references added for the steps done so far
                          z3.ForAll([j], z3.Implies(j < link_base, z3.And(zh["is_virtual"][j] == h0["is_virtual"][j], zh["connected"][j] == h0["connected"][j]))))
        inv = {("References._initialize_links", 0): dict(inv=inv0, modheap=["L_n", "L_e", "next_ol", "next_link", "ol_line", "ol_orient", "is_virtual", "connected", "backrefs"],
                                                        mod={"from_segment": lambda nm: Ref(fresh(nm, I)), "to_segment": lambda nm: Ref(fresh(nm, I)), "cigar": lambda nm: Ref(fresh(nm, I)),
                                                             "l": lambda nm: Opt(fresh(nm + "_none", B), Ref(fresh(nm, I), g.line.edge.Link)), "orient": lambda nm: fresh(nm, Str)})}
        def post(kd, v, st):
            zh = st.zh
            if kd == "raise":
                return z3.And(z3.BoolVal(v.cls is g.NotFoundError), sfo)
            lst = st.ghost.get("links")
            if not isinstance(lst, LRef):
                return z3.BoolVal(False)
            return z3.And(lst.id == list_id, zh["L_n"][list_id] == n, z3.ForAll([j], z3.Implies(z3.And(0 <= j, j < n), step_ok(zh, j))))
        pre = [n >= 0, link_base > 0, z3.ForAll([j], z3.Implies(z3.And(0 <= j), z3.And(link_of(frm[j], to[j], cig[j]) >= 0, link_of(frm[j], to[j], cig[j]) < link_base)))]
        return [Case("steps", [s], post, pre=pre, zh=h0, heap=heap, invariants=inv, models=models,
                     options=dict(alloc_lists=True, ref_fields=("line",)), symbols=dict(n_steps=n, segments_first_order=sfo),
                     replay=lambda w: {"target": "bounded.replay_helpers:path_link_direction_cases"}, confirm=battery_confirm)]
