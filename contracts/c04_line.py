"""C04 (tag / record level) and C18: _parse_gfa_tag, validate_positions, path list sizes, LN vs sequence length."""
import z3
from pyvc.contract import Contract, Case, register
from pyvc.dsl import *
from pyvc.values import *
from pyvc import rx
from . import common, fields


@register
class ParseGfaTag(Contract):
    fn = "gfapy/field/parser.py::Parser._parse_gfa_tag"
    props = ("C04", "C07", "C01")
    fragment = "S"
    doc = ("a tag is accepted iff it is NAME:TYPE:VALUE with NAME = [A-Za-z][A-Za-z0-9], TYPE one of AifZJHB and a non-empty VALUE; the three "
           "components returned are exactly those substrings (so name, datatype and value reappear unchanged); otherwise gfapy.FormatError")

    def cases(self, ctx):
        g = ctx.gfapy
        s = z3.String("tag")
        NAME = rx.fullmatch_lang(r"[A-Za-z][A-Za-z0-9]"); TYPE = rx.fullmatch_lang(r"[AifZJHB]")
        TAG = z3.Concat(NAME, z3.Re(":"), TYPE, z3.Re(":"), z3.Plus(rx.DOT))
        infield = z3.InRe(s, fields.FIELD)
        probe_n = rx.fullmatch_lang(r"x[0-9]"); probe_t = rx.fullmatch_lang(r"[iZ]"); probe_v = rx.fullmatch_lang(r"[0-9]+")
        def post(k, v, st):
            if k == "raise":
                return z3.And(z3.BoolVal(v.cls is g.FormatError), z3.Implies(infield, z3.Not(z3.InRe(s, TAG))))
            if not isinstance(v, list) or len(v) != 3 or not all(isinstance(x, VStr) for x in v):
                return z3.BoolVal(False)
            n, t, val = v
            mem = lambda x, R: z3.InRe(x.root, x.lift(R))
            # the components are the right substrings: checked through three probe languages (name, type, value)
            comp = z3.And(mem(n, probe_n) == z3.InRe(s, z3.Concat(probe_n, z3.Re(":"), TYPE, z3.Re(":"), z3.Plus(rx.DOT), z3.Option(rx.NL))),
                          mem(t, probe_t) == z3.InRe(s, z3.Concat(NAME, z3.Re(":"), probe_t, z3.Re(":"), z3.Plus(rx.DOT), z3.Option(rx.NL))),
                          mem(val, probe_v) == z3.InRe(s, z3.Concat(NAME, z3.Re(":"), TYPE, z3.Re(":"), probe_v, z3.Option(rx.NL))))
            return z3.And(z3.Implies(infield, z3.InRe(s, TAG)), comp)
        return [Case("str", [s], post, symbols={"tag": s},
                     replay=lambda w: {"target": "gfapy.field.parser:Parser._parse_gfa_tag", "args": [w["tag"]]}, expect_paths=2)]


@register
class ValidateLength(Contract):
    fn = "gfapy/line/segment/length_gfa1.py::LengthGFA1.validate_length"
    props = ("C04",)
    doc = "a GFA1 segment with a sequence and an LN tag is rejected (InconsistencyError) iff LN differs from the sequence length"

    def cases(self, ctx):
        g = ctx.gfapy
        ln, sl = z3.Int("LN"), z3.Int("seqlen")
        has_seq, has_ln = z3.Bool("has_sequence"), z3.Bool("has_LN")
        s = Obj(g.line.segment.GFA1, "S")
        seq = Obj(None, "sequence")
        heap = {s.oid: {"sequence": seq, "LN": ln}, seq.oid: {}}
        import builtins
        def m_len(E, st, pos_, kw):
            yield ("val", sl, [])
        models = {g.is_placeholder: const_model(lambda x: z3.Not(has_seq)), builtins.len: m_len}
        def post(k, v, st):
            bad = z3.And(has_seq, has_ln, ln != sl)
            if k == "raise":
                return z3.And(z3.BoolVal(v.cls is g.InconsistencyError), bad)
            return z3.Not(bad)
        heap[s.oid]["tagnames"] = TagNames(has_ln)
        return [Case("S", [s], post, pre=[sl >= 0], heap=heap, symbols=dict(LN=ln, seqlen=sl, has_sequence=has_seq, has_LN=has_ln), models=models,
                     minimize=[ln, sl])]


class TagNames:
    """abstract tag-name list: only membership of 'LN' is observable"""
    def __init__(self, has_ln):
        self.has_ln = has_ln

    def pyvc_contains(self, E, x):
        if conc(x) == "LN":
            return self.has_ln
        raise Unsupported("membership of %r in tagnames" % (x,))


@register
class EdgeValidatePositions(Contract):
    fn = "gfapy/line/edge/gfa2/validation.py::Validation.validate_positions"
    props = ("C04",)
    doc = ("`$` only on a segment's last position, for a connected E line: InconsistencyError iff for one of the TWO segments (each one is "
           "checked, whatever the other looks like) the sequence is known and beg or end carries `$` on a value different from the sequence "
           "length; nothing else is raised; an unconnected line is not checked. (The rule for segments whose sequence is `*` is a known "
           "finding, see known_findings.jsonl: the declared length slen is not consulted.)")

    def cases(self, ctx):
        g = ctx.gfapy
        connected = z3.Bool("connected")
        known = {n: z3.Bool("sequence%s_known" % n) for n in "12"}
        slen = {n: z3.Int("sequence%s_length" % n) for n in "12"}
        P = {f: pos(f) for f in ("beg1", "end1", "beg2", "end2")}
        e = Obj(g.line.edge.GFA2, "edge")
        segs = {n: Obj(g.line.segment.GFA2, "segment" + n) for n in "12"}
        seqs = {n: Obj(None, "sequence" + n) for n in "12"}
        ols = {n: Obj(g.OrientedLine, "sid" + n) for n in "12"}
        heap = {e.oid: {}, **{segs[n].oid: {"sequence": seqs[n]} for n in "12"}, **{ols[n].oid: {"line": segs[n]} for n in "12"}, **{seqs[n].oid: {} for n in "12"}}
        def m_get(E, st, pos_, kw):
            self_, fn_ = pos_
            f = conc(fn_)
            yield ("val", ols[f[-1]] if f.startswith("sid") else P[f], [])
        def m_len(E, st, pos_, kw):
            (x,) = pos_
            for n in "12":
                if isinstance(x, Obj) and x.oid == seqs[n].oid:
                    yield ("val", slen[n], []); return
            raise Unsupported("len of %r" % (x,))
        def m_placeholder(E, st, pos_, kw):
            (x,) = pos_
            for n in "12":
                if isinstance(x, Obj) and x.oid == seqs[n].oid:
                    yield ("val", z3.Not(known[n]), []); return
            raise Unsupported("is_placeholder of %r" % (x,))
        import builtins
        from . import common
        models = dict(common.lastpos_models(ctx))
        models.update({ctx.fn("gfapy/line/common/field_data.py::FieldData.get"): m_get, g.is_placeholder: m_placeholder, builtins.len: m_len,
                       ctx.fn("gfapy/line/common/connection.py::Connection.is_connected"): const_model(lambda self_: connected),
                       builtins.str: const_model(lambda *a: Unknown("text"))})
        def bad(n):
            return z3.And(known[n], z3.Or(*[z3.And(P[f + n].last, P[f + n].v != slen[n]) for f in ("beg", "end")]))
        wrong = z3.And(connected, z3.Or(bad("1"), bad("2")))
        def post(k, v, st):
            if k == "raise":
                return z3.And(z3.BoolVal(v.cls is g.InconsistencyError), wrong)
            return z3.Not(wrong)
        sym = dict(connected=connected, **{"sequence%s_known" % n: known[n] for n in "12"}, **{"sequence%s_length" % n: slen[n] for n in "12"}, **P)
        pre = [slen[n] >= 1 for n in "12"] + [P[f].v >= 0 for f in P]
        return [Case("positions", [e], post, pre=pre, heap=heap, models=models, symbols=sym, minimize=[slen["1"], slen["2"]],
                     replay=lambda w: {"target": "bounded.replay_helpers:edge_dollar_cases"}, confirm=battery_confirm)]


@register
class ValidateInterval(Contract):
    fn = "gfapy/line/edge/gfa2/validation.py::validate_interval"
    props = ("C04", "C07")
    doc = ("the two positions of an interval, on the line itself (E and F lines, connected or not): ValueError iff begin > end; FormatError iff "
           "begin <= end, begin is marked `$` and end is not that same marked position (a segment has one last position); nothing else is "
           "raised and every other pair of parsed positions is accepted")

    def cases(self, ctx):
        g = ctx.gfapy
        b, e = pos("b"), pos("e")
        table = [(g.ValueError, b.v > e.v), (g.FormatError, z3.And(b.v <= e.v, b.last, z3.Or(z3.Not(e.last), e.v != b.v)))]
        def post(k, v, st):
            return raises_iff(k, v, table, lambda r: z3.BoolVal(r is None))
        return [Case("pos", [Obj(g.Line, "line"), b, e], post, pre=[b.v >= 0, e.v >= 0], symbols={"b": b, "e": e}, models=common.lastpos_models(ctx), minimize=[b.v, e.v],
                     replay=lambda w: {"target": "gfapy.line.edge.gfa2.validation:validate_interval", "args": [None, w["b"], w["e"]]})]


def _interval_callers(cls_path, label, fields_):
    class VI(Contract):
        id = "ValidateIntervals_" + label
        fn = cls_path
        props = ("C04",)
        doc = "%s lines: validation checks each of the two intervals (%s) with validate_interval, nothing else" % (label, ", ".join("%s/%s" % p for p in fields_))

        def cases(self, ctx):
            g = ctx.gfapy
            s = Obj(g.Line, "line")
            vals = {f: Obj(None, f) for p in fields_ for f in p}
            def m_get(E, st, pos_, kw):
                yield ("val", vals[conc(pos_[1])], [])
            def m_vi(E, st, pos_, kw):
                pair = tuple(k for k, v in vals.items() if v is pos_[1] or v is pos_[2])
                yield ("val", None, [], ev(st, pair if pos_[0] is s else ("wrong-line",)))
            from .connect import ev
            models = {ctx.fn("gfapy/line/common/field_data.py::FieldData.get"): m_get, ctx.fn("gfapy/line/edge/gfa2/validation.py::validate_interval"): m_vi}
            def post(k, v, st):
                # each interval is checked exactly once, in whatever order
                return z3.BoolVal(k == "return" and sorted(st.ghost.get("events", ())) == sorted(tuple(p) for p in fields_))
            return [Case("calls", [s], post, heap={s.oid: {}}, models=models)]
    VI.__name__ = VI.id
    return register(VI)


_interval_callers("gfapy/line/edge/gfa2/validation.py::Validation._validate_record_type_specific_info", "E", (("beg1", "end1"), ("beg2", "end2")))
_interval_callers("gfapy/line/fragment/validation.py::Validation._validate_record_type_specific_info", "F", (("s_beg", "s_end"), ("f_beg", "f_end")))
