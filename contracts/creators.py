"""C13 / C18 — Creators.__add_line_unknown_version: the version decision as a function of the kind of the arriving line, and
the propagation of the Gfa's validation level / dialect to every line it constructs."""
import z3
from pyvc.contract import Contract, Case, register
from pyvc.dsl import *
from pyvc.values import *

RT = ["#", "H", "S", "E", "F", "G", "U", "O", "L", "C", "P", "X"]
GFA2_ONLY = ["E", "F", "G", "U", "O"]


class Queue:
    """the `_line_queue` list: appends are counted in ghost state"""
    def pyvc_attr(self, E, attr, st):
        if attr != "append":
            raise Unsupported("_line_queue.%s" % attr)
        yield ("val", _Call(lambda E, pos, kw, st: iter([("val", None, st.with_ghost("queued", st.ghost.get("queued", 0) + 1))])), st)


class _Call:
    def __init__(self, f):
        self.f = f

    def pyvc_call(self, E, pos, kw, st):
        yield from self.f(E, pos, kw, st)


class LineText:
    """the string being added: only its record type (first field) is observed"""
    pyvc_class = str

    def __init__(self, rt):
        self.rt = rt

    def pyvc_getitem(self, E, i, st):
        yield ("val", self.rt, st)          # text[0]: the record types of the case are single characters

    def pyvc_attr(self, E, attr, st):
        if attr != "split":
            raise Unsupported("text.%s" % attr)
        yield ("val", _Call(lambda E, pos, kw, st: iter([("val", [self.rt], st)])), st)


@register
class AddLineUnknownVersion(Contract):
    fn = "gfapy/lines/creators.py::Creators.__add_line_unknown_version"
    props = ("C13", "C18", "C08")
    fragment = "H"
    doc = ("(C08) a line that cannot be parsed, or a header that cannot be merged, is refused with the Gfa unchanged: version, guess, queue, "
           "number of input header lines, nothing connected or processed. While the version is unknown: a comment is connected; a header is merged and fixes the version iff it carries VN (1.0 -> gfa1, 2.0 -> gfa2, "
           "anything else is refused by _validate_version at level >= 1); a segment fixes the version to its own syntax; E F G U O fix gfa2; in these "
           "cases the queue is processed exactly once, after the version is set, and the line is connected; L C P set the guess to gfa1 and are queued; "
           "any other record is queued. (C13) In a Gfa of the rGFA dialect a line which would fix the version gfa2 (a GFA2 segment, E F G U O, VN 2.0) is refused with VersionError, "
           "at every level and before anything is kept. Every line built from a string receives the Gfa's vlevel (comments excepted) and dialect.")

    def cases(self, ctx):
        g = ctx.gfapy
        rt, prt = enum("rt", RT)
        vl = z3.Int("vlevel")
        vn = z3.String("VN")
        has_vn = z3.Bool("header_has_VN")
        segv, pv = enum("segment_version", ["gfa1", "gfa2"])
        s = Obj(g.Gfa, "gfa")
        hdr = Obj(g.line.Header, "header")
        dialect = Obj(None, "dialect")
        heap = {s.oid: {"_vlevel": vl, "_dialect": dialect, "_version": None, "_version_guess": "gfa2", "_version_explanation": None,
                        "_line_queue": Queue(), "_n_input_header_lines": z3.Int("nh"), "header": hdr}, hdr.oid: {}, dialect.oid: {}}
        text = LineText(rt)
        parse_ok, merge_ok = z3.Bool("line_can_be_parsed"), z3.Bool("header_can_be_merged")
        rgfa = z3.Bool("dialect_is_rgfa")
        nh0 = heap[s.oid]["_n_input_header_lines"]
        def m_line_ctor(E, st, pos_, kw):
            yield ("raise", Exc(g.FormatError), [z3.Not(parse_ok)], st.with_ghost("failed_at", "parse"))
            ln = Obj(g.Line, "built")
            st2 = st.with_ghost("built", st.ghost.get("built", 0) + 1)
            st2 = st2.with_ghost("vlevel_ok", ("vlevel" in kw and kw["vlevel"] is vl))
            st2 = st2.with_ghost("dialect_ok", kw.get("dialect") is dialect)
            st2 = st2.setattr(ln, "VN", Opt(z3.Not(has_vn), vn)).setattr(ln, "version", segv).setattr(ln, "name", Unknown("name"))
            yield ("val", ln, [parse_ok], st2)
        def cur_version(st):
            v = st.attrs(s).get("_version")
            return v.val if isinstance(v, Opt) else v
        def m_connect(E, st, pos_, kw):
            yield ("val", None, [], st.with_ghost("connected", st.ghost.get("connected", 0) + 1).with_ghost("connected_after_process", bool(st.ghost.get("processed"))))
        def m_merge(E, st, pos_, kw):
            yield ("raise", Exc(g.InconsistencyError), [z3.Not(merge_ok)], st.with_ghost("failed_at", "merge"))
            yield ("val", None, [merge_ok], st.with_ghost("merged", st.ghost.get("merged", 0) + 1))
        def m_process(E, st, pos_, kw):
            yield ("val", None, [], st.with_ghost("processed", st.ghost.get("processed", 0) + 1).with_ghost("version_known_at_process", cur_version(st) is not None))
        def m_validate_version(E, st, pos_, kw):
            v = cur_version(st)
            bad = z3.BoolVal(v not in ("gfa1", "gfa2")) if (isinstance(v, str) or v is None) else z3.Not(z3.Or(S(v) == sv("gfa1"), S(v) == sv("gfa2")))
            yield ("raise", Exc(g.VersionError), [bad])
            yield ("val", None, [z3.Not(bad)])
        def m_dialect(E, st, pos_, kw):
            v = pos_[-1]
            is2 = z3.BoolVal(v == "gfa2") if isinstance(v, str) else (S(v) == sv("gfa2"))
            clean = (cur_version(st) is None and not any(st.ghost.get(k_) for k_ in ("merged", "processed", "connected", "queued")))
            yield ("raise", Exc(g.VersionError), [z3.And(rgfa, is2)], st.with_ghost("failed_at", "dialect" if clean else "dialect-too-late"))
            yield ("val", None, [z3.Not(z3.And(rgfa, is2))], st)
        models = {g.Line: m_line_ctor,
                  (ctx.fn_opt("gfapy/gfa.py::Gfa._check_version_allowed_by_dialect") or "no-dialect-check-in-this-tree"): m_dialect,
                  ctx.fn("gfapy/line/common/connection.py::Connection.connect"): m_connect,
                  ctx.fn("gfapy/line/header/multiline.py::Multiline._merge"): m_merge,
                  ctx.fn("gfapy/lines/creators.py::Creators.process_line_queue"): m_process,
                  ctx.fn("gfapy/gfa.py::Gfa._validate_version"): m_validate_version}
        def isrt(*xs):
            return z3.Or(*[rt == sv(x) for x in xs])
        def post(k, v, st):
            gh = st.ghost
            ver = cur_version(st)
            guess = st.attrs(s).get("_version_guess")
            def ver_eq(x):
                if ver is None or isinstance(ver, str):
                    return z3.BoolVal(ver == x)
                return S(ver) == (sv(x) if isinstance(x, str) else x) if x is not None else z3.BoolVal(False)
            n = lambda key: gh.get(key, 0)
            decides2 = z3.Or(z3.And(rt == sv("S"), segv == sv("gfa2")), isrt(*GFA2_ONLY), z3.And(rt == sv("H"), has_vn, vn == sv("2.0")))
            if k == "raise":
                if gh.get("failed_at") in ("parse", "merge"):
                    nh = st.attrs(s).get("_n_input_header_lines")
                    unchanged = z3.And(ver_eq(None), z3.BoolVal(guess == "gfa2"), S(nh) == nh0,
                                       z3.BoolVal(n("queued") == 0 and n("processed") == 0 and n("connected") == 0 and n("merged") == 0))
                    return z3.And(z3.BoolVal(issubclass(v.cls, g.Error)), unchanged, z3.Not(parse_ok) if gh.get("failed_at") == "parse" else z3.Not(merge_ok))
                if gh.get("failed_at") == "dialect":
                    nh = st.attrs(s).get("_n_input_header_lines")
                    return z3.And(z3.BoolVal(v.cls is g.VersionError), rgfa, decides2, parse_ok, ver_eq(None), z3.BoolVal(guess == "gfa2"), S(nh) == nh0,
                                  z3.BoolVal(n("queued") == 0 and n("processed") == 0 and n("connected") == 0 and n("merged") == 0))
                if gh.get("failed_at") == "dialect-too-late":
                    return z3.BoolVal(False)
                nh = st.attrs(s).get("_n_input_header_lines")
                return z3.And(z3.BoolVal(v.cls is g.VersionError), rt == sv("H"), has_vn, vn != sv("1.0"), vn != sv("2.0"),            # at EVERY level: only 1.0 and 2.0 name a version
                              # (C08) the unsupported version is refused before anything of the line is kept
                              ver_eq(None), S(nh) == nh0, z3.BoolVal(n("merged") == 0 and n("processed") == 0 and n("queued") == 0))
            version_ok = z3.If(rt == sv("H"), z3.If(has_vn, z3.If(vn == sv("1.0"), ver_eq("gfa1"), z3.If(vn == sv("2.0"), ver_eq("gfa2"), z3.BoolVal(False))), ver_eq(None)),
                         z3.If(rt == sv("S"), ver_eq(segv), z3.If(isrt(*GFA2_ONLY), ver_eq("gfa2"), ver_eq(None))))
            decides = z3.Or(rt == sv("S"), isrt(*GFA2_ONLY), z3.And(rt == sv("H"), has_vn))
            queued_kind = z3.Not(isrt("#", "H", "S", *GFA2_ONLY))
            return z3.And(
                version_ok, z3.Not(z3.And(rgfa, decides2)),          # C13: the dialect rGFA contradicts every line that would make the Gfa GFA2
                z3.If(queued_kind, z3.BoolVal(n("queued") == 1 and n("connected") == 0 and n("processed") == 0), z3.BoolVal(n("queued") == 0)),
                z3.If(decides, z3.BoolVal(n("processed") == 1 and bool(gh.get("version_known_at_process"))), z3.BoolVal(n("processed") == 0)),
                z3.If(isrt("L", "C", "P"), z3.BoolVal(guess == "gfa1"), z3.BoolVal(guess == "gfa2")),
                z3.If(isrt("#", "S", *GFA2_ONLY), z3.BoolVal(n("connected") == 1), z3.BoolVal(n("connected") == 0)),
                z3.If(isrt("S", *GFA2_ONLY), z3.BoolVal(bool(gh.get("connected_after_process")) or n("connected") == 0), z3.BoolVal(True)),
                z3.If(rt == sv("H"), z3.BoolVal(n("merged") == 1), z3.BoolVal(n("merged") == 0)),
                # C18: the Gfa's level and dialect reach every line built here (a comment carries no validated field)
                z3.If(isrt("H", "S", *GFA2_ONLY), z3.BoolVal(n("built") == 1 and bool(gh.get("vlevel_ok")) and bool(gh.get("dialect_ok"))), z3.BoolVal(True)))
        pre = [prt, pv, vl >= 0, vl <= 3, z3.Implies(has_vn, vn != sv(""))]      # a tag value is never empty (tag grammar)
        return [Case("str", [s, text], post, pre=pre, heap=heap, symbols=dict(rt=rt, vlevel=vl, VN=vn, header_has_VN=has_vn, segment_version=segv, line_can_be_parsed=parse_ok, header_can_be_merged=merge_ok, dialect_is_rgfa=rgfa),
                     models=models, minimize=[vl], expect_paths=8,
                     replay=lambda w: {"target": "bounded.replay_helpers:add_line_unknown_version",
                                       "args": [w["rt"], w["vlevel"], w["VN"], w["header_has_VN"], w["segment_version"], w.get("line_can_be_parsed", True), w.get("header_can_be_merged", True), w.get("dialect_is_rgfa", False)]},
                     confirm=battery_confirm)]


def _known_version_contract(own, other, fname, own_vn, other_only, own_rts):
    class AddLineKnown(Contract):
        id = "AddLineVersion_" + own
        fn = "gfapy/lines/creators.py::Creators." + fname
        props = ("C13", "C18", "C08")
        fragment = "H"
        doc = ("a line given as text to a Gfa whose version is %s: a header is merged iff it names no version or %s - any other VN (also one that "
               "merely begins like it) is refused with VersionError before anything is kept; a segment written in the %s syntax is refused with "
               "VersionError before it is connected; every other record of this version is connected once; the line is built with the Gfa's "
               "validation level and dialect%s" % (own, own_vn, other, "" if own == "gfa2" else ", a non-segment record explicitly as gfa1"))

        def cases(self, ctx):
            g = ctx.gfapy
            rt, prt = enum("rt", ["H", "S", "#"] + own_rts)
            vl = z3.Int("vlevel")
            vn = z3.String("VN")
            has_vn = z3.Bool("header_has_VN")
            segv, pv = enum("segment_version", ["gfa1", "gfa2"])
            s = Obj(g.Gfa, "gfa")
            hdr = Obj(g.line.Header, "header")
            dialect = Obj(None, "dialect")
            nh0 = z3.Int("nh")
            heap = {s.oid: {"_vlevel": vl, "_dialect": dialect, "_version": own, "_version_explanation": None, "_n_input_header_lines": nh0, "header": hdr}, hdr.oid: {}, dialect.oid: {}}
            text = LineText(rt)
            def ev(st, what):
                return st.with_ghost("events", tuple(st.ghost.get("events", ())) + (what,))
            def m_line_ctor(E, st, pos_, kw):
                ln = Obj(g.Line, "built")
                ok = ("vlevel" in kw and kw["vlevel"] is vl) and kw.get("dialect") is dialect
                st2 = ev(st, "built" if ok else "built-with-other-level-or-dialect").with_ghost("version_kw", kw.get("version"))
                st2 = st2.setattr(ln, "VN", Opt(z3.Not(has_vn), vn)).setattr(ln, "version", segv).setattr(ln, "record_type", rt)
                yield ("val", ln, [], st2)
            models = {g.Line: m_line_ctor,
                      ctx.fn("gfapy/line/common/connection.py::Connection.connect"): (lambda E, st, pos_, kw: iter([("val", None, [], ev(st, "connect"))])),
                      ctx.fn("gfapy/line/header/multiline.py::Multiline._merge"): (lambda E, st, pos_, kw: iter([("val", None, [], ev(st, "merge"))]))}
            bad_vn = z3.And(rt == sv("H"), has_vn, vn != sv(own_vn))
            bad_seg = z3.And(rt == sv("S"), segv == sv(other))
            def post(k, v, st):
                e = tuple(st.ghost.get("events", ()))
                nh = st.attrs(s).get("_n_input_header_lines")
                if k == "raise":
                    return z3.And(z3.BoolVal(v.cls is g.VersionError and e == ("built",)), z3.Or(bad_vn, bad_seg), S(nh) == nh0)
                want_kw = z3.If(rt == sv("S"), z3.BoolVal(st.ghost.get("version_kw") is None), z3.BoolVal(st.ghost.get("version_kw") == own))
                return z3.And(z3.Not(bad_vn), z3.Not(bad_seg), want_kw,
                              z3.If(rt == sv("H"), z3.And(z3.BoolVal(e == ("built", "merge")), S(nh) == nh0 + 1),
                                    z3.And(z3.BoolVal(e == ("built", "connect")), S(nh) == nh0)))
            return [Case("text", [s, text], post, pre=[prt, pv, vl >= 0, vl <= 3, z3.Length(vn) >= 1], heap=heap, models=models,          # (a Z tag has at least one character)
                         symbols=dict(rt=rt, vlevel=vl, VN=vn, header_has_VN=has_vn, segment_version=segv), minimize=[vl])]
    AddLineKnown.__name__ = AddLineKnown.id
    return register(AddLineKnown)


_known_version_contract("gfa1", "gfa2", "_Creators__add_line_GFA1", "1.0", GFA2_ONLY, ["L", "C", "P"])
_known_version_contract("gfa2", "gfa1", "_Creators__add_line_GFA2", "2.0", ["L", "C", "P"], GFA2_ONLY + ["X"])
