"""C04 / C07 / C18 (field level): per datatype module, the accept language of validate_encoded and decode equals the oracle
grammar (specs/grammar.py) on every string (free-text datatypes: on document fields), only gfapy.Error subclasses escape for ANY string, and
L(decode) ⊆ L(unsafe_decode)."""
import z3
from pyvc.contract import Contract, Case, register
from pyvc.dsl import *
from pyvc.values import *
from pyvc import rx
from specs import grammar
from . import common

FIELD = rx.fullmatch_lang(r"[^\t\n]*")

# datatype -> (module, functions within PyVC's reach on the pinned tree); the others are decided by the bounded twin only
REACH = {
    "i": ("integer", ["validate_encoded", "decode"]),
    "f": ("float", ["validate_encoded"]),
    "Z": ("string", ["validate_encoded", "decode", "unsafe_decode"]),
    "A": ("char", ["validate_encoded", "decode"]),
    "H": ("byte_array", ["validate_encoded"]),
    "position_gfa1": ("position_gfa1", ["validate_encoded", "decode", "unsafe_decode"]),
    "position_gfa2": ("position_gfa2", ["validate_encoded", "decode", "unsafe_decode"]),
    "optional_integer": ("optional_integer", ["validate_encoded", "decode"]),
    "orientation": ("orientation", ["validate_encoded", "decode", "unsafe_decode"]),
    "segment_name_gfa1": ("segment_name_gfa1", ["validate_encoded", "decode", "unsafe_decode"]),
    "path_name_gfa1": ("path_name_gfa1", ["validate_encoded", "decode", "unsafe_decode"]),
    "sequence_gfa1": ("sequence_gfa1", ["validate_encoded", "decode", "unsafe_decode"]),
    "sequence_gfa2": ("sequence_gfa2", ["validate_encoded", "decode", "unsafe_decode"]),
    "alignment_gfa1": ("alignment_gfa1", ["validate_encoded"]),
    "alignment_gfa2": ("alignment_gfa2", []),          # character scanner loop in Alignment._from_string: out of reach, bounded only
    "alignment_list_gfa1": ("alignment_list_gfa1", ["validate_encoded"]),
    "identifier_gfa2": ("identifier_gfa2", ["validate_encoded", "decode", "unsafe_decode"]),
    "optional_identifier_gfa2": ("optional_identifier_gfa2", ["validate_encoded", "decode", "unsafe_decode"]),
    "oriented_identifier_gfa2": ("oriented_identifier_gfa2", ["validate_encoded", "decode", "unsafe_decode"]),
    "identifier_list_gfa2": ("identifier_list_gfa2", ["validate_encoded"]),
    "oriented_identifier_list_gfa2": ("oriented_identifier_list_gfa2", ["validate_encoded"]),
    "oriented_identifier_list_gfa1": ("oriented_identifier_list_gfa1", ["validate_encoded"]),
    "custom_record_type": ("custom_record_type", ["validate_encoded", "decode", "unsafe_decode"]),
    "generic": ("generic", ["validate_encoded", "decode", "unsafe_decode"]),
    "comment": ("comment", ["validate_encoded", "decode", "unsafe_decode"]),
    "J": ("json", []),
    "B": ("numeric_array", []),
}


def glang(dt):
    return rx.fullmatch_lang(grammar.GRAMMAR[dt])


def alang(dt):
    a = grammar.APPROX.get(dt)
    return rx.fullmatch_lang(a) if a is not None else rx.EMPTYSET


def field_models(ctx):
    """callee contracts shared by the datatype modules"""
    g = ctx.gfapy
    m = dict(common.lastpos_models(ctx))
    m[g.Placeholder] = lambda E, st, pos_, kw: iter([("val", Obj(g.Placeholder, "placeholder"), [])])
    m[g.LastPos] = m_lastpos_new(ctx)
    m[g.OrientedLine] = m_oriented_line(ctx)
    return m


def m_lastpos_new(ctx):
    """contract of LastPos.__new__ (proved in contracts/lastpos_ctor.py): on a str it is _from_string; on an int it is a LastPos
    unless valid is False and the value is negative (gfapy.ValueError)"""
    g = ctx.gfapy
    def m(E, st, pos_, kw):
        value = pos_[0]
        valid = kw.get("valid", pos_[1] if len(pos_) > 1 else False)
        if E.is_text(value):
            f = ctx.fn("gfapy/lastpos.py::LastPos._from_string")
            yield from ((t, v, [], s2) for t, v, s2 in E.call_function(f, [g.LastPos, value], {"valid": valid}, st, "LastPos._from_string"))
            return
        if E.is_int(value):
            v = S(value)
            tv = E.truth(valid)
            yield ("raise", Exc(g.ValueError), [z3.Not(tv), v < 0])
            yield ("val", Pos(v, z3.BoolVal(True)), [z3.Or(tv, v >= 0)])
            return
        raise Unsupported("LastPos(%r)" % (value,))
    return m


def m_oriented_line(ctx):
    g = ctx.gfapy
    def m(E, st, pos_, kw):
        if len(pos_) != 2:
            raise Unsupported("OrientedLine() with %d args" % len(pos_))
        o = Obj(g.OrientedLine, "oline")
        st2 = st.setattr(o, "_OrientedLine__line", pos_[0]).setattr(o, "_OrientedLine__orient", pos_[1]).setattr(o, "_OrientedLine__editable", True)
        yield ("val", o, [], st2)
    return m


def make(dt, mod, fname):
    class FieldFn(Contract):
        id = "Field_%s_%s" % (mod, fname)
        fn = "gfapy/field/%s.py::%s" % (mod, fname)
        TAG_MODULES = ("integer", "float", "string", "char", "json", "byte_array", "numeric_array")
        props = (("C04", "C07", "C18") + (("C20",) if mod in TAG_MODULES else ())) if fname != "unsafe_decode" else ("C07", "C18")
        fragment = "S"
        doc = ("%s.%s: accepts exactly the oracle grammar of datatype %s on all strings (modulo the listed ≈ cells); "
               "only gfapy.Error subclasses escape for any string" % (mod, fname, dt))

        def cases(self, ctx):
            g = ctx.gfapy
            s = z3.String("s")
            G, A = glang(dt), alang(dt)
            # every datatype with a grammar of its own is pinned on ALL strings (a tab or a newline inside a value, as the API can hand
            # over, must be refused: the validators end with \Z since fix "a value followed by a newline ..."); the two free-text
            # datatypes are pinned on what a document field can be
            infield = z3.InRe(s, FIELD) if dt in ("generic", "comment") else z3.BoolVal(True)
            strict = fname != "unsafe_decode"
            def post(k, v, st):
                if k == "raise":
                    c = z3.BoolVal(issubclass(v.cls, g.Error))
                    if strict:
                        c = z3.And(c, z3.Implies(infield, z3.Or(z3.Not(z3.InRe(s, G)), z3.InRe(s, A))))
                    return c
                if strict:
                    return z3.Implies(infield, z3.Or(z3.InRe(s, G), z3.InRe(s, A)))
                return z3.BoolVal(True)
            inline = set()
            import importlib
            m = importlib.import_module("gfapy.field." + mod)
            for nm in ("validate_encoded", "validate_decoded", "unsafe_decode", "decode", "validate_all_printable"):
                f = getattr(m, nm, None)
                if f is not None and getattr(f, "__module__", None) == m.__name__:
                    inline.add(f)
            inline.add(ctx.fn("gfapy/lastpos.py::LastPos._from_string"))
            inline.add(ctx.fn("gfapy/lastpos.py::LastPos.validate"))
            for nm in ("name", "orient", "line"):
                inline.add(g.OrientedLine.__dict__[nm].fget)
            return [Case("str", [s], post, symbols={"s": s}, models=field_models(ctx), inline=inline,
                         replay=lambda w: {"target": "gfapy.field.%s:%s" % (mod, fname), "args": [w["s"]]})]
    FieldFn.__name__ = FieldFn.id
    return register(FieldFn)


for _dt, (_mod, _fns) in REACH.items():
    for _f in _fns:
        make(_dt, _mod, _f)


# ---------------------------------------------------------------------------------------- JSON: exception escape only (C07)
def _json_contract(fname):
    class JF(Contract):
        id = "Field_json_%s_escape" % fname
        fn = "gfapy/field/json.py::%s" % fname
        props = ("C07",)
        fragment = "S"
        doc = ("json.%s: whatever json.loads does (assumed contract: it returns, or raises json.JSONDecodeError, or RecursionError on deep nesting), "
               "only gfapy.Error subclasses escape" % fname)

        def cases(self, ctx):
            import json
            g = ctx.gfapy
            s = z3.String("s")
            outcome = {}
            def m_loads(E, st, pos_, kw):
                # json.loads is a function of its argument: the same text gives the same outcome on every call
                key = repr(pos_[0])
                if key not in outcome:
                    outcome[key] = (fresh("json_malformed", B), fresh("json_too_deep", B))
                bad, deep = outcome[key]
                yield ("val", Unknown("json value"), [z3.Not(bad), z3.Not(deep)])
                yield ("raise", Exc(json.JSONDecodeError), [bad, z3.Not(deep)])
                yield ("raise", Exc(RecursionError), [deep])
            import importlib
            m = importlib.import_module("gfapy.field.json")
            inline = {getattr(m, n) for n in ("validate_encoded", "validate_all_printable", "unsafe_decode", "decode") if hasattr(m, n)}
            def post(k, v, st):
                return z3.BoolVal(issubclass(v.cls, g.Error)) if k == "raise" else z3.BoolVal(True)
            return [Case("str", [s], post, symbols={"s": s}, models={json.loads: m_loads}, inline=inline,
                         replay=lambda w: {"target": "bounded.replay_helpers:json_escape", "args": [fname]},
                         confirm=battery_confirm)]
    JF.__name__ = JF.id
    return register(JF)


for _f in ("validate_encoded", "decode"):
    _json_contract(_f)


# ---------------------------------------------------------------------------------------- decoded lists (C18: what validate() and level 3 check)
@register
class IdentifierListValidateDecoded(Contract):
    id = "Field_identifier_list_gfa2_validate_decoded"
    fn = "gfapy/field/identifier_list_gfa2.py::validate_decoded"
    props = ("C18", "C04", "C07")
    fragment = "L"
    doc = ("the items of a U line as a decoded value (a list of identifiers): accepted iff the list is not empty and every element is a GFA2 "
           "identifier ([!-~]+); ValueError for the empty list, FormatError for a malformed element; all list lengths (loop invariant)")

    def cases(self, ctx):
        g = ctx.gfapy
        n = z3.Int("n_items")
        el = z3.Const("item", z3.ArraySort(I, Str))
        k, j = z3.Int("k"), z3.Int("j")
        items = SList(n, z3.Lambda([k], k), lambda t: el[t])
        IDENT = rx.fullmatch_lang(r"[!-~]+")
        ok = lambda t: z3.InRe(el[t], IDENT)
        inv = {("validate_decoded", 0): dict(inv=lambda i, st: z3.And(i <= n, z3.ForAll([j], z3.Implies(z3.And(0 <= j, j < i), ok(j)))),
                                             mod={"elem": lambda nm: fresh(nm, Str)})}
        allok = z3.ForAll([j], z3.Implies(z3.And(0 <= j, j < n), ok(j)))
        def post(kd, v, st):
            if kd == "raise":
                if v.cls is g.ValueError:
                    return n == 0
                if v.cls is g.FormatError:
                    return z3.And(n > 0, z3.Not(allok))
                return z3.BoolVal(False)
            return z3.And(n > 0, allok)
        return [Case("strings", [items], post, pre=[n >= 0], invariants=inv, symbols=dict(n_items=n), minimize=[n],
                     replay=lambda w: {"target": "bounded.replay_helpers:field_to_s_cases"}, confirm=battery_confirm)]
