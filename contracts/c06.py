"""C06 — GFA1 -> GFA2 coordinates and GFA2 -> GFA1 readings.  Spec (from the GFA specifications, written independently):
a coordinate c on a segment of length L >= 1 is written c$ iff c = L; a link overlaps the from segment with its suffix when
the from orientation is + (prefix when -) over length_on_reference bases, and the to segment with its prefix when the to
orientation is + (suffix when -) over length_on_query bases; a containment covers [pos, pos+ref] of the container and the
whole contained segment."""
import z3
from pyvc.contract import Contract, Case, register
from pyvc.dsl import *
from pyvc.values import *
from . import common

ORI = ["+", "-"]


def mkpos(c, L):
    """the position c on a segment of length L as the specification writes it"""
    return Pos(c, c == L)


def spec_link_from(o, L, ref):
    return [z3.If(o == sv("+"), L - ref, 0), z3.If(o == sv("+"), L, ref)]


def spec_link_to(o, L, qry):
    return [z3.If(o == sv("+"), 0, L - qry), z3.If(o == sv("+"), qry, L)]


def m_lastpos_sub(E, st, pos_, kw):
    """contract of LastPos.__sub__ (proved below): p - o = LastPos(value) if int(o) = 0 else the int value - int(o)"""
    p, o = pos_
    ov = o.v if isinstance(o, Pos) else S(o)
    if isinstance(p, Pos):
        # int - int when p is a plain int; LastPos.__sub__ when p is a LastPos
        yield ("val", Pos(p.v, z3.BoolVal(True)), [p.last, ov == 0])
        yield ("val", p.v - ov, [p.last, ov != 0])
        if not isinstance(o, Pos):
            yield ("val", p.v - ov, [z3.Not(p.last)])
        return
    raise Unsupported("LastPos.__sub__ on %r" % (p,))


@register
class LastPosSub(Contract):
    fn = "gfapy/lastpos.py::LastPos.__sub__"
    props = ("C06",)
    doc = "LastPos(v) - o = LastPos(v) if int(o) = 0 else v - int(o) (an int)"

    def cases(self, ctx):
        g = ctx.gfapy
        v, o = z3.Int("v"), z3.Int("o")
        s = Obj(g.LastPos, "lastpos")
        heap = {s.oid: {"value": v}}
        def post(k, r, st):
            if k != "return":
                return z3.BoolVal(False)
            if isinstance(r, Pos):
                return z3.And(o == 0, r.v == v, r.last)
            if isinstance(r, tuple) and r and r[0] == "opaque":
                return z3.BoolVal(False)
            return z3.And(o != 0, S(r) == v - o)
        def m_lastpos(E, st, pos_, kw):
            yield ("val", Pos(S(pos_[0]), z3.BoolVal(True)), [S(pos_[0]) >= 0])
            yield ("raise", Exc(g.ValueError), [S(pos_[0]) < 0])
        return [Case("int", [s, o], post, pre=[v >= 0], heap=heap, symbols={"v": v, "o": o}, models={g.LastPos: m_lastpos}, minimize=[v, o],
                     replay=lambda w: {"target": "gfapy.lastpos:LastPos.__sub__", "self": {"pos": w["v"], "last": True}, "args": [w["o"]]}, expect_paths=2)]


def _link_shape(ctx, cls, with_pos=False):
    g = ctx.gfapy
    fo, p1 = enum("fo", ORI); to, p2 = enum("to", ORI)
    Lf, Lt, ref, qry = z3.Int("Lf"), z3.Int("Lt"), z3.Int("ref"), z3.Int("qry")
    s = Obj(cls, "edge"); ov = Obj(g.CIGAR, "overlap"); fs = Obj(g.line.segment.GFA1, "fromseg"); ts = Obj(g.line.segment.GFA1, "toseg")
    heap = {s.oid: {"from_orient": fo, "to_orient": to, "overlap": ov, "from_segment": fs, "to_segment": ts},
            ov.oid: {}, fs.oid: {"length": Lf}, ts.oid: {"length": Lt}}
    pre = [p1, p2, Lf >= 1, Lt >= 1, ref >= 0, qry >= 0, ref <= Lf, qry <= Lt]
    sym = {"fo": fo, "to": to, "Lf": Lf, "Lt": Lt, "ref": ref, "qry": qry}
    models = {
        ("LastPos.__sub__",): m_lastpos_sub,
        g.CIGAR.length_on_reference: const_model(lambda self_: ref),
        g.CIGAR.length_on_query: const_model(lambda self_: qry),
        ctx.fn("gfapy/line/edge/gfa1/to_gfa2.py::ToGFA2._check_overlap"): const_model(lambda self_: None),
        ctx.fn("gfapy/line/edge/gfa1/to_gfa2.py::ToGFA2._lastpos_of"):
            const_model(lambda self_, field: Pos(Lf if conc(field) == "from_segment" else Lt, z3.BoolVal(True))),
        g.LastPos: lambda E, st, pos_, kw: iter([("val", Pos(common._posarg(pos_[0]).v, z3.BoolVal(True)), [])]),
    }
    return s, heap, pre, sym, models, (fo, to, Lf, Lt, ref, qry)


def _coords_post(want, L):
    def post(k, r, st):
        if k != "return" or not isinstance(r, (list, tuple)) or len(r) != 2:
            return z3.BoolVal(False)
        out = []
        for got, w in zip(r, want):
            gp = got if isinstance(got, Pos) else (Pos(S(got), z3.BoolVal(False)) if not isinstance(got, tuple) else None)
            if gp is None:
                return z3.BoolVal(False)
            out.append(z3.And(gp.v == w, gp.last == (w == L)))
        return z3.And(*out)
    return post


def _cigar_for(ref, qry):
    """a CIGAR with the given reference / query lengths for the replay"""
    m = min(ref, qry)
    s = ("%dM" % m if m else "") + ("%dD" % (ref - m) if ref > m else "") + ("%dI" % (qry - m) if qry > m else "")
    return s or "0M"


def _link_replay(kind, which):
    def r(w):
        seqf = "S\tA\t*\tLN:i:%d" % w["Lf"]; seqt = "S\tB\t*\tLN:i:%d" % w["Lt"]
        if kind == "L":
            line = "L\tA\t%s\tB\t%s\t%s" % (w["fo"], w["to"], _cigar_for(w["ref"], w["qry"]))
        else:
            line = "C\tA\t%s\tB\t%s\t%d\t%s" % (w["fo"], w["to"], w.get("pos", 0), _cigar_for(w["ref"], w["qry"]))
        return {"target": "gfapy.line.edge.%s.to_gfa2:ToGFA2.%s" % ("link" if kind == "L" else "containment", which),
                "self": {"gfa": [seqf, seqt, line], "vlevel": 0, "nth": 2}}
    return r


@register
class LinkFromCoords(Contract):
    fn = "gfapy/line/edge/link/to_gfa2.py::ToGFA2.from_coords"
    props = ("C06",)
    doc = "link, from side: + -> [Lf-ref, Lf], - -> [0, ref]; each coordinate carries $ iff it equals Lf"

    def cases(self, ctx):
        g = ctx.gfapy
        s, heap, pre, sym, models, (fo, to, Lf, Lt, ref, qry) = _link_shape(ctx, g.line.edge.Link)
        return [Case("L", [s], _coords_post(spec_link_from(fo, Lf, ref), Lf), pre=pre, heap=heap, symbols=sym, models=models,
                     inline={ctx.fn_opt("gfapy/line/edge/gfa1/to_gfa2.py::ToGFA2._end_position")} - {None},
                     minimize=[Lf, Lt, ref, qry], replay=_link_replay("L", "from_coords"), expect_paths=2)]


@register
class LinkToCoords(Contract):
    fn = "gfapy/line/edge/link/to_gfa2.py::ToGFA2.to_coords"
    props = ("C06",)
    doc = "link, to side: + -> [0, qry], - -> [Lt-qry, Lt]; each coordinate carries $ iff it equals Lt"

    def cases(self, ctx):
        g = ctx.gfapy
        s, heap, pre, sym, models, (fo, to, Lf, Lt, ref, qry) = _link_shape(ctx, g.line.edge.Link)
        return [Case("L", [s], _coords_post(spec_link_to(to, Lt, qry), Lt), pre=pre, heap=heap, symbols=sym, models=models,
                     inline={ctx.fn_opt("gfapy/line/edge/gfa1/to_gfa2.py::ToGFA2._end_position")} - {None},
                     minimize=[Lf, Lt, ref, qry], replay=_link_replay("L", "to_coords"), expect_paths=2)]


@register
class ContainmentFromCoords(Contract):
    fn = "gfapy/line/edge/containment/to_gfa2.py::ToGFA2.from_coords"
    props = ("C06",)
    doc = "containment, container side: [pos, pos+ref], $ iff the coordinate equals the container's length"

    def cases(self, ctx):
        g = ctx.gfapy
        s, heap, pre, sym, models, (fo, to, Lf, Lt, ref, qry) = _link_shape(ctx, g.line.edge.Containment)
        p = z3.Int("pos")
        heap[s.oid]["pos"] = p
        pre = pre + [p >= 0, p + ref <= Lf, p < Lf]
        sym = dict(sym, pos=p)
        return [Case("C", [s], _coords_post([p, p + ref], Lf), pre=pre, heap=heap, symbols=sym, models=models, minimize=[Lf, Lt, ref, qry, p],
                     replay=_link_replay("C", "from_coords"), expect_paths=2)]


@register
class ContainmentToCoords(Contract):
    fn = "gfapy/line/edge/containment/to_gfa2.py::ToGFA2.to_coords"
    props = ("C06",)
    doc = "containment, contained side: the whole segment [0, Lt$]"

    def cases(self, ctx):
        g = ctx.gfapy
        s, heap, pre, sym, models, (fo, to, Lf, Lt, ref, qry) = _link_shape(ctx, g.line.edge.Containment)
        return [Case("C", [s], _coords_post([z3.IntVal(0), Lt], Lt), pre=pre, heap=heap, symbols=sym, models=models, minimize=[Lf, Lt],
                     replay=_link_replay("C", "to_coords"))]


def _coord_accessor(name, which, idx):
    class Acc(Contract):
        id = "GFA1Edge_" + name
        fn = "gfapy/line/edge/gfa1/to_gfa2.py::ToGFA2." + name
        props = ("C06",)
        doc = "%s = %s[%d]" % (name, which, idx)

        def cases(self, ctx):
            g = ctx.gfapy
            a, b = pos("a"), pos("b")
            s = Obj(g.line.edge.Link, "edge")
            heap = {s.oid: {which: [a, b]}}
            want = [a, b][idx]
            return [Case("L", [s], lambda k, r, st: result_is(k, r, want), pre=[a.v >= 0, b.v >= 0], heap=heap, symbols={"a": a, "b": b},
                         replay=lambda w: {"target": "gfapy.line.edge.gfa1.to_gfa2:ToGFA2." + name, "self": {"ns": {which: [w["a"], w["b"]]}}})]
    Acc.__name__ = Acc.id
    return register(Acc)


for _n, _w, _i in (("beg1", "from_coords", 0), ("end1", "from_coords", 1), ("beg2", "to_coords", 0), ("end2", "to_coords", 1)):
    _coord_accessor(_n, _w, _i)


# ---------------------------------------------------------------------------------------- E -> L/C reading
@register
class EdgeOverlapDirection(Contract):
    fn = "gfapy/line/edge/gfa2/to_gfa1.py::ToGFA1.overlap"
    props = ("C06", "C12")
    doc = ("the GFA1 overlap of an E line is its alignment read with the from segment as reference: the alignment itself when sid1 is the "
           "from segment, its complement when sid2 is")

    def cases(self, ctx):
        g = ctx.gfapy
        is1 = z3.Bool("sid1_is_from")
        aln = Obj(g.CIGAR, "alignment"); comp = Obj(g.CIGAR, "complement")
        s = Obj(g.line.edge.GFA2, "E")
        heap = {s.oid: {"alignment": aln}, aln.oid: {}, comp.oid: {}}
        models = {ctx.fn("gfapy/line/edge/gfa2/to_gfa1.py::ToGFA1._is_sid1_from"): const_model(lambda self_: is1),
                  ctx.fn("gfapy/line/edge/gfa2/to_gfa1.py::ToGFA1._check_not_internal"): const_model(lambda self_, fn: None),
                  g.CIGAR.complement: const_model(lambda self_: comp)}
        def post(k, r, st):
            if k == "return" and st is None and isinstance(r, tuple) and r and r[0] == "cigar":      # replay on a real E line
                return z3.If(is1, z3.BoolVal(r[1] == [[1, "M"], [1, "D"], [1, "M"]]), z3.BoolVal(r[1] == [[1, "M"], [1, "I"], [1, "M"]]))
            if k != "return" or not isinstance(r, Obj):
                return z3.BoolVal(False)
            return z3.If(is1, z3.BoolVal(r.oid == aln.oid), z3.BoolVal(r.oid == comp.oid))
        def replay(w):
            pos_ = "6\t8$\t0\t2" if w["sid1_is_from"] else "0\t2\t6\t8$"
            return {"target": "gfapy.line.edge.gfa2.to_gfa1:ToGFA1.overlap", "self": {"line": "E\t*\tA+\tB+\t%s\t1M1D1M" % pos_, "vlevel": 0}}
        return [Case("E", [s], post, heap=heap, symbols={"sid1_is_from": is1}, models=models, replay=replay, expect_paths=2)]


def _oriented(which):
    class OF(Contract):
        id = "Edge_oriented_" + which
        fn = "gfapy/line/edge/gfa2/to_gfa1.py::ToGFA1.oriented_" + which
        props = ("C06", "C11")
        doc = "oriented_%s = sid1 if (sid1 is the from segment) %s else sid2" % (which, "" if which == "from" else "is false")

        def cases(self, ctx):
            g = ctx.gfapy
            is1 = z3.Bool("sid1_is_from")
            s1, s2 = Obj(g.OrientedLine, "sid1"), Obj(g.OrientedLine, "sid2")
            s = Obj(g.line.edge.GFA2, "E")
            heap = {s.oid: {"sid1": s1, "sid2": s2}, s1.oid: {}, s2.oid: {}}
            models = {ctx.fn("gfapy/line/edge/gfa2/to_gfa1.py::ToGFA1._is_sid1_from"): const_model(lambda self_: is1)}
            first = s1 if which == "from" else s2
            second = s2 if which == "from" else s1
            def post(k, r, st):
                if k != "return" or not isinstance(r, Obj):
                    return z3.BoolVal(False)
                return z3.If(is1, z3.BoolVal(r.oid == first.oid), z3.BoolVal(r.oid == second.oid))
            return [Case("E", [s], post, heap=heap, symbols={"sid1_is_from": is1}, models=models, expect_paths=2)]
    OF.__name__ = OF.id
    return register(OF)


_oriented("from"); _oriented("to")


@register
class EdgePos(Contract):
    fn = "gfapy/line/edge/gfa2/to_gfa1.py::ToGFA1.pos"
    props = ("C06",)
    doc = ("GFA1 pos of a containment read from an E line: the begin of the interval on the CONTAINER (the side that is not the whole segment; "
           "sid1's begin when both are whole); ValueError unless the edge is a containment")

    def cases(self, ctx):
        g = ctx.gfapy
        b1, e1, b2, e2 = pos("b1"), pos("e1"), pos("b2"), pos("e2")
        at, pa = enum("at", ["C", "L", "I"])
        s = Obj(g.line.edge.GFA2, "E")
        heap = {s.oid: dict(beg1=b1, end1=e1, beg2=b2, end2=e2, _alignment_type=at)}
        whole1 = z3.And(b1.v == 0, e1.last); whole2 = z3.And(b2.v == 0, e2.last)
        def post(k, r, st):
            if k == "raise":
                return z3.And(z3.BoolVal(r.cls is g.ValueError), at != sv("C"))
            if not isinstance(r, Pos):
                return z3.BoolVal(False)
            # container = the side that is not whole
            want = z3.If(z3.And(whole1, z3.Not(whole2)), b2.v, b1.v)
            return z3.And(at == sv("C"), r.v == want)
        pre = [pa] + [x.v >= 0 for x in (b1, e1, b2, e2)] + [z3.Implies(at == sv("C"), z3.Or(whole1, whole2))]
        return [Case("E", [s], post, pre=pre, heap=heap, symbols=dict(b1=b1, e1=e1, b2=b2, e2=e2, at=at), models=common.lastpos_models(ctx),
                     minimize=[b1.v, b2.v, e1.v, e2.v])]


# ---------------------------------------------------------------------------------------- C15 / C06: GFA1-style setters of an E line
def _edge_setter(name, role, field):
    class ES(Contract):
        id = "EdgeSetter_" + name
        fn = "gfapy/line/edge/gfa2/to_gfa1.py::ToGFA1.%s#set" % name
        props = ("C15", "C06", "C14")
        doc = ("e.%s = v writes the %s of the oriented reference that e.%s READS (sid1 or sid2 according to _is_sid1_from, i.e. to positions "
               "and orientations - not always sid1); the other reference and the other component are untouched" % (name, field, name))

        def cases(self, ctx):
            g = ctx.gfapy
            s1from = z3.Bool("sid1_is_the_from_segment")
            e = Obj(g.line.edge.GFA2, "edge")
            ol = {n: Obj(g.OrientedLine, "sid" + n) for n in "12"}
            vals = {(n, f): Obj(None, "sid%s.%s" % (n, f)) for n in "12" for f in ("line", "orient")}
            newv = Obj(None, "value")
            heap = {e.oid: {"sid1": ol["1"], "sid2": ol["2"]}, newv.oid: {}, **{ol[n].oid: {"line": vals[(n, "line")], "orient": vals[(n, "orient")]} for n in "12"},
                    **{v.oid: {} for v in vals.values()}}
            models = {ctx.fn("gfapy/line/edge/gfa2/to_gfa1.py::ToGFA1._is_sid1_from"): const_model(lambda self_: s1from)}
            inline = {ctx.fn("gfapy/line/edge/gfa2/to_gfa1.py::ToGFA1.oriented_from"), ctx.fn("gfapy/line/edge/gfa2/to_gfa1.py::ToGFA1.oriented_to")}
            def post(k, v, st):
                if k != "return":
                    return z3.BoolVal(False)
                def cur(n, f):
                    x = st.attrs(ol[n]).get(f)
                    return x.oid if isinstance(x, Obj) else None
                target_is_1 = s1from if role == "from" else z3.Not(s1from)
                conj = []
                for n in "12":
                    is_target = target_is_1 if n == "1" else z3.Not(target_is_1)
                    for f in ("line", "orient"):
                        written = cur(n, f) == newv.oid
                        kept = cur(n, f) == vals[(n, f)].oid
                        if f == field:
                            conj.append(z3.If(is_target, z3.BoolVal(written), z3.BoolVal(kept)))
                        else:
                            conj.append(z3.BoolVal(kept))
                return z3.And(*conj)
            return [Case("set", [e, newv], post, heap=heap, models=models, inline=inline, symbols={"sid1_is_the_from_segment": s1from}, expect_paths=1,
                         replay=lambda w: {"target": "bounded.replay_helpers:edge_setter_cases"}, confirm=battery_confirm)]
    ES.__name__ = ES.id
    return register(ES)


for _n, _r, _f in (("from_segment", "from", "line"), ("to_segment", "to", "line"), ("from_orient", "from", "orient"), ("to_orient", "to", "orient")):
    _edge_setter(_n, _r, _f)
