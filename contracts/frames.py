"""C10 / C19 — frame obligations on the read-only API: writes(F) = {} modulo the benign caches (pyvc/effects.py: modular
effect analysis of the real source over the whole call graph), plus the functional+frame contract of the one read-only
function that writes temporarily (WriterWoSequence.__str__ restores the sequence)."""
import z3, time
from pyvc.contract import Contract, Case, register
from pyvc.dsl import *
from pyvc.values import *

READONLY = """__str__ to_str to_list field_to_s get try_get get_datatype tagnames validate validate_field clone __eq__ diff complement length_on_reference
length_on_query is_same is_complement is_eql is_compatible is_compatible_direct is_compatible_complement is_canonical __hash__ neighbours neighbours_L neighbours_R
neighbours_of_end dovetails dovetails_of_end containers contained edges gaps containments _connectivity relations_to other other_end other_oriented_segment from_end
to_end is_circular captured_path captured_segments captured_edges induced_set induced_segments_set induced_edges_set connected_components segment_connected_component
is_cut_link is_cut_segment n_dead_ends n_dovetails n_internals n_containments linear_path linear_paths line segment try_get_line try_get_segment select _search_link
_search_duplicate names lines segments paths sets fragments to_gfa1_s to_gfa2_s refstr all_references positional_fieldnames record_type version overlap oriented_from
oriented_to from_segment to_segment pos _alignment_type is_dovetail is_containment is_internal _substring_type _refkey_for_s is_connected virtual from_coords
to_coords length try_get_length coverage is_placeholder posvalue islastpos isfirstpos invert inverted name orient end_type rc _compute_captured_path
_compute_induced_edges_set _compute_required_links _find_edge_from_path_to_segment is_circular_same_end _segment_role _is_sid1_from eid sid1 sid2 beg1 end1 beg2 end2
alignment rpos _undef_overlaps _backreference_keys _connectivity_symbol _connectivity_symbols end_relations oriented_relations""".split()
EXCLUDE = {"OrientedLine.invert"}                 # an in-place mutator by design (shares its name with gfapy.invert)
DECLARED = {"WriterWoSequence.__str__": {"WriterWoSequence.__str__:.sequence"}}      # temporary write, restored (contract below)


@register
class ReadOnlyFrames(Contract):
    fn = "gfapy/line/common/field_data.py::FieldData.get"      # anchor only: the analysis covers every function listed
    props = ("C10", "C19")
    fragment = "H"
    doc = ("for every function of the read-only API (by name, all implementations in gfapy): the set of locations it may write, computed modularly "
           "over the call graph of the real source, is empty modulo the benign caches (each with its own value clause) and progress logging")

    def custom(self, ctx, tier):
        from pyvc import effects
        t0 = time.time()
        A = effects.Analysis(ctx.repo)
        dt = time.time() - t0
        obl = []
        self.analysis_summary = dict(functions_analysed=len(A.funcs), may_write=sum(1 for f in A.funcs if f.writes), seconds=round(dt, 2),
                                     benign=effects.BENIGN)
        n = 0
        for f in A.funcs:
            if f.name not in READONLY or f.is_setter or f.qual in EXCLUDE:
                continue
            n += 1
            res = effects.residual(f, DECLARED.get(f.qual, ()))
            # a residual write that originates in another read-only function is reported there
            own = [l for l in res if l.split(":")[0] == f.qual]
            foreign = [l for l in res if l.split(":")[0] != f.qual]
            origins_listed = all(any(g.qual == l.split(":")[0] and g.name in READONLY and g.qual not in EXCLUDE for g in A.funcs) for l in foreign)
            verdict = "unsat" if not res else ("sat" if own or not origins_listed else "unsat-modulo-callee")
            d = dict(name="ReadOnlyFrames/%s::%s:modifies-nothing" % (f.path, f.qual), verdict="unsat" if verdict != "sat" else "sat", backend="effects", seconds=round(dt / max(1, len(A.funcs)), 5),
                     backends={"effects": ["unsat" if verdict != "sat" else "sat", 0.0]})
            if verdict == "sat":
                d["witness"] = {"writes": res}
                d["confirmed"] = None
                d["case"] = f.qual
            elif verdict == "unsat-modulo-callee":
                d["note"] = "writes only through %s, reported there" % sorted(set(l.split(":")[0] for l in foreign))
            obl.append(d)
        # C19: the object returned by clone() shares no attribute value with the receiver
        for f in A.funcs:
            if f.name == "clone" and not f.is_setter:
                bad = sorted(f.aliases)
                d = dict(name="ReadOnlyFrames/%s::%s:new-object-shares-no-attribute-with-receiver" % (f.path, f.qual), verdict="sat" if bad else "unsat",
                         backend="effects", seconds=0.0, backends={"effects": ["sat" if bad else "unsat", 0.0]})
                if bad:
                    d["witness"] = {"aliases": bad}; d["confirmed"] = None; d["case"] = f.qual
                obl.append(d)
        # C19 / C10: the field decoders are plain functions of their argument: undecorated (a memoising decorator would hand the SAME mutable
        # CIGAR / list / array to every line that parses an equal string) and without writes to state that outlives the call
        import ast as _ast
        PURE_DECORATORS = {"staticmethod", "classmethod"}
        for f in A.funcs:
            if f.name in ("decode", "unsafe_decode") and f.path.startswith("gfapy/field/") and f.cls is None:
                decs = [_ast.unparse(x) for x in f.node.decorator_list]
                bad_decs = [x for x in decs if x not in PURE_DECORATORS]
                res = effects.residual(f, ())
                bad = bool(bad_decs or res)
                d = dict(name="ReadOnlyFrames/%s::%s:decoder-returns-a-value-of-its-own(no-memo,no-writes)" % (f.path, f.qual), verdict="sat" if bad else "unsat",
                         backend="effects", seconds=0.0, backends={"effects": ["sat" if bad else "unsat", 0.0]})
                if bad:
                    d["witness"] = {"decorators": bad_decs, "writes": res}; d["confirmed"] = None; d["case"] = f.qual
                obl.append(d)
        return obl


@register
class WriterWoSequenceStr(Contract):
    fn = "gfapy/line/segment/writer_wo_sequence.py::WriterWoSequence.__str__"
    props = ("C10",)
    doc = "str(segment, without_sequence=True): the sequence written temporarily as '*' is restored; without the flag nothing is written"

    def cases(self, ctx):
        g = ctx.gfapy
        seq = z3.Int("seq_identity")
        wo = z3.Bool("without_sequence")
        s = Obj(g.line.segment.GFA1, "S")
        heap = {s.oid: {"sequence": seq}}
        def m_super_str(E, st, pos_, kw):
            # contract of Writer.__str__: returns a text; may read, does not write the sequence (ReadOnlyFrames)
            yield ("val", Unknown("text"), [], st.with_ghost("seq_seen", st.attrs(s).get("sequence")))
        def post(k, v, st):
            if k != "return":
                return z3.BoolVal(False)
            now = st.attrs(s).get("sequence")
            seen = st.ghost.get("seq_seen")
            restored = S(now) == seq if not isinstance(now, str) else z3.BoolVal(False)
            wrote_star = z3.BoolVal(isinstance(seen, str) and seen == "*")
            return z3.And(restored, z3.Implies(wo, wrote_star))
        return [Case("S", [s, wo], post, heap=heap, symbols={"without_sequence": wo}, name_calls={"super().__str__": m_super_str}, expect_paths=2)]
