"""C10 / C19 — frame obligations on the read-only API: writes(F) = {} modulo the benign caches (pyvc/effects.py: modular
effect analysis of the real source over the whole call graph), plus the functional+frame contract of the one read-only
function that writes temporarily (WriterWoSequence.__str__ restores the sequence)."""
import z3, time
from pyvc.contract import Contract, Case, register
from pyvc.dsl import *
from pyvc.values import *

READONLY = """__str__ to_str to_list field_to_s get try_get get_datatype tagnames validate validate_field clone __eq__ diff complement length_on_reference
length_on_query is_same is_complement is_eql is_compatible is_compatible_direct is_compatible_complement is_canonical __hash__ neighbours neighbours_L neighbours_R
neighbours_of_end dovetails dovetails_of_end containers contained edges gaps containments _connectivity relations_to other other_end other_oriented_segment from_end
to_end is_circular captured_path captured_segments captured_edges induced_set induced_segments_set induced_edges_set connected_components segment_connected_component
is_cut_link is_cut_segment n_dead_ends n_dovetails n_internals n_containments linear_path linear_paths line segment try_get_line try_get_segment select _search_link
_search_duplicate names lines segments paths sets fragments to_gfa1_s to_gfa2_s refstr all_references positional_fieldnames record_type version overlap oriented_from
oriented_to from_segment to_segment pos _alignment_type is_dovetail is_containment is_internal _substring_type _refkey_for_s is_connected virtual from_coords
to_coords length try_get_length coverage is_placeholder posvalue islastpos isfirstpos invert inverted name orient end_type rc _compute_captured_path
_compute_induced_edges_set _compute_required_links _find_edge_from_path_to_segment is_circular_same_end _segment_role _is_sid1_from eid sid1 sid2 beg1 end1 beg2 end2
alignment rpos _undef_overlaps _backreference_keys _connectivity_symbol _connectivity_symbols end_relations oriented_relations""".split()
EXCLUDE = {"OrientedLine.invert"}                 # an in-place mutator by design (shares its name with gfapy.invert)
DECLARED = {"WriterWoSequence.__str__": {"WriterWoSequence.__str__:.sequence"},      # temporary write, restored (contract below)
            # the whole-graph conversion names the unnamed edges while it runs and takes the names back (contracts ToGfa2sRestores / TakeBackAssignedIds below)
            "Gfa.to_gfa2_s": {"Gfa._take_back_assigned_ids:._max_int_name", "Gfa._take_back_assigned_ids:self._records[...]"}}


@register
class ReadOnlyFrames(Contract):
    fn = "gfapy/line/common/field_data.py::FieldData.get"      # anchor only: the analysis covers every function listed
    props = ("C10", "C19")
    fragment = "H"
    doc = ("for every function of the read-only API (by name, all implementations in gfapy): the set of locations it may write, computed modularly "
           "over the call graph of the real source, is empty modulo the benign caches (each with its own value clause) and progress logging")

    def custom(self, ctx, tier):
        from pyvc import effects
        t0 = time.time()
        A = effects.Analysis(ctx.repo)
        dt = time.time() - t0
        obl = []
        self.analysis_summary = dict(functions_analysed=len(A.funcs), may_write=sum(1 for f in A.funcs if f.writes), seconds=round(dt, 2),
                                     benign=effects.BENIGN)
        n = 0
        for f in A.funcs:
            if f.name not in READONLY or f.is_setter or f.qual in EXCLUDE:
                continue
            n += 1
            res = effects.residual(f, DECLARED.get(f.qual, ()))
            # a residual write that originates in another read-only function is reported there
            own = [l for l in res if l.split(":")[0] == f.qual]
            foreign = [l for l in res if l.split(":")[0] != f.qual]
            origins_listed = all(any(g.qual == l.split(":")[0] and g.name in READONLY and g.qual not in EXCLUDE for g in A.funcs) for l in foreign)
            verdict = "unsat" if not res else ("sat" if own or not origins_listed else "unsat-modulo-callee")
            d = dict(name="ReadOnlyFrames/%s::%s:modifies-nothing" % (f.path, f.qual), verdict="unsat" if verdict != "sat" else "sat", backend="effects", seconds=round(dt / max(1, len(A.funcs)), 5),
                     backends={"effects": ["unsat" if verdict != "sat" else "sat", 0.0]})
            if verdict == "sat":
                d["witness"] = {"writes": res}
                d["confirmed"] = None
                d["case"] = f.qual
            elif verdict == "unsat-modulo-callee":
                d["note"] = "writes only through %s, reported there" % sorted(set(l.split(":")[0] for l in foreign))
            obl.append(d)
        # C19: the object returned by clone() shares no attribute value with the receiver
        for f in A.funcs:
            if f.name == "clone" and not f.is_setter:
                bad = sorted(f.aliases)
                d = dict(name="ReadOnlyFrames/%s::%s:new-object-shares-no-attribute-with-receiver" % (f.path, f.qual), verdict="sat" if bad else "unsat",
                         backend="effects", seconds=0.0, backends={"effects": ["sat" if bad else "unsat", 0.0]})
                if bad:
                    d["witness"] = {"aliases": bad}; d["confirmed"] = None; d["case"] = f.qual
                obl.append(d)
        # C19 / C10: the field decoders are plain functions of their argument: undecorated (a memoising decorator would hand the SAME mutable
        # CIGAR / list / array to every line that parses an equal string) and without writes to state that outlives the call
        import ast as _ast
        PURE_DECORATORS = {"staticmethod", "classmethod"}
        for f in A.funcs:
            if f.name in ("decode", "unsafe_decode") and f.path.startswith("gfapy/field/") and f.cls is None:
                decs = [_ast.unparse(x) for x in f.node.decorator_list]
                bad_decs = [x for x in decs if x not in PURE_DECORATORS]
                res = effects.residual(f, ())
                bad = bool(bad_decs or res)
                d = dict(name="ReadOnlyFrames/%s::%s:decoder-returns-a-value-of-its-own(no-memo,no-writes)" % (f.path, f.qual), verdict="sat" if bad else "unsat",
                         backend="effects", seconds=0.0, backends={"effects": ["sat" if bad else "unsat", 0.0]})
                if bad:
                    d["witness"] = {"decorators": bad_decs, "writes": res}; d["confirmed"] = None; d["case"] = f.qual
                obl.append(d)
        return obl


@register
class WriterWoSequenceStr(Contract):
    fn = "gfapy/line/segment/writer_wo_sequence.py::WriterWoSequence.__str__"
    props = ("C10",)
    doc = "str(segment, without_sequence=True): the sequence written temporarily as '*' is restored; without the flag nothing is written"

    def cases(self, ctx):
        g = ctx.gfapy
        seq = z3.Int("seq_identity")
        wo = z3.Bool("without_sequence")
        s = Obj(g.line.segment.GFA1, "S")
        heap = {s.oid: {"sequence": seq}}
        def m_super_str(E, st, pos_, kw):
            # contract of Writer.__str__: returns a text; may read, does not write the sequence (ReadOnlyFrames)
            yield ("val", Unknown("text"), [], st.with_ghost("seq_seen", st.attrs(s).get("sequence")))
        def post(k, v, st):
            if k != "return":
                return z3.BoolVal(False)
            now = st.attrs(s).get("sequence")
            seen = st.ghost.get("seq_seen")
            restored = S(now) == seq if not isinstance(now, str) else z3.BoolVal(False)
            wrote_star = z3.BoolVal(isinstance(seen, str) and seen == "*")
            return z3.And(restored, z3.Implies(wo, wrote_star))
        return [Case("S", [s, wo], post, heap=heap, symbols={"without_sequence": wo}, name_calls={"super().__str__": m_super_str}, expect_paths=2)]


AIB_ = z3.ArraySort(I, B)
AII_ = z3.ArraySort(I, I)


@register
class TakeBackAssignedIds(Contract):
    fn = "gfapy/gfa.py::Gfa._take_back_assigned_ids"
    props = ("C10",)
    fragment = "H"
    doc = ("_take_back_assigned_ids(edges, max_int_name, records): every edge of the list which is connected and has an ID tag by now loses it (delete('ID'), once); "
           "no other line is written; the registries of links and containments are put back as they were recorded and the counter of integer names is set back "
           "(loop invariant, every number of edges). Assumed: the list names each edge once")

    def cases(self, ctx):
        g = ctx.gfapy
        n, mx = z3.Int("n_edges"), z3.Int("recorded_counter")
        edge_id, idx_of = z3.Const("edge", AII_), z3.Const("index_of_edge", AII_)
        conn, has0 = z3.Const("connected", AIB_), z3.Const("has_ID_now", AIB_)
        gfa = Obj(g.Gfa, "gfa")
        recL, recC = Obj(None, "recorded_L_registry"), Obj(None, "recorded_C_registry")
        edges = SList(n, edge_id, lambda t: Ref(t, g.line.edge.Link))
        j, l = z3.Int("j"), z3.Int("l")
        class Registry:
            def pyvc_setitem(self, E, i, v, st):
                w = dict(st.ghost.get("registry", {}))
                w[conc(i)] = w.get(conc(i), ()) + (v,)
                yield ("fall", None, st.with_ghost("registry", w))
        def m_conn(E, st, pos, kw):
            yield ("val", conn[pos[0].t], [])
        def m_get(E, st, pos, kw):
            if conc(pos[1]) != "ID":
                raise Unsupported("get(%r)" % (pos[1],))
            yield ("val", Opt(z3.Not(st.zh["has_id"][pos[0].t]), Obj(None, "the_id")), [])
        def m_delete(E, st, pos, kw):
            if conc(pos[1]) != "ID":
                raise Unsupported("delete(%r)" % (pos[1],))
            zh = dict(st.zh)
            zh["has_id"] = z3.Store(zh["has_id"], pos[0].t, z3.BoolVal(False))
            zh["n_deleted"] = zh["n_deleted"] + 1
            yield ("val", None, [], st.with_zh(zh))
        models = {ctx.fn("gfapy/line/common/connection.py::Connection.is_connected"): m_conn, ctx.fn("gfapy/line/common/field_data.py::FieldData.get"): m_get,
                  ctx.fn("gfapy/line/common/field_data.py::FieldData.delete"): m_delete}
        def state(H, upto):
            return z3.ForAll([l], H[l] == z3.If(z3.And(0 <= idx_of[l], idx_of[l] < upto, conn[l]), z3.BoolVal(False), has0[l]))
        def inv(i, st):
            return z3.And(0 <= i, i <= n, state(st.zh["has_id"], i), st.zh["n_deleted"] <= i)
        invs = {("Gfa._take_back_assigned_ids", 0): dict(inv=inv, modheap=["has_id", "n_deleted"], mod={"l": lambda nm: Ref(fresh(nm, I), g.line.edge.Link)})}
        pre = [n >= 0, z3.ForAll([j], z3.Implies(z3.And(0 <= j, j < n), idx_of[edge_id[j]] == j)),
               z3.ForAll([l], z3.Implies(z3.And(0 <= idx_of[l], idx_of[l] < n), edge_id[idx_of[l]] == l))]
        def post(kd, v, st):
            if kd == "raise":
                return z3.BoolVal(False)
            reg = st.ghost.get("registry", {})
            return z3.And(state(st.zh["has_id"], n), st.zh["n_deleted"] <= n,
                          z3.BoolVal(reg.get("L") == (recL,) and reg.get("C") == (recC,) and set(reg) == {"L", "C"}),
                          S(st.attrs(gfa).get("_max_int_name")) == mx)
        return [Case("edges", [gfa, edges, mx, {"L": recL, "C": recC}], post, pre=pre, zh={"has_id": has0, "n_deleted": z3.IntVal(0)},
                     heap={gfa.oid: {"_records": Registry(), "_max_int_name": z3.Int("counter_now")}, recL.oid: {}, recC.oid: {}},
                     models=models, invariants=invs, symbols=dict(n_edges=n), minimize=[n])]


def _restoring_conversion(fname, label):
    class C_(Contract):
        id = "ConversionRestores_" + label
        fn = "gfapy/gfa.py::Gfa." + fname
        props = ("C10",)
        fragment = "H"
        doc = ("%s of a GFA1 Gfa: what _gfa1_edges_without_id() recorded BEFORE the first line is converted is handed to _take_back_assigned_ids exactly once on every "
               "way out - also when the conversion of a line raises, and then the exception still reaches the caller; a GFA2 Gfa is returned as it is, nothing is recorded or taken back" % fname)

        def cases(self, ctx):
            g = ctx.gfapy
            is2 = z3.Bool("the_Gfa_is_GFA2")
            nlines = z3.Int("n_lines")
            fails = z3.Bool("a_line_cannot_be_converted")
            gfa = Obj(g.Gfa, "gfa")
            rec = (Obj(None, "edges_without_id"), Obj(None, "counter"), Obj(None, "registries"))
            lines = SList(nlines, z3.Const("line", AII_), lambda t: Ref(t, g.Line))
            def ev(st, what):
                return st.with_ghost("events", tuple(st.ghost.get("events", ())) + (what,))
            def m_record(E, st, pos, kw):
                yield ("val", rec, [], ev(st, "record"))
            def m_take_back(E, st, pos, kw):
                ok = len(pos) == 4 and all(a is b for a, b in zip(pos[1:], rec))
                yield ("val", None, [], ev(st, "take_back" if ok else "take_back_with_other_arguments"))
            def m_convert(E, st, pos, kw):
                # converting one line: may fail; the first conversion is marked (it must come after the recording)
                st2 = st if "convert" in st.ghost.get("events", ()) else ev(st, "convert")
                yield ("raise", Exc(g.RuntimeError), [fails], st2)
                class Converted:                      # the converted line (a text which may be empty, or a line)
                    def pyvc_truth(self, E):
                        return fresh("converted_is_not_empty", B)
                yield ("val", Converted(), [z3.Not(fails)], st2)
            def m_add(E, st, pos, kw):
                yield ("val", None, [])
            def m_str(E, st, pos, kw):
                yield ("val", Unknown("text"), [])
            import builtins
            models = {ctx.fn("gfapy/gfa.py::Gfa._gfa1_edges_without_id"): m_record, ctx.fn("gfapy/gfa.py::Gfa._take_back_assigned_ids"): m_take_back,
                      ctx.fn("gfapy/lines/creators.py::Creators.add_line"): m_add,
                      g.Gfa.lines.fget: const_model(lambda s_: lines), g.Gfa.version.fget: const_model(lambda s_: ite_str(is2, "gfa2", "gfa1")),
                      g.Gfa.vlevel.fget: const_model(lambda s_: z3.Int("vlevel")), g.Gfa.__str__: m_str, builtins.str: m_str,
                      g.Gfa: const_model(lambda *a, **k: Obj(g.Gfa, "new_gfa"))}
            class Acc:                                # the list in which the converted texts are collected (its content is not the subject here)
                def pyvc_attr(self, E, attr, st):
                    if attr != "append":
                        raise Unsupported("lines.%s" % attr)
                    class A:
                        def pyvc_call(self, E, pos, kw, st):
                            yield ("val", None, st)
                    yield ("val", A(), st)
            def inv(i, st):
                e = tuple(st.ghost.get("events", ()))
                return z3.And(0 <= i, i <= nlines, z3.BoolVal(e in (("record",), ("record", "convert"))), z3.Implies(i > 0, z3.BoolVal(e == ("record", "convert"))))
            invs = {("Gfa." + fname, 0): dict(inv=inv, mod={"line": lambda nm: Ref(fresh(nm, I), g.Line), "lines": lambda nm: Acc(), "converted": lambda nm: Unknown(nm)})}
            def post(kd, v, st):
                e = tuple(st.ghost.get("events", ()))
                if kd == "raise":
                    return z3.And(z3.Not(is2), fails, z3.BoolVal(v.cls is g.RuntimeError and e == ("record", "convert", "take_back")))
                return z3.If(is2, z3.BoolVal(e == ()), z3.BoolVal(e in (("record", "take_back"), ("record", "convert", "take_back"))))
            return [Case("gfa", [gfa], post, pre=[nlines >= 0], heap={gfa.oid: {}}, models=models, invariants=invs,
                         name_calls={"line.to_gfa2_s": m_convert, "line.to_gfa2": m_convert},          # (the per-line conversions are generated methods: named by their spelling at the call site)
                         symbols=dict(n_lines=nlines, the_Gfa_is_GFA2=is2, a_line_cannot_be_converted=fails))]
    C_.__name__ = "ConversionRestores_" + label
    return C_


ConversionRestores_s = register(_restoring_conversion("to_gfa2_s", "to_gfa2_s"))
ConversionRestores_g = register(_restoring_conversion("to_gfa2", "to_gfa2"))


@register
class Gfa1EdgesWithoutId(Contract):
    fn = "gfapy/gfa.py::Gfa._gfa1_edges_without_id"
    props = ("C10", "C09")
    fragment = "H"
    doc = ("what a whole-graph conversion records before it starts: exactly the links AND containments that have no ID tag (in their order; a filter over both "
           "collections), the present value of the counter of integer names, and a COPY of the registry of links and of the registry of containments "
           "(not the registries themselves: they are rewritten while identifiers are given and taken back); nothing is written")

    def cases(self, ctx):
        import builtins
        g = ctx.gfapy
        nd, nc, mx = z3.Int("n_dovetails"), z3.Int("n_containments"), z3.Int("counter")
        dv, cn = z3.Const("dovetail", AII_), z3.Const("containment", AII_)
        has_id = z3.Const("has_ID", AIB_)
        gfa = Obj(g.Gfa, "gfa")
        regL, regC = Obj(None, "registry_of_links"), Obj(None, "registry_of_containments")
        class Records:
            def pyvc_getitem(self, E, i, st):
                k_ = conc(i)
                if k_ not in ("L", "C"):
                    raise Unsupported("_records[%r]" % (k_,))
                yield ("val", regL if k_ == "L" else regC, st)
        class CopyOf:
            def __init__(self, of):
                self.of = of
        def m_dict(E, st, pos, kw):
            if len(pos) != 1 or pos[0] not in (regL, regC):
                raise Unsupported("dict(%r)" % (pos,))
            yield ("val", CopyOf(pos[0]), [])
        def m_get(E, st, pos, kw):
            if conc(pos[1]) != "ID":
                raise Unsupported("get(%r)" % (pos[1],))
            yield ("val", Opt(z3.Not(has_id[pos[0].t]), Obj(None, "an_id")), [])
        heap = {gfa.oid: {"_records": Records(), "_max_int_name": mx}, regL.oid: {}, regC.oid: {}}
        models = {g.Gfa.dovetails.fget: const_model(lambda s_: SList(nd, dv, lambda t: Ref(t, g.line.edge.Link))),
                  g.Gfa.containments.fget: const_model(lambda s_: SList(nc, cn, lambda t: Ref(t, g.line.edge.Link))),
                  ctx.fn("gfapy/line/common/field_data.py::FieldData.get"): m_get, builtins.dict: m_dict}
        k, j = z3.Int("k"), z3.Int("j")
        src = lambda x: z3.If(x < nd, dv[x], cn[x - nd])              # the two collections, one after the other
        def post(kd, v, st):
            if kd == "raise" or not isinstance(v, (tuple, list)) or len(v) != 3:
                return z3.BoolVal(False)
            edges, counter, regs = v
            if not isinstance(edges, SList) or not isinstance(regs, dict) or set(regs) != {"L", "C"}:
                return z3.BoolVal(False)
            copies = isinstance(regs["L"], CopyOf) and regs["L"].of is regL and isinstance(regs["C"], CopyOf) and regs["C"].of is regC
            # every edge without identifier is in the list, every element of the list is such an edge (the filter axioms carry order and multiplicity)
            complete = z3.ForAll([j], z3.Implies(z3.And(0 <= j, j < nd + nc, z3.Not(has_id[src(j)])), z3.Exists([k], z3.And(0 <= k, k < edges.n, edges.el[k] == src(j)))))
            sound = z3.ForAll([k], z3.Implies(z3.And(0 <= k, k < edges.n), z3.And(z3.Not(has_id[edges.el[k]]), z3.Exists([j], z3.And(0 <= j, j < nd + nc, src(j) == edges.el[k])))))
            return z3.And(z3.BoolVal(copies), S(counter) == mx, complete, sound)
        return [Case("gfa1", [gfa], post, pre=[nd >= 0, nc >= 0], heap=heap, models=models, symbols=dict(n_dovetails=nd, n_containments=nc), minimize=[nd, nc])]
