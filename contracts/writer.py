"""C01 / C18 / C20 — Writer.to_list: how a line is written.  One entry per field, in order: the record type, every positional field,
every tag; a field whose encoding fails is never dropped and never written silently: its fallback text is written AND the line is
marked `# INVALID` (the marker is present iff at least one field failed); virtual lines carry the commentary tag."""
import z3, builtins
from pyvc.contract import Contract, Case, register
from pyvc.dsl import *
from pyvc.values import *

AII = z3.ArraySort(I, I)
AIB = z3.ArraySort(I, B)


@register
class WriterToList(Contract):
    fn = "gfapy/line/common/writer.py::Writer.to_list"
    props = ("C01", "C18", "C20")
    fragment = "L"
    doc = ("to_list(): the j-th positional field and then the j-th tag are written in order, each as field_to_s(name, tag=False/True) or - when "
           "that raises - as the text of its value, in which case the name is recorded; the result has 1 + #positional + #tags entries, plus "
           "the commentary of a virtual line, plus the `# INVALID` marker iff some field (or the record type) failed (two loop invariants, all "
           "numbers of fields)")

    def cases(self, ctx):
        g = ctx.gfapy
        npos, ntag = z3.Int("n_positional"), z3.Int("n_tags")
        fails = z3.Const("encoding_fails", AIB)              # per field id
        rt_fails = z3.Bool("record_type_fails")
        virtual, addc = z3.Bool("virtual"), z3.Bool("add_virtual_commentary")
        text = z3.Function("encoded_text", I, B, I)          # (field, as tag) -> text object
        fallback = z3.Function("fallback_text", I, I)
        k, j = z3.Int("k"), z3.Int("j")
        PF = SList(npos, z3.Lambda([k], 100 + k), lambda t: Ref(t))
        TG = SList(ntag, z3.Lambda([k], 5000 + k), lambda t: Ref(t))
        h0 = {"L_n": z3.Const("L_n", AII), "L_e": z3.Const("L_e", z3.ArraySort(I, AII)), "next_list": z3.Int("next_list")}
        a_id, err_id = h0["next_list"], h0["next_list"] + 1
        s = Obj(g.Line, "line")
        heap = {s.oid: {"virtual": virtual}}
        def m_rt(E, st, pos, kw):
            yield ("raise", Exc(g.FormatError), [rt_fails])
            yield ("val", Ref(z3.IntVal(1)), [z3.Not(rt_fails)])
        def m_field_to_s(E, st, pos, kw):
            self_, fn_ = pos[:2]
            tag = kw.get("tag", pos[2] if len(pos) > 2 else False)
            yield ("raise", Exc(g.FormatError), [fails[fn_.t]])
            yield ("val", Ref(text(fn_.t, z3.BoolVal(bool(tag)))), [z3.Not(fails[fn_.t])])
        def m_get(E, st, pos, kw):
            self_, fn_ = pos
            yield ("val", Ref(7000000 + fn_.t), [])
        def m_str(E, st, pos, kw):
            (x,) = pos
            if isinstance(x, Ref):
                yield ("val", Ref(fallback(x.t - 7000000)), [])
            else:
                yield ("val", Unknown("text"), [])
        models = {g.Line.record_type.fget: m_rt, g.Line.positional_fieldnames.fget: const_model(lambda self_: PF), g.Line.tagnames.fget: const_model(lambda self_: TG),
                  ctx.fn("gfapy/line/common/writer.py::Writer.field_to_s"): m_field_to_s, ctx.fn("gfapy/line/common/field_data.py::FieldData.get"): m_get,
                  builtins.str: m_str}
        def entry(zh, idx, fid, tag):
            return zh["L_e"][a_id][idx] == z3.If(fails[fid], fallback(fid), text(fid, z3.BoolVal(tag)))
        def nfail_pos(upto):
            return z3.Exists([j], z3.And(0 <= j, j < upto, fails[100 + j]))
        def nfail_tag(upto):
            return z3.Exists([j], z3.And(0 <= j, j < upto, fails[5000 + j]))
        def inv_pos(i, st):
            zh = st.zh
            return z3.And(i <= npos, zh["L_n"][a_id] == 1 + i, zh["next_list"] == h0["next_list"] + 2,
                          z3.ForAll([j], z3.Implies(z3.And(0 <= j, j < i), entry(zh, 1 + j, 100 + j, False))),
                          (zh["L_n"][err_id] > 0) == z3.Or(rt_fails, nfail_pos(i)), zh["L_n"][err_id] >= 0)
        def inv_tag(i, st):
            zh = st.zh
            return z3.And(i <= ntag, zh["L_n"][a_id] == 1 + npos + i, zh["next_list"] == h0["next_list"] + 2,
                          z3.ForAll([j], z3.Implies(z3.And(0 <= j, j < npos), entry(zh, 1 + j, 100 + j, False))),
                          z3.ForAll([j], z3.Implies(z3.And(0 <= j, j < i), entry(zh, 1 + npos + j, 5000 + j, True))),
                          (zh["L_n"][err_id] > 0) == z3.Or(rt_fails, nfail_pos(npos), nfail_tag(i)), zh["L_n"][err_id] >= 0)
        mod = {"fn": lambda nm: Ref(fresh(nm, I)), "fstr": lambda nm: Ref(fresh(nm, I))}
        inv = {("Writer.to_list", 0): dict(inv=inv_pos, modheap=["L_n", "L_e"], mod=mod), ("Writer.to_list", 1): dict(inv=inv_tag, modheap=["L_n", "L_e"], mod=mod)}
        def post(kd, v, st):
            if kd == "raise" or not isinstance(v, LRef):
                return z3.BoolVal(False)
            zh = st.zh
            anyfail = z3.Or(rt_fails, nfail_pos(npos), nfail_tag(ntag))
            extra = z3.If(z3.And(virtual, addc), 1, 0) + z3.If(anyfail, 1, 0)
            return z3.And(v.id == a_id, zh["L_n"][a_id] == 1 + npos + ntag + extra,
                          z3.ForAll([j], z3.Implies(z3.And(0 <= j, j < npos), entry(zh, 1 + j, 100 + j, False))),
                          z3.ForAll([j], z3.Implies(z3.And(0 <= j, j < ntag), entry(zh, 1 + npos + j, 5000 + j, True))))
        return [Case("fields", [s, addc], post, pre=[npos >= 0, ntag >= 0, npos < 4000], zh=h0, heap=heap, invariants=inv, models=models,
                     options=dict(alloc_lists=True, opaque_elems=True), symbols=dict(n_positional=npos, n_tags=ntag, virtual=virtual, add_virtual_commentary=addc, record_type_fails=rt_fails),
                     replay=lambda w: {"target": "bounded.replay_helpers:writer_cases"}, confirm=battery_confirm)]
