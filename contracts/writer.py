"""C01 / C18 / C20 — Writer.to_list: how a line is written.  One entry per field, in order: the record type, every positional field,
every tag; a field whose encoding fails is never dropped and never written silently: its fallback text is written AND the line is
marked `# INVALID` (the marker is present iff at least one field failed); virtual lines carry the commentary tag."""
import z3, builtins
from pyvc.contract import Contract, Case, register
from pyvc.dsl import *
from pyvc.values import *

AII = z3.ArraySort(I, I)
AIB = z3.ArraySort(I, B)


@register
class WriterToList(Contract):
    fn = "gfapy/line/common/writer.py::Writer.to_list"
    props = ("C01", "C18", "C20")
    fragment = "L"
    doc = ("to_list(): the j-th positional field and then the j-th tag are written in order, each as field_to_s(name, tag=False/True) or - when "
           "that raises - as the text of its value, in which case the name is recorded; the result has 1 + #positional + #tags entries, plus "
           "the commentary of a virtual line, plus the `# INVALID` marker iff some field (or the record type) failed (two loop invariants, all "
           "numbers of fields)")

    def cases(self, ctx):
        g = ctx.gfapy
        npos, ntag = z3.Int("n_positional"), z3.Int("n_tags")
        fails = z3.Const("encoding_fails", AIB)              # per field id
        rt_fails = z3.Bool("record_type_fails")
        virtual, addc = z3.Bool("virtual"), z3.Bool("add_virtual_commentary")
        text = z3.Function("encoded_text", I, B, I)          # (field, as tag) -> text object
        fallback = z3.Function("fallback_text", I, I)
        k, j = z3.Int("k"), z3.Int("j")
        PF = SList(npos, z3.Lambda([k], 100 + k), lambda t: Ref(t))
        TG = SList(ntag, z3.Lambda([k], 5000 + k), lambda t: Ref(t))
        h0 = {"L_n": z3.Const("L_n", AII), "L_e": z3.Const("L_e", z3.ArraySort(I, AII)), "next_list": z3.Int("next_list")}
        a_id, err_id = h0["next_list"], h0["next_list"] + 1
        s = Obj(g.Line, "line")
        heap = {s.oid: {"virtual": virtual}}
        def m_rt(E, st, pos, kw):
            yield ("raise", Exc(g.FormatError), [rt_fails])
            yield ("val", Ref(z3.IntVal(1)), [z3.Not(rt_fails)])
        def m_field_to_s(E, st, pos, kw):
            self_, fn_ = pos[:2]
            tag = kw.get("tag", pos[2] if len(pos) > 2 else False)
            yield ("raise", Exc(g.FormatError), [fails[fn_.t]])
            yield ("val", Ref(text(fn_.t, z3.BoolVal(bool(tag)))), [z3.Not(fails[fn_.t])])
        def m_get(E, st, pos, kw):
            self_, fn_ = pos
            yield ("val", Ref(7000000 + fn_.t), [])
        def m_str(E, st, pos, kw):
            (x,) = pos
            if isinstance(x, Ref):
                yield ("val", Ref(fallback(x.t - 7000000)), [])
            else:
                yield ("val", Unknown("text"), [])
        models = {g.Line.record_type.fget: m_rt, g.Line.positional_fieldnames.fget: const_model(lambda self_: PF), g.Line.tagnames.fget: const_model(lambda self_: TG),
                  ctx.fn("gfapy/line/common/writer.py::Writer.field_to_s"): m_field_to_s, ctx.fn("gfapy/line/common/field_data.py::FieldData.get"): m_get,
                  builtins.str: m_str}
        def entry(zh, idx, fid, tag):
            return zh["L_e"][a_id][idx] == z3.If(fails[fid], fallback(fid), text(fid, z3.BoolVal(tag)))
        def nfail_pos(upto):
            return z3.Exists([j], z3.And(0 <= j, j < upto, fails[100 + j]))
        def nfail_tag(upto):
            return z3.Exists([j], z3.And(0 <= j, j < upto, fails[5000 + j]))
        def inv_pos(i, st):
            zh = st.zh
            return z3.And(i <= npos, zh["L_n"][a_id] == 1 + i, zh["next_list"] == h0["next_list"] + 2,
                          z3.ForAll([j], z3.Implies(z3.And(0 <= j, j < i), entry(zh, 1 + j, 100 + j, False))),
                          (zh["L_n"][err_id] > 0) == z3.Or(rt_fails, nfail_pos(i)), zh["L_n"][err_id] >= 0)
        def inv_tag(i, st):
            zh = st.zh
            return z3.And(i <= ntag, zh["L_n"][a_id] == 1 + npos + i, zh["next_list"] == h0["next_list"] + 2,
                          z3.ForAll([j], z3.Implies(z3.And(0 <= j, j < npos), entry(zh, 1 + j, 100 + j, False))),
                          z3.ForAll([j], z3.Implies(z3.And(0 <= j, j < i), entry(zh, 1 + npos + j, 5000 + j, True))),
                          (zh["L_n"][err_id] > 0) == z3.Or(rt_fails, nfail_pos(npos), nfail_tag(i)), zh["L_n"][err_id] >= 0)
        mod = {"fn": lambda nm: Ref(fresh(nm, I)), "fstr": lambda nm: Ref(fresh(nm, I))}
        inv = {("Writer.to_list", 0): dict(inv=inv_pos, modheap=["L_n", "L_e"], mod=mod), ("Writer.to_list", 1): dict(inv=inv_tag, modheap=["L_n", "L_e"], mod=mod)}
        def post(kd, v, st):
            if kd == "raise" or not isinstance(v, LRef):
                return z3.BoolVal(False)
            zh = st.zh
            anyfail = z3.Or(rt_fails, nfail_pos(npos), nfail_tag(ntag))
            extra = z3.If(z3.And(virtual, addc), 1, 0) + z3.If(anyfail, 1, 0)
            return z3.And(v.id == a_id, zh["L_n"][a_id] == 1 + npos + ntag + extra,
                          z3.ForAll([j], z3.Implies(z3.And(0 <= j, j < npos), entry(zh, 1 + j, 100 + j, False))),
                          z3.ForAll([j], z3.Implies(z3.And(0 <= j, j < ntag), entry(zh, 1 + npos + j, 5000 + j, True))))
        return [Case("fields", [s, addc], post, pre=[npos >= 0, ntag >= 0, npos < 4000], zh=h0, heap=heap, invariants=inv, models=models,
                     options=dict(alloc_lists=True, opaque_elems=True), symbols=dict(n_positional=npos, n_tags=ntag, virtual=virtual, add_virtual_commentary=addc, record_type_fails=rt_fails),
                     replay=lambda w: {"target": "bounded.replay_helpers:writer_cases"}, confirm=battery_confirm)]


class _DataGet:
    """self._data: `in` and `.get` for the one field under consideration"""
    def __init__(self, has, value):
        self.has, self.value = has, value

    def pyvc_contains(self, E, x):
        return self.has

    def pyvc_attr(self, E, attr, st):
        if attr != "get":
            raise Unsupported("_data.%s" % attr)
        me = self
        class G:
            def pyvc_call(self, E, pos, kw, st):
                yield ("val", me.value, st)
        yield ("val", G(), st)


@register
class FieldToS(Contract):
    fn = "gfapy/line/common/writer.py::Writer.field_to_s"
    props = ("C18", "C20", "C01")
    doc = ("field_to_s: a field without value raises NotFoundError; a value that is not text is encoded with the datatype of the field; at "
           "validation level >= 2 the TEXT that is written has been validated, whatever the value was (text kept from parsing, or a decoded "
           "value that has just been encoded: the encoders accept values whose text the datatype refuses); only gfapy errors are raised")

    def cases(self, ctx):
        g = ctx.gfapy
        vlevel = z3.Int("vlevel")
        has, is_none, is_text = z3.Bool("field_in_data"), z3.Bool("value_is_None"), z3.Bool("value_is_text")
        enc_fails, text_valid = z3.Bool("encoder_refuses_value"), z3.Bool("written_text_is_valid")
        as_tag = z3.Bool("tag")
        s = Obj(g.Line, "line")
        class Val:
            """the stored value (text or decoded) / the text obtained from it"""
            def __init__(self, kind):
                self.kind = kind
        stored, encoded, tagtext = Val("stored"), Val("encoded"), Val("tag")
        value = Opt(is_none, stored)
        class _Get:
            def pyvc_call(self, E, pos, kw, st):
                yield ("val", pos[1], st)               # no alias for the field under consideration: FIELD_ALIAS.get(name, name) = name
        class _Alias:
            def pyvc_attr(self, E, attr, st):
                if attr != "get":
                    raise Unsupported("FIELD_ALIAS.%s" % attr)
                yield ("val", _Get(), st)
        class _Cls:
            def pyvc_attr(self, E, attr, st):
                if attr != "FIELD_ALIAS":
                    raise Unsupported("class attribute %s" % attr)
                yield ("val", _Alias(), st)
        heap = {s.oid: {"_data": _DataGet(has, value), "vlevel": vlevel, "__class__": _Cls()}}
        def m_isinstance(E, st, pos, kw):
            x, cls = pos
            x = x.val if isinstance(x, Opt) else x
            if x is stored and cls is str:
                yield ("val", is_text, [])
            else:
                raise Unsupported("isinstance(%r, %r)" % (x, cls))
        def m_encode(E, st, pos, kw):
            yield ("raise", Exc(g.FormatError), [enc_fails])
            yield ("val", encoded, [z3.Not(enc_fails)])
        def m_validate(E, st, pos, kw):
            x = pos[0].val if isinstance(pos[0], Opt) else pos[0]
            yield ("raise", Exc(g.FormatError), [z3.Not(text_valid)], st.with_ghost("validated", x.kind))
            yield ("val", None, [text_valid], st.with_ghost("validated", x.kind))
        def m_tag(E, st, pos, kw):
            x = pos[0].val if isinstance(pos[0], Opt) else pos[0]
            yield ("val", tagtext, [], st.with_ghost("tagged", x.kind))
        models = {builtins.isinstance: m_isinstance,
                  ctx.fn("gfapy/field/writer.py::Writer._to_gfa_field"): m_encode,
                  ctx.fn("gfapy/field/validator.py::Validator._validate_gfa_field"): m_validate,
                  ctx.fn("gfapy/field/writer.py::Writer._to_gfa_tag"): m_tag,
                  ctx.fn("gfapy/line/common/field_datatype.py::FieldDatatype._field_or_default_datatype"): const_model(lambda *a: Unknown("datatype"))}
        def post(kd, v, st):
            if kd == "raise":
                return z3.And(z3.BoolVal(issubclass(v.cls, g.Error)),
                              z3.Or(z3.And(z3.BoolVal(v.cls is g.NotFoundError), is_none),
                                    z3.And(z3.Not(is_none), z3.Not(is_text), enc_fails),
                                    z3.And(z3.Not(is_none), vlevel >= 2, z3.Not(text_valid))))
            v = v.val if isinstance(v, Opt) else v
            written = "stored" if v is stored else "encoded" if v is encoded else st.ghost.get("tagged")
            validated = st.ghost.get("validated")
            return z3.And(z3.Not(is_none),
                          z3.BoolVal(written == "stored") == is_text,                                   # text is written as it is, anything else encoded
                          z3.Implies(vlevel >= 2, z3.And(z3.BoolVal(validated == written), text_valid)),     # C18: what is written at level >= 2 was validated
                          z3.BoolVal((v is tagtext)) == as_tag)
        return [Case("field", [s, "xx", as_tag], post, pre=[vlevel >= 0, vlevel <= 3, z3.Implies(is_none, z3.Not(is_text)), z3.Implies(z3.Not(has), is_none)], heap=heap, models=models,
                     symbols=dict(vlevel=vlevel, value_is_None=is_none, value_is_text=is_text, encoder_refuses_value=enc_fails, written_text_is_valid=text_valid, tag=as_tag),
                     minimize=[vlevel], replay=lambda w: {"target": "bounded.replay_helpers:field_to_s_cases"}, confirm=battery_confirm)]
