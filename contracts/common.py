"""Contracts of the small helpers almost every other contract calls: gfapy.lastpos.{posvalue,islastpos,isfirstpos},
gfapy.symbol_invert.invert, SegmentEnd construction/accessors.  Each is proved on its own body AND exported as the
model that callers see (a caller never looks into these bodies)."""
import z3
from pyvc.contract import Contract, Case, register
from pyvc.dsl import *
from pyvc.values import *
from specs import edges as spec


# ---------------------------------------------------------------------------------------- lastpos helpers
def _posarg(p):
    if isinstance(p, Pos):
        return p
    if isinstance(p, int) or (is_sym(p) and p.sort() == I):
        return Pos(S(p), z3.BoolVal(False))
    raise Unsupported("position helper applied to %r" % (p,))


m_posvalue = const_model(lambda p: _posarg(p).v)
m_islastpos = const_model(lambda p: _posarg(p).last)
m_isfirstpos = const_model(lambda p: _posarg(p).v == 0)


def lastpos_models(ctx):
    lp = ctx.gfapy.lastpos
    return {lp.posvalue: m_posvalue, lp.islastpos: m_islastpos, lp.isfirstpos: m_isfirstpos}


def _pos_replay(target):
    def r(w):
        return {"target": target, "args": [w["p"]]}
    return r


@register
class PosValue(Contract):
    fn = "gfapy/lastpos.py::posvalue"
    props = ("C04", "C06", "C11")
    doc = "posvalue(p) = the integer of p, for p an int or a LastPos"

    def cases(self, ctx):
        p = pos("p")
        return [Case("pos", [p], lambda k, v, st: result_is(k, v, p.v), pre=[p.v >= 0], symbols={"p": p},
                     replay=_pos_replay("gfapy.lastpos:posvalue"), expect_paths=2)]


@register
class IsLastPos(Contract):
    fn = "gfapy/lastpos.py::islastpos"
    props = ("C04", "C06", "C11")
    doc = "islastpos(p) iff p is a LastPos"

    def cases(self, ctx):
        p = pos("p")
        return [Case("pos", [p], lambda k, v, st: result_is(k, v, p.last),
                     pre=[p.v >= 0], symbols={"p": p}, replay=_pos_replay("gfapy.lastpos:islastpos"), expect_paths=2)]


@register
class IsFirstPos(Contract):
    fn = "gfapy/lastpos.py::isfirstpos"
    props = ("C04", "C06", "C11")
    doc = "isfirstpos(p) iff the value of p is 0 (also for 0$)"

    def cases(self, ctx):
        p = pos("p")
        def post(k, v, st):
            if k != "return":
                return z3.BoolVal(False)
            return S(v) == (p.v == 0)
        return [Case("pos", [p], post, pre=[p.v >= 0], symbols={"p": p}, models={ctx.gfapy.lastpos.posvalue: m_posvalue},
                     replay=_pos_replay("gfapy.lastpos:isfirstpos"))]


# ---------------------------------------------------------------------------------------- invert
def invert_table(sym):
    return [(None, z3.Not(one_of(sym, ["+", "-", "L", "R"])))]


def m_invert(E, st, pos_, kw):
    import gfapy
    (sym,) = pos_
    ok = one_of(sym, ["+", "-", "L", "R"])
    yield ("raise", Exc(gfapy.ValueError), [z3.Not(ok)])
    yield ("val", spec.invert(S(sym)), [ok])


@register
class Invert(Contract):
    fn = "gfapy/symbol_invert.py::invert"
    props = ("C11", "C12", "C14")
    doc = "invert swaps + with - and L with R; any other symbol raises gfapy.ValueError"

    def cases(self, ctx):
        g = ctx.gfapy
        s = z3.String("symbol")
        ok = one_of(s, ["+", "-", "L", "R"])
        def post(k, v, st):
            return raises_iff(k, v, [(g.ValueError, z3.Not(ok))], lambda r: S(r) == spec.invert(s))
        return [Case("sym", [s], post, symbols={"symbol": s},
                     replay=lambda w: {"target": "gfapy.symbol_invert:invert", "args": [w["symbol"]]}, expect_paths=5)]


# ---------------------------------------------------------------------------------------- SegmentEnd
def mk_segend(seg, et):
    """abstract SegmentEnd record"""
    import gfapy
    o = Obj(gfapy.SegmentEnd, "segend")
    return o, {"_SegmentEnd__segment": seg, "_SegmentEnd__end_type": et}


def m_segend_ctor(E, st, pos_, kw):
    """gfapy.SegmentEnd(segment, end_type): two-argument form only"""
    if len(pos_) != 2:
        raise Unsupported("SegmentEnd() with %d arguments" % len(pos_))
    o, attrs = mk_segend(pos_[0], pos_[1])
    st2 = st
    for k, v in attrs.items():
        st2 = st2.setattr(o, k, v)
    yield ("val", o, [], st2)


def segend_fields(st, o):
    a = st.attrs(o)
    return a["_SegmentEnd__segment"], a["_SegmentEnd__end_type"]
