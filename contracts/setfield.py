"""C08 / C09 / C18 — FieldData._set_existing_field: order of checks and writes.
Ghost state: `dirty` becomes true at the first observable write (registry or _data); obligations:
  * (C08) every path that raises carries dirty = false (the failed call left the Gfa unchanged);
  * (C09) the registry is re-entered only with an identifier that is free (or the line's own);
  * (C18) at vlevel >= 3 an invalid value is reported (gfapy error) before it is stored; a valid value is never rejected
    for validity reasons at any level."""
import z3
from pyvc.contract import Contract, Case, register
from pyvc.dsl import *
from pyvc.values import *


class DataDict:
    """the `_data` dict of a line: membership of the one field under consideration is symbolic; stores mark the state dirty"""
    def __init__(self, has):
        self.has = has

    def pyvc_contains(self, E, x):
        return self.has

    def pyvc_setitem(self, E, i, v, st):
        yield ("fall", None, st.with_ghost("dirty", True).with_ghost("stored", True))

    def pyvc_attr(self, E, attr, st):
        if attr == "pop":
            yield ("val", _Pop(self), st)
        else:
            raise Unsupported("_data.%s" % attr)


class _Pop:
    def __init__(self, d):
        self.d = d

    def pyvc_call(self, E, pos, kw, st):
        yield ("val", None, st.with_ghost("dirty", True))


class DatatypeTable:
    """the `_datatype` dict of a line (datatypes of its custom tags): pop marks the ghost `datatype_dropped`"""
    def pyvc_attr(self, E, attr, st):
        if attr == "pop":
            yield ("val", _DtPop(), st)
        else:
            raise Unsupported("_datatype.%s" % attr)


class _DtPop:
    def pyvc_call(self, E, pos, kw, st):
        yield ("val", None, st.with_ghost("dirty", True).with_ghost("datatype_dropped", True))


def _case(ctx, cls, label):
    g = ctx.gfapy
    fieldname, pf = enum("fieldname", sorted(set(list(cls.POSFIELDS) + ["xx", "ID"])))
    vlevel = z3.Int("vlevel")
    connected = z3.Bool("connected")
    set_ref = z3.Bool("set_reference")
    vnone, vph, vvalid = z3.Bool("value_is_None"), z3.Bool("value_is_placeholder"), z3.Bool("value_is_valid")
    lookup = z3.Int("lookup")            # 0: identifier free, 1: carried by this very line, 2: carried by another line
    vstr = z3.Bool("value_is_a_text")
    listed_p, listed_s = z3.Bool("listed_by_a_path"), z3.Bool("listed_by_a_set")
    class _Truthy:
        def __init__(self, b):
            self.b = b
        def pyvc_truth(self, E):
            return self.b
    class _RefsOfLine:                     # the collections of the line: only asked whether groups list it
        def pyvc_attr(self, E, attr, st):
            if attr != "get":
                raise Unsupported("_refs.%s" % attr)
            class G_:
                def pyvc_call(self, E, pos, kw, st):
                    k_ = conc(pos[0])
                    if k_ not in ("paths", "sets"):
                        raise Unsupported("_refs.get(%r)" % (k_,))
                    yield ("val", _Truthy(listed_p if k_ == "paths" else listed_s), st)
            yield ("val", G_(), st)
    s = Obj(cls, "line")
    gfa = Obj(g.Gfa, "gfa")
    other = Obj(cls, "other")
    val = Obj(None, "value")
    heap = {s.oid: {"_gfa": Opt(z3.Not(connected), gfa), "vlevel": vlevel, "_data": DataDict(z3.Bool("has_field")), "_datatype": DatatypeTable(), "_refs": _RefsOfLine()}, gfa.oid: {}, other.oid: {}, val.oid: {}}
    value = Opt(vnone, val)
    def m_validate(E, st, pos_, kw):
        yield ("raise", Exc(g.FormatError), [z3.Not(vvalid)])
        yield ("val", None, [vvalid])
    def m_line(E, st, pos_, kw):
        yield ("val", None, [lookup == 0]); yield ("val", s, [lookup == 1]); yield ("val", other, [lookup == 2])
    def m_unregister(E, st, pos_, kw):
        yield ("val", None, [], st.with_ghost("dirty", True).with_ghost("unregistered", True))
    def m_register(E, st, pos_, kw):
        yield ("val", None, [], st.with_ghost("dirty", True).with_ghost("registered_with", True))
    import builtins
    def m_isinstance(E, st, pos_, kw):
        x = pos_[0].val if isinstance(pos_[0], Opt) else pos_[0]
        if x is val and pos_[1] is str:
            yield ("val", vstr, [])
        else:
            raise Unsupported("isinstance(%r, %r)" % (pos_[0], pos_[1]))
    models = {
        builtins.isinstance: m_isinstance,
        g.Line.record_type.fget: const_model(lambda self_: cls.RECORD_TYPE),
        ctx.fn("gfapy/field/validator.py::Validator._validate_gfa_field"): m_validate,
        ctx.fn("gfapy/line/common/field_datatype.py::FieldDatatype._field_datatype"): const_model(lambda *a: Unknown("datatype")),
        ctx.fn("gfapy/line/common/field_datatype.py::FieldDatatype._field_or_default_datatype"): const_model(lambda *a: Unknown("datatype")),
        g.is_placeholder: const_model(lambda x: vph),
        ctx.fn("gfapy/lines/finders.py::Finders.line"): m_line,
        ctx.fn("gfapy/lines/destructors.py::Destructors._unregister_line"): m_unregister,
        ctx.fn("gfapy/lines/creators.py::Creators._register_line"): m_register,
        g.Line.positional_fieldnames.fget: const_model(lambda self_: list(cls.POSFIELDS)),          # the class constant (FieldData.positional_fieldnames returns it)
    }
    has = z3.Bool("has_field")
    is_pos = z3.Or(*[fieldname == sv(f) for f in cls.POSFIELDS])
    storage_name = cls.STORAGE_KEY == "name"
    renaming = z3.And(connected, fieldname == sv(cls.NAME_FIELD)) if storage_name and getattr(cls, "NAME_FIELD", None) else z3.BoolVal(False)
    if cls.STORAGE_KEY not in (None, "name", "merge"):
        renaming = z3.Or(renaming, z3.And(connected, fieldname == sv(cls.STORAGE_KEY)))
    protected = z3.And(connected, z3.Not(set_ref), z3.Or(*[fieldname == sv(f) for f in list(cls.REFERENCE_FIELDS) + list(cls.BACKREFERENCE_RELATED_FIELDS)] or [z3.BoolVal(False)]))
    # a new identifier that is not a text, and the removal of an identifier by which groups list the line: refused before the line leaves the registry (every level)
    not_a_name = z3.And(renaming, z3.Not(vnone), z3.Not(vstr), z3.Not(vph))
    needed = z3.And(renaming, z3.Or(vnone, vph), z3.BoolVal(cls.RECORD_TYPE in ("E", "G", "O", "U")), z3.Or(listed_p, listed_s))
    def post(k, v, st):
        dirty = bool(st.ghost.get("dirty"))
        if k == "raise":
            c = [z3.BoolVal(issubclass(v.cls, g.Error)), z3.BoolVal(not dirty)]           # C07 + C08
            if v.cls is g.NotUniqueError:
                c.append(z3.And(renaming, lookup == 2))
            elif v.cls is g.RuntimeError:
                c.append(z3.Or(protected, needed))
            elif v.cls is g.TypeError:
                c.append(not_a_name)
            else:
                c.append(z3.And(z3.Not(vvalid), z3.Not(vnone), z3.Or(vlevel >= 3, z3.And(renaming, vlevel >= 1))))      # C18: only invalid values are rejected
            return z3.And(*c)
        c = [z3.Not(protected), z3.Not(not_a_name), z3.Not(needed),
             z3.Implies(z3.And(vlevel >= 3, z3.Not(vnone)), vvalid),                                          # C18: level 3 reports at the assignment
             z3.Implies(z3.And(renaming, z3.Not(vnone), z3.Not(vph)), lookup != 2),                            # C09: never onto an identifier in use
             z3.BoolVal(bool(st.ghost.get("registered_with")) == bool(st.ghost.get("unregistered"))),           # the line is back in the registry
             z3.Implies(z3.Not(vnone), z3.BoolVal(bool(st.ghost.get("stored")))),
             # C20: a tag that is removed (None assigned to a tag that has a value) loses its datatype too, so that a later value makes a new
             # tag of its own default datatype; nothing else drops a datatype
             z3.BoolVal(bool(st.ghost.get("datatype_dropped"))) == z3.And(vnone, has, z3.Not(is_pos))]
        return z3.And(*c)
    pre = [pf, vlevel >= 0, vlevel <= 3, lookup >= 0, lookup <= 2, z3.Implies(vnone, z3.Not(vph))]
    sym = dict(fieldname=fieldname, vlevel=vlevel, connected=connected, set_reference=set_ref, value_is_None=vnone, value_is_placeholder=vph,
               value_is_valid=vvalid, lookup=lookup, has_field=has, value_is_a_text=vstr, listed_by_a_path=listed_p, listed_by_a_set=listed_s)
    def replay(w):
        return {"target": "bounded.replay_helpers:set_existing_field", "args": [label, w["fieldname"], w["vlevel"], w["connected"], w["set_reference"], w["value_is_None"],
                                                                           w["value_is_placeholder"], w["value_is_valid"], w["lookup"], bool(w.get("has_field"))]}
    def confirm(w, out):
        return battery_confirm(w, out)
    return Case(label, [s, fieldname, value, set_ref], post, pre=pre, heap=heap, symbols=sym, models=models, minimize=[vlevel, lookup], expect_paths=6,
                replay=replay, confirm=confirm)


@register
class SetExistingField(Contract):
    fn = "gfapy/line/common/field_data.py::FieldData._set_existing_field"
    props = ("C08", "C09", "C18", "C20", "C05")
    fragment = "H"
    doc = ("per receiver class (segment, link, GFA2 edge, gap, unordered group): a raising path has written nothing (dirty = false) and raises a gfapy.Error; "
           "NotUniqueError iff a connected line is renamed onto an identifier carried by another line; RuntimeError iff a protected field of a "
           "connected line is set directly, or the identifier by which groups list a connected E / G / O / U line is taken away; TypeError iff the new identifier of a connected "
           "line is neither a text nor a placeholder (at every level, before the line leaves the registry); a validity error only for an invalid value and only at level 3 (or level >= 1 for a rename); on success the "
           "value is stored, the line is back in the registry, and at level 3 the value was valid; the datatype of a tag is dropped iff None is "
           "assigned to a tag that has a value")

    def cases(self, ctx):
        g = ctx.gfapy
        return [_case(ctx, g.line.segment.GFA1, "segment.GFA1"), _case(ctx, g.line.edge.Link, "edge.Link"), _case(ctx, g.line.edge.GFA2, "edge.GFA2"),
                _case(ctx, g.line.Gap, "Gap"), _case(ctx, g.line.group.Unordered, "group.Unordered")]


# ------------------------------------------------------------------------------------------- FieldData.set (the public entry)
class _Flag:
    """a container whose only observable is the membership of the field under consideration"""
    def __init__(self, has, item=None):
        self.has, self.item = has, item

    def pyvc_contains(self, E, x):
        return self.has

    def pyvc_getitem(self, E, i, st):
        yield ("val", self.item, st)

    def pyvc_attr(self, E, attr, st):
        if attr != "keys":
            raise Unsupported("container.%s" % attr)
        class K:
            def pyvc_call(self, E, pos, kw, st):
                yield ("val", [], st)                      # (only read for the text of an error message)
        yield ("val", K(), st)


@register
class SetField(Contract):
    fn = "gfapy/line/common/field_data.py::FieldData.set"
    props = ("C20", "C07", "C08", "C18", "C05")
    doc = ("set(name, value), by case: a field that exists or is predefined -> _set_existing_field; an alias -> set on the real name; a virtual "
           "line -> RuntimeError; a NEW tag (level 0, or a valid custom tag name): refused with FormatError when the name shadows an attribute of "
           "the line, handed to _set_existing_field when its datatype was declared, otherwise stored together with the DEFAULT datatype of the "
           "value (datatype and value, nothing else; None stores nothing) - at level 3 only after the value was validated against that default datatype, "
           "and a value which fails is refused with the validator's error; any other name -> FormatError. Every refusal happens before any write")

    def cases(self, ctx):
        import builtins
        g = ctx.gfapy
        in_data, predefined, alias, virtual = z3.Bool("field_has_a_value"), z3.Bool("predefined_tag"), z3.Bool("alias"), z3.Bool("virtual")
        vlevel, valid_name = z3.Int("vlevel"), z3.Bool("valid_custom_tag_name")
        cls_attr, inst_attr, inst_dyn = z3.Bool("name_of_a_class_attribute"), z3.Bool("name_in_instance_dict"), z3.Bool("instance_entry_is_a_field_accessor")
        declared, vnone = z3.Bool("datatype_declared"), z3.Bool("value_is_None")
        s, val, real = Obj(g.Line, "line"), Obj(None, "value"), Obj(None, "real_name")
        value = Opt(vnone, val)
        entry = Obj(None, "instance_dict_entry")
        def w(st, what):
            return st.with_ghost("events", tuple(st.ghost.get("events", ())) + (what,))
        class DataD(_Flag):
            def pyvc_setitem(self, E, i, v, st):
                v_ = v.val if isinstance(v, Opt) else v
                yield ("fall", None, w(st, "data[field]=value" if v_ is val else "data[field]=other"))
            def pyvc_getitem(self, E, i, st):
                yield ("val", val, st)
        class DtD:
            def pyvc_attr(self, E, attr, st):
                if attr != "get":
                    raise Unsupported("_datatype.%s" % attr)
                class G:
                    def pyvc_call(self, E, pos, kw, st):
                        yield ("val", Opt(z3.Not(declared), Obj(None, "declared_datatype")), st)
                yield ("val", G(), st)
            def pyvc_setitem(self, E, i, v, st):
                yield ("fall", None, w(st, "datatype[field]=default" if isinstance(v, Obj) and v.tag == "default_datatype_of_value" else "datatype[field]=other"))
        class Cls:
            def pyvc_attr(self, E, attr, st):
                if attr == "FIELD_ALIAS":
                    yield ("val", _Flag(alias, real), st)
                elif attr == "PREDEFINED_TAGS":
                    yield ("val", [], st)                  # (only read for the text of an error message)
                else:
                    raise Unsupported("class attribute %s" % attr)
        heap = {s.oid: {"_data": DataD(in_data), "_datatype": DtD(), "__class__": Cls(), "__dict__": _Flag(inst_attr, entry), "virtual": virtual, "vlevel": vlevel},
                val.oid: {}, real.oid: {}, entry.oid: {}}
        def m_existing(E, st, pos, kw):
            ok = pos[0] is s and (pos[2] is value or (isinstance(pos[2], Opt) and pos[2].val is val) or pos[2] is val)
            yield ("val", Obj(None, "result_of_set_existing"), [], w(st, "set_existing" if ok else "set_existing_wrong_args"))
        def m_set(E, st, pos, kw):
            ok = pos[0] is s and pos[1] is real
            yield ("val", Obj(None, "result_of_set_real"), [], w(st, "set_real_name" if ok else "set_wrong_args"))
        def m_hasattr(E, st, pos, kw):
            yield ("val", cls_attr, [])
        def m_isinstance(E, st, pos, kw):
            if pos[0] is entry:
                yield ("val", inst_dyn, [])
            else:
                raise Unsupported("isinstance(%r)" % (pos[0],))
        dflt = Obj(None, "default_datatype_of_value")
        def m_default(E, st, pos, kw):
            yield ("val", dflt, [])
        value_ok = z3.Bool("value_valid_for_its_default_datatype")
        def m_validate(E, st, pos, kw):
            a = list(pos)[-3:]
            ok = (a[0] is val or a[0] is value or (isinstance(a[0], Opt) and a[0].val is val)) and a[1] is dflt
            yield ("raise", Exc(g.FormatError), [z3.Not(value_ok)], st)
            yield ("val", None, [value_ok], w(st, "validated" if ok else "validated_wrong_args"))
        f = ctx.fn
        models = {f("gfapy/line/common/field_data.py::FieldData._set_existing_field"): m_existing, f("gfapy/line/common/field_data.py::FieldData.set"): m_set,
                  f("gfapy/line/common/validate.py::Validate._is_predefined_tag"): const_model(lambda *a: predefined),
                  f("gfapy/line/common/validate.py::Validate._is_valid_custom_tagname"): const_model(lambda *a: valid_name),
                  f("gfapy/line/common/dynamic_fields.py::DynamicFields._define_field_methods") if ctx.fn_opt("gfapy/line/common/dynamic_fields.py::DynamicFields._define_field_methods") else None: const_model(lambda *a: None),
                  f("gfapy/field/field.py::Field._get_default_gfa_tag_datatype"): m_default,
                  f("gfapy/field/validator.py::Validator._validate_gfa_field"): m_validate,
                  builtins.hasattr: m_hasattr, builtins.isinstance: m_isinstance,
                  g.Line.positional_fieldnames.fget: const_model(lambda s_: []), g.Line.tagnames.fget: const_model(lambda s_: [])}
        models.pop(None, None)
        existing = z3.Or(in_data, predefined)
        newtag = z3.And(z3.Not(existing), z3.Not(alias), z3.Not(virtual), z3.Or(vlevel == 0, valid_name))
        shadows = z3.Or(cls_attr, z3.And(inst_attr, z3.Not(inst_dyn)))
        def post(kd, v, st):
            e = tuple(st.ghost.get("events", ()))
            if kd == "raise":
                c = [z3.BoolVal(e == ()), z3.BoolVal(issubclass(v.cls, g.Error))]
                if v.cls is g.RuntimeError:
                    c.append(z3.And(z3.Not(existing), z3.Not(alias), virtual))
                elif v.cls is g.FormatError:
                    c.append(z3.And(z3.Not(existing), z3.Not(alias), z3.Not(virtual),
                                    z3.Or(z3.And(newtag, shadows), z3.Not(z3.Or(vlevel == 0, valid_name)),
                                          z3.And(newtag, z3.Not(shadows), z3.Not(declared), z3.Not(vnone), z3.Not(value_ok)))))      # (the validator's refusal of the value of a new tag)
                else:
                    c.append(z3.BoolVal(False))
                return z3.And(*c)
            want = z3.If(existing, 1, z3.If(alias, 2, z3.If(z3.And(newtag, z3.Not(shadows), declared), 1, z3.If(z3.And(newtag, z3.Not(shadows), z3.Not(vnone)), 3, 4))))
            # (the two stores of a new tag may come in either order: the contract speaks about what is stored, not about the order)
            checked = e[:1] == ("validated",)
            if checked:
                e = e[1:]
            got = {("set_existing",): 1, ("set_real_name",): 2, ("datatype[field]=default", "data[field]=value"): 3, ("data[field]=value", "datatype[field]=default"): 3, (): 4}.get(e, 0)
            if checked and got != 3:
                return z3.BoolVal(False)
            return z3.And(z3.Implies(z3.And(want == 3, vlevel >= 3), z3.BoolVal(checked)),          # C18: at level 3 an invalid value is reported at the assignment
                          z3.Not(virtual) if got in (3, 4) else z3.BoolVal(True), want == got,
                          z3.Implies(want == 4, z3.And(newtag, z3.Not(shadows), z3.Not(declared), vnone)))
        sym = dict(field_has_a_value=in_data, predefined_tag=predefined, alias=alias, virtual=virtual, vlevel=vlevel, valid_custom_tag_name=valid_name,
                   name_of_a_class_attribute=cls_attr, name_in_instance_dict=inst_attr, instance_entry_is_a_field_accessor=inst_dyn, datatype_declared=declared, value_is_None=vnone, value_valid_for_its_default_datatype=value_ok)
        return [Case("by-case", [s, Obj(None, "fieldname"), value], post, pre=[vlevel >= 0, vlevel <= 3], heap=heap, models=models, symbols=sym, minimize=[vlevel])]
