"""Integer / enumeration kernels of C12, C15, C16, C20 (fragment I): small decision functions whose postcondition is the
property's own wording, proved for all integers."""
import z3
from pyvc.contract import Contract, Case, register
from pyvc.dsl import *
from pyvc.values import *
from . import common


# ---------------------------------------------------------------------------------------- C15
@register
class AutoSelectDistributeEnd(Contract):
    fn = "gfapy/graph_operations/multiplication.py::Multiplication._auto_select_distribute_end"
    props = ("C15",)
    doc = ("documented clauses of the automatic choice of the end whose links are distributed: an end with exactly `factor` links wins (R first); "
           "with equal_only nothing else is chosen; an end with fewer than 2 links is never chosen; if some end has >= 2 links one is chosen")

    def cases(self, ctx):
        f, bs, es, eq = z3.Int("factor"), z3.Int("bsize"), z3.Int("esize"), z3.Bool("equal_only")
        def post(k, val, st):
            if k != "return":
                return z3.BoolVal(False)
            v = sv("None") if val is None else S(val)
            return z3.And(z3.Or(v == sv("None"), v == sv("L"), v == sv("R")),
                          z3.Implies(es == f, v == sv("R")), z3.Implies(z3.And(es != f, bs == f), v == sv("L")),
                          z3.Implies(z3.And(eq, es != f, bs != f), v == sv("None")),
                          z3.Implies(v == sv("R"), z3.Or(es >= 2, es == f)), z3.Implies(v == sv("L"), z3.Or(bs >= 2, bs == f)),
                          z3.Implies(z3.And(z3.Not(eq), z3.Or(es >= 2, bs >= 2)), v != sv("None")))
        return [Case("int", [f, bs, es, eq], post, pre=[f >= 2, bs >= 0, es >= 0], symbols=dict(factor=f, bsize=bs, esize=es, equal_only=eq),
                     minimize=[f, bs, es],
                     replay=lambda w: {"target": "gfapy.graph_operations.multiplication:Multiplication._auto_select_distribute_end",
                                       "args": [w["factor"], w["bsize"], w["esize"], w["equal_only"]]}, expect_paths=10)]


@register
class DistributeWindowCover(Contract):
    id = "DistributeWindowCover"
    fn = "gfapy/graph_operations/multiplication.py::Multiplication._distribute_links"
    props = ("C15",)
    fragment = "lemma"
    doc = ("lemma (pure arithmetic, also checked in Lean as window_cover): with n links on the distributed end and k = factor copies, copy i keeps "
           "the links i .. i+max(n-k,0); every link index j < n lies in the window of some copy i < k, so no former neighbour is lost")

    def cases(self, ctx):
        n, k, j = z3.Int("n"), z3.Int("k"), z3.Int("j")
        diff = z3.If(n - k > 0, n - k, 0)
        i = z3.If(j < k, j, k - 1)
        def extra(E, paths):
            return [("lemma:window-cover", [k >= 2, n >= 0, 0 <= j, j < n], z3.And(0 <= i, i < k, i <= j, j <= i + diff))]
        # the function body itself (object-graph orchestration) is out of reach: only the window expression is read from the AST
        import ast
        from pyvc import frontend
        node, info = frontend.load_function(ctx.repo, self.func(ctx))
        src = ast.unparse(node)
        self.window_ok = "links_signatures[i:i + diff + 1]" in src and "max([len(et_links) - factor, 0])" in src
        def post(k_, v, st):
            return z3.BoolVal(True)
        def extra2(E, paths):
            o = extra(E, paths)
            o.append(("lemma:window-expression-is-the-one-the-lemma-is-about", [], z3.BoolVal(self.window_ok)))
            return o
        return [Case("arith", None, post, symbols=dict(n=n, k=k, j=j), extra=extra2, minimize=[n, k, j])]


# ---------------------------------------------------------------------------------------- C16
@register
class ConnectivitySymbol(Contract):
    fn = "gfapy/line/segment/references.py::References._connectivity_symbol"
    props = ("C16", "C14")
    doc = "connectivity symbol of an end with n dovetails: 0, 1 or 'M' for more than one"

    def cases(self, ctx):
        n = z3.Int("n")
        def post(k, v, st):
            if k != "return":
                return z3.BoolVal(False)
            if isinstance(v, str):
                return z3.And(n > 1, z3.BoolVal(v == "M"))
            return z3.And(n <= 1, S(v) == n)
        return [Case("int", [Obj(None, "self"), n], post, pre=[n >= 0], symbols={"n": n}, minimize=[n],
                     replay=lambda w: {"target": "gfapy.line.segment.references:References._connectivity_symbol", "self": {"ns": {}}, "args": [w["n"]]},
                     expect_paths=2)]


# ---------------------------------------------------------------------------------------- C20
SUBTYPE_RANGE = {"c": (-2**7, 2**7), "C": (0, 2**8), "s": (-2**15, 2**15), "S": (0, 2**16), "i": (-2**31, 2**31), "I": (0, 2**32)}   # GFA/SAM spec


@register
class IntegerType(Contract):
    fn = "gfapy/numeric_array.py::NumericArray.integer_type"
    props = ("C20", "C01", "C04", "C18")
    doc = ("smallest integer subtype that holds [lo, hi]: unsigned (C,S,I) iff lo >= 0, signed (c,s,i) otherwise, the first in that order whose "
           "range (int8..uint32 of the specification) contains both bounds; gfapy.ValueError iff none does")

    def cases(self, ctx):
        g = ctx.gfapy
        lo, hi = z3.Int("lo"), z3.Int("hi")
        def fits(st):
            a, b = SUBTYPE_RANGE[st]
            return z3.And(a <= lo, hi < b)
        def smallest(lst):
            r = sv("NONE")
            for st in reversed(lst):
                r = z3.If(fits(st), sv(st), r)
            return r
        want = z3.If(lo < 0, smallest(["c", "s", "i"]), smallest(["C", "S", "I"]))
        def post(k, v, st):
            if k == "raise":
                return z3.And(z3.BoolVal(v.cls is g.ValueError), want == sv("NONE"))
            return S(v) == want
        return [Case("range", [(lo, hi)], post, pre=[lo <= hi], symbols=dict(lo=lo, hi=hi), minimize=[lo, hi],
                     replay=lambda w: {"target": "gfapy.numeric_array:NumericArray.integer_type", "args": [{"tuple": [w["lo"], w["hi"]]}]},
                     expect_paths=7)]


# ---------------------------------------------------------------------------------------- C12: equivalence tests as Boolean functions
def _link_pair(ctx):
    g = ctx.gfapy
    def link(tag):
        l = Obj(g.line.edge.Link, tag)
        fe, te = Obj(g.SegmentEnd, tag + ".from_end"), Obj(g.SegmentEnd, tag + ".to_end")
        ov, ovc = Obj(g.CIGAR, tag + ".overlap"), Obj(g.CIGAR, tag + ".overlap.complement")
        return l, fe, te, ov, ovc
    return link("a"), link("b")


def _eq_models(ctx, eqs):
    """SegmentEnd.__eq__ and CIGAR == are modelled by uninterpreted symmetric Boolean facts given by the case"""
    g = ctx.gfapy
    def m_eq(E, st, pos_, kw):
        a, b = pos_
        key = frozenset([a.oid, b.oid]) if isinstance(a, Obj) and isinstance(b, Obj) else None
        if key not in eqs:
            raise Unsupported("== between %r and %r" % (a, b))
        yield ("val", eqs[key], [])
    return m_eq


def _equiv_contract(name, spec_fn, doc):
    class EQ(Contract):
        id = "Link_" + name
        fn = "gfapy/line/edge/link/equivalence.py::Equivalence." + name
        props = ("C12", "C09", "C03")

        def cases(self, ctx):
            g = ctx.gfapy
            (a, afe, ate, aov, aovc), (b, bfe, bte, bov, bovc) = _link_pair(ctx)
            heap = {a.oid: {"from_end": afe, "to_end": ate, "overlap": aov}, b.oid: {"from_end": bfe, "to_end": bte, "overlap": bov},
                    aov.oid: {}, bov.oid: {}, aovc.oid: {}, bovc.oid: {}, afe.oid: {}, ate.oid: {}, bfe.oid: {}, bte.oid: {}}
            ff, tt, ft, tf = z3.Bool("fromA_eq_fromB"), z3.Bool("toA_eq_toB"), z3.Bool("fromA_eq_toB"), z3.Bool("toA_eq_fromB")
            oo, oc = z3.Bool("ovA_eq_ovB"), z3.Bool("ovA_eq_complement_ovB")
            eqs = {frozenset([afe.oid, bfe.oid]): ff, frozenset([ate.oid, bte.oid]): tt, frozenset([afe.oid, bte.oid]): ft,
                   frozenset([ate.oid, bfe.oid]): tf, frozenset([aov.oid, bov.oid]): oo, frozenset([aov.oid, bovc.oid]): oc}
            m_eq = _eq_models(ctx, eqs)
            models = {g.SegmentEnd.__eq__: m_eq, g.CIGAR.complement: const_model(lambda self_: bovc if self_.oid == bov.oid else aovc),
                      list.__eq__: m_eq}
            same = z3.And(ff, tt, oo)
            compl = z3.And(ft, tf, oc)
            want = spec_fn(same, compl)
            sub = {}
            for nm in ("is_same", "is_complement"):
                f = ctx.fn("gfapy/line/edge/link/equivalence.py::Equivalence." + nm)
                if nm != name:
                    models[f] = const_model((lambda s_, o_: same) if nm == "is_same" else (lambda s_, o_: compl))
            def post(k, v, st):
                return z3.And(z3.BoolVal(k == "return"), E_truth(v) == want) if k == "return" else z3.BoolVal(False)
            return [Case("pair", [a, b], post, heap=heap, symbols=dict(ff=ff, tt=tt, ft=ft, tf=tf, oo=oo, oc=oc), models=models)]
    EQ.__name__ = EQ.id
    EQ.doc = doc
    return register(EQ)


def E_truth(v):
    if isinstance(v, bool):
        return z3.BoolVal(v)
    return v


_equiv_contract("is_same", lambda same, compl: same, "is_same(a,b) iff from ends equal, to ends equal and overlaps equal")
_equiv_contract("is_complement", lambda same, compl: compl, "is_complement(a,b) iff a.from_end = b.to_end, a.to_end = b.from_end and a.overlap = complement(b.overlap)")
_equiv_contract("is_eql", lambda same, compl: z3.Or(same, compl), "is_eql(a,b) iff is_same or is_complement: a link and its complement are one edge")


# ---------------------------------------------------------------------------------------- C12: compatibility of a stored link with a request
class _Fn:
    def __init__(self, f):
        self.f = f

    def pyvc_call(self, E, pos, kw, st):
        yield ("val", self.f(*pos), st)


class _OrientedSym:
    """an oriented segment; == is the symbolic relation given by the case, inverted() another such value"""
    def __init__(self, name, eqs, inv=None):
        self.name, self.eqs, self.inv = name, eqs, inv

    def pyvc_eq(self, E, other):
        key = frozenset([self.name, other.name])
        if key not in self.eqs:
            raise Unsupported("== between %s and %s" % (self.name, other.name))
        return self.eqs[key]

    def pyvc_attr(self, E, attr, st):
        if attr == "inverted" and self.inv is not None:
            yield ("val", _Fn(lambda: self.inv), st)
        else:
            raise Unsupported("%s.%s" % (self.name, attr))


class _OverlapSym(_OrientedSym):
    """an overlap: false as a Boolean iff it is empty (a placeholder or an empty CIGAR); complement() another such value"""
    def __init__(self, name, eqs, nonempty, compl=None):
        _OrientedSym.__init__(self, name, eqs)
        self.nonempty, self.compl = nonempty, compl

    def pyvc_truth(self, E):
        return self.nonempty

    def pyvc_attr(self, E, attr, st):
        if attr == "complement" and self.compl is not None:
            yield ("val", _Fn(lambda: self.compl), st)
        else:
            raise Unsupported("%s.%s" % (self.name, attr))


def _compat_setup(ctx):
    g = ctx.gfapy
    sy = dict(from_eq=z3.Bool("self_from_eq_request_from"), to_eq=z3.Bool("self_to_eq_request_to"),
              to_eq_inv_from=z3.Bool("self_to_eq_inverted_request_from"), from_eq_inv_to=z3.Bool("self_from_eq_inverted_request_to"),
              self_ov=z3.Bool("self_overlap_specified"), req_ov=z3.Bool("request_overlap_specified"),
              ov_eq=z3.Bool("self_overlap_eq_request_overlap"), ov_eq_c=z3.Bool("self_overlap_eq_complement_of_request_overlap"))
    eqs = {frozenset(["self.from", "req.from"]): sy["from_eq"], frozenset(["self.to", "req.to"]): sy["to_eq"],
           frozenset(["self.to", "inv(req.from)"]): sy["to_eq_inv_from"], frozenset(["self.from", "inv(req.to)"]): sy["from_eq_inv_to"],
           frozenset(["self.ov", "req.ov"]): sy["ov_eq"], frozenset(["self.ov", "compl(req.ov)"]): sy["ov_eq_c"]}
    sf, stv = _OrientedSym("self.from", eqs), _OrientedSym("self.to", eqs)
    rf = _OrientedSym("req.from", eqs, inv=_OrientedSym("inv(req.from)", eqs))
    rt = _OrientedSym("req.to", eqs, inv=_OrientedSym("inv(req.to)", eqs))
    # the complement of an unspecified overlap is unspecified, of a specified one specified (CIGAR.complement / Placeholder.complement contracts)
    sov = _OverlapSym("self.ov", eqs, sy["self_ov"])
    rov = _OverlapSym("req.ov", eqs, sy["req_ov"], compl=_OverlapSym("compl(req.ov)", eqs, sy["req_ov"]))
    link = Obj(g.line.edge.Link, "self")
    heap = {link.oid: {"oriented_from": sf, "oriented_to": stv, "overlap": sov}}
    direct = z3.And(sy["from_eq"], sy["to_eq"], z3.Or(z3.Not(sy["self_ov"]), z3.Not(sy["req_ov"]), sy["ov_eq"]))
    compl = z3.And(sy["to_eq_inv_from"], sy["from_eq_inv_to"], z3.Or(z3.Not(sy["self_ov"]), z3.Not(sy["req_ov"]), sy["ov_eq_c"]))
    return link, heap, (rf, rt, rov), sy, direct, compl


def _compat_contract(name, docstr):
    class CC(Contract):
        id = "Link_" + name
        fn = "gfapy/line/edge/link/equivalence.py::Equivalence." + name
        props = ("C12", "C14", "C03", "C05")
        doc = docstr

        def cases(self, ctx):
            g = ctx.gfapy
            link, heap, (rf, rt, rov), sy, direct, compl = _compat_setup(ctx)
            allow = z3.Bool("allow_complement")
            models = {}
            if name == "is_compatible":
                models[g.Alignment] = const_model(lambda *a, **k: a[0])          # Alignment(x, valid=True) of an alignment is that alignment
                models[ctx.fn("gfapy/line/edge/link/equivalence.py::Equivalence.is_compatible_direct")] = const_model(lambda s_, a, b, c: direct)
                models[ctx.fn("gfapy/line/edge/link/equivalence.py::Equivalence.is_compatible_complement")] = const_model(lambda s_, a, b, c: compl)
                want = z3.Or(direct, z3.And(allow, compl))
                args = [link, rf, rt, rov, allow]
            else:
                want = direct if name.endswith("direct") else compl
                args = [link, rf, rt, rov]
            def post(k, v, st):
                if k != "return":
                    return z3.BoolVal(False)
                return ctx_truth(v) == want
            symbols = dict(sy); symbols["allow_complement"] = allow
            return [Case("request", args, post, heap=heap, symbols=symbols, models=models,
                         replay=lambda w: {"target": "bounded.replay_helpers:link_compatibility_cases"}, confirm=battery_confirm)]
    CC.__name__ = CC.id
    return register(CC)


def ctx_truth(v):
    if isinstance(v, bool):
        return z3.BoolVal(v)
    if hasattr(v, "pyvc_truth"):
        return v.pyvc_truth(None)
    return v


_compat_contract("is_compatible_direct", "the link goes from the first oriented segment to the second, and the overlaps agree unless one of them is unspecified")
_compat_contract("is_compatible_complement", "the COMPLEMENT of the link goes from the first oriented segment to the second (its to = the inverted from, its from = the inverted to), "
                 "and its overlap is the complement of the requested one unless one of the two is unspecified — an unspecified overlap on either side matches")
_compat_contract("is_compatible", "direct compatibility, or (if allowed) compatibility of the complement")
