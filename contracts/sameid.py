"""C17 / C08 / C09 — SameID._process_not_unique: a second O (or U) line with the identifier of a stored one extends that group.
Obligations: a line of another record type is never merged (handed to the generic handler: NotUniqueError); contradicting tags are
reported BEFORE anything is written; the items of the merged group are those of the stored line followed by those of the new line."""
import z3
from pyvc.contract import Contract, Case, register
from pyvc.dsl import *
from pyvc.values import *


def _case(ctx, cls, prev_cls, label):
    g = ctx.gfapy
    tags_ok = z3.Bool("tags_agree")
    same_type = z3.BoolVal(prev_cls is cls)
    np_, nc = z3.Int("n_previous_items"), z3.Int("n_new_items")
    k = z3.Int("k")
    prev_items = SList(np_, z3.Lambda([k], 1000 + k), lambda t: Ref(t))
    cur_items = SList(nc, z3.Lambda([k], 2000 + k), lambda t: Ref(t))
    s = Obj(cls, "new")
    prev = Obj(prev_cls, "previous")
    gfa = Obj(g.Gfa, "gfa")
    rt_new = "O" if cls is g.line.group.Ordered else "U"
    rt_prev = prev_cls.RECORD_TYPE
    heap = {s.oid: {"_gfa": None, "record_type": rt_new, "items": cur_items}, prev.oid: {"record_type": rt_prev, "gfa": gfa, "items": prev_items}, gfa.oid: {}}
    def ev(st, name):
        return st.with_ghost("events", tuple(st.ghost.get("events", ())) + (name,))
    def m_super(E, st, pos, kw):
        yield ("raise", Exc(g.NotUniqueError), [], ev(st, "generic"))
    def m_check(E, st, pos, kw):
        yield ("raise", Exc(g.NotUniqueError), [z3.Not(tags_ok)], ev(st, "check_failed"))
        yield ("val", None, [tags_ok], ev(st, "check"))
    def m_init(E, st, pos, kw):
        yield ("val", None, [], ev(st, "init"))
    def m_subst(E, st, pos, kw):
        # the new line takes over the fields of the stored one: afterwards its items are the stored items (contract of _import_field_references)
        self_, p_ = pos
        yield ("val", None, [], ev(st.setattr(self_, "items", prev_items), "substitute"))
    def m_get(E, st, pos, kw):
        self_, fn_ = pos
        yield ("val", st.attrs(self_).get(conc(fn_)), [])
    def m_set_existing(E, st, pos, kw):
        self_, fn_, v_ = pos[:3]
        yield ("val", None, [], ev(st.setattr(self_, conc(fn_), v_).with_ghost("set_reference", kw.get("set_reference")), "set_items"))
    def m_import(E, st, pos, kw):
        yield ("val", None, [], ev(st, "import_tags"))
    f = ctx.fn
    SID = "gfapy/line/group/gfa2/same_id.py::SameID."
    models = {f(SID + "_check_tags_of_previous_group_definition"): m_check, f(SID + "_import_tags_of_previous_group_definition"): m_import,
              g.Line._initialize_references: m_init, cls._initialize_references: m_init,
              f("gfapy/line/common/virtual_to_real.py::VirtualToReal._substitute_virtual_line"): m_subst,
              f("gfapy/line/common/field_data.py::FieldData.get"): m_get,
              f("gfapy/line/common/field_data.py::FieldData._set_existing_field"): m_set_existing}
    def post(kd, v, st):
        e = tuple(st.ghost.get("events", ()))
        own = st.attrs(s).get("_gfa")
        items = st.attrs(s).get("items")
        untouched = z3.BoolVal(own is None and items is cur_items)
        if kd == "raise":
            if e == ("generic",):
                return z3.And(z3.BoolVal(v.cls is g.NotUniqueError), z3.Not(same_type), untouched)
            if e == ("check_failed",):
                return z3.And(z3.BoolVal(v.cls is g.NotUniqueError), same_type, z3.Not(tags_ok), untouched)
            return z3.BoolVal(False)
        if e != ("check", "init", "substitute", "set_items", "import_tags") or not isinstance(items, SList):
            return z3.BoolVal(False)
        j = z3.Int("j")
        return z3.And(same_type, tags_ok, z3.BoolVal(isinstance(own, Obj) and own.oid == gfa.oid), z3.BoolVal(st.ghost.get("set_reference") is True),
                      items.n == np_ + nc,
                      z3.ForAll([j], z3.Implies(z3.And(0 <= j, j < np_ + nc), items.el[j] == z3.If(j < np_, 1000 + j, 2000 + (j - np_)))))
    return Case(label, [s, prev], post, pre=[np_ >= 0, nc >= 0], heap=heap, models=models, name_calls={"super()._process_not_unique": m_super},
                symbols=dict(tags_agree=tags_ok, n_previous_items=np_, n_new_items=nc),
                replay=lambda w: {"target": "bounded.replay_helpers:same_id_cases"}, confirm=battery_confirm, expect_paths=1)


@register
class SameIDProcessNotUnique(Contract):
    fn = "gfapy/line/group/gfa2/same_id.py::SameID._process_not_unique"
    props = ("C17", "C08", "C09")
    fragment = "H"
    doc = ("a group line whose identifier is carried by a line of ANOTHER record type is not merged (generic handler: NotUniqueError, nothing written); "
           "contradicting tags are reported before anything is written; otherwise the merged group's items are the stored items followed by "
           "the new items (arrival order, all lengths) and the tags of the stored line are imported afterwards")

    def cases(self, ctx):
        g = ctx.gfapy
        O, U, S2 = g.line.group.Ordered, g.line.group.Unordered, g.line.segment.GFA2
        return [_case(ctx, O, O, "O-onto-O"), _case(ctx, U, U, "U-onto-U"), _case(ctx, O, U, "O-onto-U"), _case(ctx, U, O, "U-onto-O"),
                _case(ctx, O, S2, "O-onto-S"), _case(ctx, U, S2, "U-onto-S")]


def _tags_case(ctx, which):
    g = ctx.gfapy
    n = z3.Int("n_tags_of_stored_line")
    AIB_ = z3.ArraySort(I, B)
    AII_ = z3.ArraySort(I, I)
    has_cur = z3.Const("new_line_defines_tag", AIB_)
    falsy_cur = z3.Const("value_on_new_line_is_false", AIB_)        # 0, empty list: a defined value that is false as a Boolean
    same = z3.Const("same_value", AIB_)
    k, j = z3.Int("k"), z3.Int("j")
    tags = SList(n, z3.Lambda([k], k), lambda t: Ref(t))
    h0 = {"was_set": z3.Const("was_set", AIB_), "dt_declared": z3.K(I, z3.BoolVal(False))}
    s, prev = Obj(g.line.group.Unordered, "new"), Obj(g.line.group.Unordered, "previous")
    class Val:
        """a tag value: may be false as a Boolean; compared through the symbolic relation `same`"""
        def __init__(self, t, who):
            self.t, self.who = t, who
        def pyvc_truth(self, E):
            return z3.Not(falsy_cur[self.t]) if self.who == "cur" else z3.BoolVal(True)
        def pyvc_eq(self, E, other):
            return same[self.t]
    def m_get(E, st, pos, kw):
        self_, tag_ = pos
        if self_ is prev:
            yield ("val", Val(tag_.t, "prv"), [])
        else:
            yield ("val", None, [z3.Not(has_cur[tag_.t])])
            yield ("val", Val(tag_.t, "cur"), [has_cur[tag_.t]])
    def m_ne(E, st, pos, kw):
        a, b = pos
        yield ("val", z3.Not(same[a.t]), [])
    class DT:
        """the datatype of tag t on the stored line"""
        def __init__(self, t):
            self.t = t
    def m_get_dt(E, st, pos, kw):
        self_, tag_ = pos
        if self_ is not prev:
            raise Unsupported("get_datatype of the new line")
        yield ("val", DT(tag_.t), [])
    def m_set_dt(E, st, pos, kw):
        self_, tag_, dt_ = pos
        zh = dict(st.zh)
        zh["dt_declared"] = z3.Store(zh["dt_declared"], tag_.t, z3.And(z3.BoolVal(self_ is s and isinstance(dt_, DT)), dt_.t == tag_.t) if isinstance(dt_, DT) else z3.BoolVal(False))
        yield ("val", None, [], st.with_zh(zh))
    def m_set(E, st, pos, kw):
        self_, tag_, v_ = pos
        zh = dict(st.zh)
        # the value of the stored line, written under the datatype of the stored line (declared before the value is set: a new tag
        # would otherwise take the default datatype of its value, A -> Z, J -> B)
        zh["was_set"] = z3.Store(zh["was_set"], tag_.t, z3.And(z3.BoolVal(self_ is s and isinstance(v_, Val) and v_.who == "prv"), zh["dt_declared"][tag_.t]))
        yield ("val", None, [], st.with_zh(zh))
    models = {ctx.fn("gfapy/line/common/field_data.py::FieldData.get"): m_get, g.Line.tagnames.fget: const_model(lambda self_: tags),
              ctx.fn("gfapy/line/common/field_data.py::FieldData.set"): m_set,
              ctx.fn("gfapy/line/common/field_datatype.py::FieldDatatype.get_datatype"): m_get_dt,
              ctx.fn("gfapy/line/common/field_datatype.py::FieldDatatype.set_datatype"): m_set_dt}
    conflict = lambda upto: z3.Exists([j], z3.And(0 <= j, j < upto, has_cur[j], z3.Not(same[j])))
    fn = "gfapy/line/group/gfa2/same_id.py::SameID." + which
    label = "SameID." + which
    def inv0(i, st):
        c = [i <= n, z3.Not(conflict(i))]
        if which.startswith("_import"):
            c.append(z3.ForAll([j], st.zh["was_set"][j] == z3.Or(h0["was_set"][j], z3.And(0 <= j, j < i, z3.Not(has_cur[j])))))
        else:
            c.append(st.zh["was_set"] == h0["was_set"])
        return z3.And(*c)
    inv = {(label, 0): dict(inv=inv0, modheap=["was_set", "dt_declared"], mod={"tag": lambda nm: Ref(fresh(nm, I)), "prv": lambda nm: Val(fresh(nm, I), "prv"), "cur": lambda nm: Val(fresh(nm, I), "cur")})}
    def post(kd, v, st):
        if kd == "raise":
            return z3.And(z3.BoolVal(v.cls is g.NotUniqueError), conflict(n))
        c = [z3.Not(conflict(n))]
        if which.startswith("_import"):
            c.append(z3.ForAll([j], st.zh["was_set"][j] == z3.Or(h0["was_set"][j], z3.And(0 <= j, j < n, z3.Not(has_cur[j])))))
        else:
            c.append(st.zh["was_set"] == h0["was_set"])
        return z3.And(*c)
    return fn, Case("tags", [s, prev], post, pre=[n >= 0], zh=h0, heap={s.oid: {"name": "grp"}, prev.oid: {}}, models=models, invariants=inv, symbols=dict(n_tags_of_stored_line=n),
                    replay=lambda w: {"target": "bounded.replay_helpers:same_id_cases"}, confirm=battery_confirm)


def _mk_tags_contract(which, docstr):
    class T(Contract):
        id = "SameID" + "".join(p.capitalize() for p in which.strip("_").split("_")[:2])
        fn = "gfapy/line/group/gfa2/same_id.py::SameID." + which
        props = ("C17", "C08", "C03")
        fragment = "L"
        doc = docstr

        def cases(self, ctx):
            return [_tags_case(ctx, which)[1]]
    T.__name__ = T.id
    return register(T)


_mk_tags_contract("_check_tags_of_previous_group_definition",
                  "NotUniqueError iff some tag of the stored line is DEFINED on the new line (whatever its truth value: 0 and [] are values) with a "
                  "different value; nothing is written (loop invariant over the tags)")
_mk_tags_contract("_import_tags_of_previous_group_definition",
                  "every tag of the stored line that the new line does not define is set on it to the stored value under the stored datatype (declared before the value is set), the defined ones are left alone; a "
                  "defined tag with a different value raises NotUniqueError (loop invariant over the tags)")
