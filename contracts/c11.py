"""C11 — segment neighbourhoods follow the specification's edge semantics.  Contracts on the classifiers that decide in
which collection of which segment an L / C / E / G line is filed."""
import z3
from pyvc.contract import Contract, Case, register
from pyvc.dsl import *
from pyvc.values import *
from specs import edges as spec
from . import common

ORI = ["+", "-"]


def _p(w, name):
    return w[name]


# ----------------------------------------------------------------------------------------- _substring_type
def substring_type_table(g, b, e):
    return [(g.ValueError, spec.interval_illformed_value(b, e)), (g.FormatError, spec.interval_illformed_dollar(b, e))]


def m_substring_type(ctx):
    g = ctx.gfapy
    def m(E, st, pos_, kw):
        _self, b, e = pos_
        b, e = common._posarg(b), common._posarg(e)
        for cls, c in substring_type_table(g, b, e):
            yield ("raise", Exc(cls), [c])
        k = fresh("kind", Str)
        flag = fresh("emptyflag", B)
        ok = [z3.Not(c) for _, c in substring_type_table(g, b, e)]
        yield ("val", (k, flag), ok + [spec.interval_kind_ok(b, e, k)])
    return m


@register
class SubstringType(Contract):
    fn = "gfapy/line/edge/gfa2/alignment_type.py::AlignmentType._substring_type"
    props = ("C11", "C04", "C06", "C07")
    doc = ("interval [b,e] -> kind in the relation interval_kind_ok; ValueError iff b > e; FormatError iff `$` on b and e is not that same last "
           "position (no `$` on e, or another value; b != 0). The second result component is read by no caller and pinned by no property: unconstrained.")

    def cases(self, ctx):
        g = ctx.gfapy
        b, e = pos("b"), pos("e")
        def post(k, v, st):
            return raises_iff(k, v, substring_type_table(g, b, e),
                              lambda r: spec.interval_kind_ok(b, e, S(r[0])) if isinstance(r, tuple) and len(r) == 2 else z3.BoolVal(False))
        return [Case("pos", [Obj(None, "self"), b, e], post, pre=[b.v >= 0, e.v >= 0], symbols={"b": b, "e": e},
                     models=common.lastpos_models(ctx), minimize=[b.v, e.v],
                     replay=lambda w: {"target": "gfapy.line.edge.gfa2.alignment_type:AlignmentType._substring_type",
                                       "self": {"ns": {}}, "args": [w["b"], w["e"]]}, expect_paths=8)]


# ----------------------------------------------------------------------------------------- E: class and refkey
def _e_self(ctx, o1, o2, extra=None):
    """shape of an E line as far as the classifiers read it: self.sid1.orient, self.sid2.orient"""
    g = ctx.gfapy
    s = Obj(g.line.edge.GFA2, "E")
    s1, s2 = Obj(None, "sid1"), Obj(None, "sid2")
    heap = {s.oid: dict({"sid1": s1, "sid2": s2}, **(extra or {})), s1.oid: {"orient": o1}, s2.oid: {"orient": o2}}
    return s, heap


@register
class AlignmentTypeForSubstringTypes(Contract):
    fn = "gfapy/line/edge/gfa2/alignment_type.py::AlignmentType._alignment_type_for_substring_types"
    props = ("C11", "C06")
    doc = "C iff a side is whole; else L iff the two interval kinds form a dovetail for the orientations; else I"

    def cases(self, ctx):
        o1, p1 = enum("o1", ORI); o2, p2 = enum("o2", ORI)
        st1, q1 = enum("st1", spec.KINDS); st2, q2 = enum("st2", spec.KINDS)
        s, heap = _e_self(ctx, o1, o2)
        def post(k, v, st):
            return z3.And(k == "return", spec.edge_class_ok(o1, o2, st1, st2, S(v))) if k == "return" else z3.BoolVal(False)
        return [Case("enum", [s, st1, st2], post, pre=[p1, p2, q1, q2], heap=heap,
                     symbols={"o1": o1, "o2": o2, "st1": st1, "st2": st2},
                     replay=lambda w: {"target": "gfapy.line.edge.gfa2.alignment_type:AlignmentType._alignment_type_for_substring_types",
                                       "self": {"ns": {"sid1": {"ns": {"orient": w["o1"]}}, "sid2": {"ns": {"orient": w["o2"]}}}},
                                       "args": [w["st1"], w["st2"]]}, expect_paths=5)]


@register
class ERefkeyForS(Contract):
    fn = "gfapy/line/edge/gfa2/references.py::References._refkey_for_s"
    props = ("C11", "C16", "C02")
    doc = "collection of segment snum in which an E line is filed = e_refkey_ok (relation); both-whole: the two sides differ"

    def cases(self, ctx):
        o1, p1 = enum("o1", ORI); o2, p2 = enum("o2", ORI)
        st1, q1 = enum("st1", spec.KINDS); st2, q2 = enum("st2", spec.KINDS)
        cases = []
        for snum in (1, 2):
            s, heap = _e_self(ctx, o1, o2)
            def post(k, v, st, snum=snum):
                return spec.e_refkey_ok(snum, o1, o2, st1, st2, S(v)) if k == "return" else z3.BoolVal(False)
            cases.append(Case("snum%d" % snum, [s, snum, st1, st2], post, pre=[p1, p2, q1, q2], heap=heap,
                              symbols={"o1": o1, "o2": o2, "st1": st1, "st2": st2},
                              replay=lambda w, snum=snum: {"target": "gfapy.line.edge.gfa2.references:References._refkey_for_s",
                                                           "self": {"ns": {"sid1": {"ns": {"orient": w["o1"]}}, "sid2": {"ns": {"orient": w["o2"]}}}},
                                                           "args": [snum, w["st1"], w["st2"]]}, expect_paths=5))
        return cases


@register
class ERefkeyBothWholeDiffer(Contract):
    id = "ERefkeyBothWholeDiffer"
    fn = "gfapy/line/edge/gfa2/references.py::References._refkey_for_s"
    props = ("C11", "C16", "C02")
    doc = "lemma over the paths of _refkey_for_s: when both intervals are whole the two segments get different collections"

    def cases(self, ctx):
        o1, p1 = enum("o1", ORI); o2, p2 = enum("o2", ORI)
        snum = z3.Int("snum")
        w = sv("whole")
        s, heap = _e_self(ctx, o1, o2)
        # executed with symbolic snum: result as a function of snum; the lemma compares snum=1 with snum=2
        def extra(E, paths):
            obl = []
            for i, (k1, v1, s1) in enumerate(paths):
                for j, (k2, v2, s2) in enumerate(paths):
                    if k1 != "return" or k2 != "return":
                        continue
                    # rename snum in the second path
                    snum2 = z3.Int("snum_b")
                    pc2 = [z3.substitute(c, (snum, snum2)) for c in s2.pc]
                    obl.append(("lemma:paths%d,%d" % (i, j), list(s1.pc) + pc2 + [snum == 1, snum2 == 2], S(v1) != S(v2)))
            return obl
        return [Case("symbolic-snum", [s, snum, w, w], lambda k, v, st: z3.BoolVal(k == "return"),
                     pre=[p1, p2, z3.Or(snum == 1, snum == 2)], heap=heap, symbols={"o1": o1, "o2": o2, "snum": snum}, extra=extra)]


@register
class GapRefkeyForS(Contract):
    fn = "gfapy/line/gap/references.py::References._refkey_for_s"
    props = ("C11", "C16", "C02")
    doc = "a gap is filed on the end of each side given by the two orientations (sid1 left through R when +, sid2 entered through L when +)"

    def cases(self, ctx):
        g = ctx.gfapy
        o1, p1 = enum("o1", ORI); o2, p2 = enum("o2", ORI)
        cases = []
        for snum in (1, 2):
            s = Obj(g.line.Gap, "G"); s1, s2 = Obj(None), Obj(None)
            heap = {s.oid: {"sid1": s1, "sid2": s2}, s1.oid: {"orient": o1}, s2.oid: {"orient": o2}}
            cases.append(Case("snum%d" % snum, [s, snum], lambda k, v, st, snum=snum: result_is(k, v, spec.gap_refkey(snum, o1, o2)),
                              pre=[p1, p2], heap=heap, symbols={"o1": o1, "o2": o2},
                              replay=lambda w, snum=snum: {"target": "gfapy.line.gap.references:References._refkey_for_s",
                                                           "self": {"ns": {"sid1": {"ns": {"orient": w["o1"]}}, "sid2": {"ns": {"orient": w["o2"]}}}},
                                                           "args": [snum]}, expect_paths=4))
        return cases


# ----------------------------------------------------------------------------------------- L lines: from_end / to_end
def _fromto_case(ctx, which):
    g = ctx.gfapy
    o, p = enum("orient", ORI)
    seg = z3.Int("seg")            # identity of the segment (opaque)
    s = Obj(g.line.edge.Link, "L")
    heap = {s.oid: {which + "_segment": seg, which + "_orient": o}}
    want = spec.l_from_end_type(o) if which == "from" else spec.l_to_end_type(o)
    def post(k, v, st):
        if k != "return":
            return z3.BoolVal(False)
        if st is None:             # replay: ("segend", seg, et)
            return z3.And(v[0] == "segend", S(v[2]) == want) if isinstance(v, tuple) else z3.BoolVal(False)
        sg, et = common.segend_fields(st, v)
        return z3.And(S(sg) == seg, S(et) == want)
    return Case(which, [s], post, pre=[p], heap=heap, symbols={"orient": o},
                models={g.SegmentEnd: common.m_segend_ctor},
                replay=lambda w: {"target": "gfapy.line.edge.common.from_to:FromTo.%s_end" % which,
                                  "self": {"ns": {which + "_segment": "s1", which + "_orient": w["orient"]}}}, expect_paths=2)


@register
class FromEnd(Contract):
    fn = "gfapy/line/edge/common/from_to.py::FromTo.from_end"
    props = ("C11", "C12", "C14", "C16")
    doc = "from_end = (from_segment, R if from_orient is + else L)"

    def cases(self, ctx):
        return [_fromto_case(ctx, "from")]


@register
class ToEnd(Contract):
    fn = "gfapy/line/edge/common/from_to.py::FromTo.to_end"
    props = ("C11", "C12", "C14", "C16")
    doc = "to_end = (to_segment, L if to_orient is + else R)"

    def cases(self, ctx):
        return [_fromto_case(ctx, "to")]


# ----------------------------------------------------------------------------------------- E lines seen as L/C: roles, from/to
def role_spec(b, e, o):
    """role of one side for the GFA1 reading: contained (whole), or which end *of the oriented segment* overlaps:
    the oriented segment's suffix is the forward suffix when + and the forward prefix when -"""
    whole = z3.And(b.v == 0, e.last)
    fpfx = z3.And(b.v == 0, z3.Not(e.last))
    fsfx = z3.And(b.v != 0, e.last)
    return z3.If(whole, sv("contained"),
           z3.If(fpfx, ite_str(o == sv("+"), "pfx", "sfx"),
           z3.If(fsfx, ite_str(o == sv("+"), "sfx", "pfx"), sv("other"))))


@register
class SegmentRole(Contract):
    fn = "gfapy/line/edge/gfa2/to_gfa1.py::ToGFA1._segment_role"
    props = ("C06", "C11")
    doc = "role of a side in the GFA1 reading of an E line: contained / pfx / sfx of the ORIENTED segment / other"

    def cases(self, ctx):
        b, e = pos("b"), pos("e"); o, p = enum("o", ORI)
        return [Case("pos", [b, e, o], lambda k, v, st: result_is(k, v, role_spec(b, e, o)), pre=[p, b.v >= 0, e.v >= b.v],
                     symbols={"b": b, "e": e, "o": o}, models=common.lastpos_models(ctx), minimize=[b.v, e.v],
                     replay=lambda w: {"target": "gfapy.line.edge.gfa2.to_gfa1:ToGFA1._segment_role", "args": [w["b"], w["e"], w["o"]]},
                     expect_paths=6)]


def m_segment_role(E, st, pos_, kw):
    b, e, o = pos_[-3:]
    yield ("val", role_spec(common._posarg(b), common._posarg(e), S(o)), [])


def sid1_from_spec(r1, r2):
    """(is_from1, defined): sid1 is the GFA1 'from' segment iff sid2 is contained, or sid1 overlaps with its (oriented) suffix
    and sid2 with its (oriented) prefix; undefined for any other combination"""
    t = z3.Or(r2 == sv("contained"), z3.And(r1 != sv("contained"), r1 == sv("sfx"), r2 == sv("pfx")))
    f = z3.And(r2 != sv("contained"), z3.Or(r1 == sv("contained"), z3.And(r2 == sv("sfx"), r1 == sv("pfx"))))
    return t, f


@register
class IsSid1From(Contract):
    fn = "gfapy/line/edge/gfa2/to_gfa1.py::ToGFA1._is_sid1_from"
    props = ("C06", "C11")
    doc = "sid1 is 'from' iff sid2 contained or (sid1 sfx, sid2 pfx in oriented reading); ValueError iff neither reading exists"

    def cases(self, ctx):
        g = ctx.gfapy
        b1, e1, b2, e2 = pos("b1"), pos("e1"), pos("b2"), pos("e2")
        o1, p1 = enum("o1", ORI); o2, p2 = enum("o2", ORI)
        s, heap = _e_self(ctx, o1, o2, dict(beg1=b1, end1=e1, beg2=b2, end2=e2))
        r1, r2 = role_spec(b1, e1, o1), role_spec(b2, e2, o2)
        t, f = sid1_from_spec(r1, r2)
        def post(k, v, st):
            return raises_iff(k, v, [(g.ValueError, z3.And(z3.Not(t), z3.Not(f)))], lambda r: S(r) == t)
        pre = [p1, p2] + [x.v >= 0 for x in (b1, e1, b2, e2)] + [b1.v <= e1.v, b2.v <= e2.v]
        sym = {"b1": b1, "e1": e1, "b2": b2, "e2": e2, "o1": o1, "o2": o2}
        def replay(w):
            return {"target": "gfapy.line.edge.gfa2.to_gfa1:ToGFA1._is_sid1_from",
                    "self": {"line": "E\t*\tA%s\tB%s\t%s\t%s\t%s\t%s\t*" % (w["o1"], w["o2"], _ps(w["b1"]), _ps(w["e1"]), _ps(w["b2"]), _ps(w["e2"])), "vlevel": 0}}
        return [Case("E", [s], post, pre=pre, heap=heap, symbols=sym,
                     models={g.line.edge.GFA2._segment_role: m_segment_role, ctx.fn("gfapy/line/edge/gfa2/to_gfa1.py::ToGFA1._segment_role"): m_segment_role},
                     minimize=[x.v for x in (b1, e1, b2, e2)], replay=replay, expect_paths=5)]


def _ps(p):
    return "%d%s" % (p["pos"], "$" if p["last"] else "")


@register
class EDovetailEndsConsistent(Contract):
    id = "EDovetailEndsConsistent"
    fn = "gfapy/line/edge/gfa2/to_gfa1.py::ToGFA1._is_sid1_from"
    props = ("C11",)
    doc = ("lemma: for a dovetail E line the end type that from_end/to_end (via _is_sid1_from + FromTo contracts) give for a segment "
           "equals the L/R suffix of the collection under which _refkey_for_s files the edge on that segment")

    def cases(self, ctx):
        g = ctx.gfapy
        b1, e1, b2, e2 = pos("b1"), pos("e1"), pos("b2"), pos("e2")
        o1, p1 = enum("o1", ORI); o2, p2 = enum("o2", ORI)
        s, heap = _e_self(ctx, o1, o2, dict(beg1=b1, end1=e1, beg2=b2, end2=e2))
        k1, k2 = z3.String("k1"), z3.String("k2")       # interval kinds per the (proved) contract of _substring_type
        key1, key2 = z3.String("key1"), z3.String("key2")
        hyp = [spec.interval_kind_ok(b1, e1, k1), spec.interval_kind_ok(b2, e2, k2), spec.is_dovetail(o1, o2, k1, k2),
               spec.e_refkey_ok(1, o1, o2, k1, k2, key1), spec.e_refkey_ok(2, o1, o2, k1, k2, key2),
               # the degenerate empty-segment interval is excluded from the lemma (the relation leaves it open)
               z3.Not(z3.And(b1.v == 0, e1.v == 0, e1.last)), z3.Not(z3.And(b2.v == 0, e2.v == 0, e2.last))]
        def post(k, v, st):
            if k == "raise":
                return z3.Not(z3.And(*hyp))        # a dovetail always has a from/to reading
            is1 = S(v)
            # FromTo contracts: from_end type = R if from_orient + else L ; to_end type = L if to_orient + else R
            et1 = z3.If(is1, spec.l_from_end_type(o1), spec.l_to_end_type(o1))
            et2 = z3.If(is1, spec.l_to_end_type(o2), spec.l_from_end_type(o2))
            good = z3.And(key1 == z3.Concat(sv("dovetails_"), et1), key2 == z3.Concat(sv("dovetails_"), et2))
            return z3.Implies(z3.And(*hyp), good)
        pre = [p1, p2] + [x.v >= 0 for x in (b1, e1, b2, e2)] + [b1.v <= e1.v, b2.v <= e2.v]
        return [Case("E", [s], post, pre=pre, heap=heap, symbols={"b1": b1, "e1": e1, "b2": b2, "e2": e2, "o1": o1, "o2": o2},
                     models={ctx.fn("gfapy/line/edge/gfa2/to_gfa1.py::ToGFA1._segment_role"): m_segment_role},
                     minimize=[x.v for x in (b1, e1, b2, e2)])]
