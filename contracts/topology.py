"""C16 — the topology counters of a Gfa.  Each counter is a loop over the segments that adds up the sizes of some of their edge
collections; the contract pins the result as that sum (a recursive spec sum, loop invariant: n = partial sum), halved for the
edge counters.  That the sum over all segments of the sizes of the dovetail (containment, internal) collections is TWICE the number
of dovetail (containment, internal) records - every record is filed once under each of its two segment ends, a record of a
segment with itself twice - is the double-counting lemma `collections_sum_twice` (lemmas/lean/Lemmas.lean), under the
reference-graph invariant of C02."""
import z3
from pyvc.contract import Contract, Case, register
from pyvc.dsl import *
from pyvc.values import *

AII = z3.ArraySort(I, I)


class Seg:
    """a segment: each of its edge collections is a list of a symbolic length"""
    def __init__(self, t, sizes):
        self.t, self.sizes = t, sizes

    def pyvc_attr(self, E, attr, st):
        if attr not in self.sizes:
            raise Unsupported("segment.%s" % attr)
        k = z3.Int("k")
        yield ("val", SList(self.sizes[attr][self.t], z3.Lambda([k], k), lambda x: Ref(x)), st)


def _counter(name, collections, halved, dead_ends=False):
    class Counter(Contract):
        id = "Topology_" + name
        fn = "gfapy/graph_operations/topology.py::Topology." + name
        props = ("C16",)
        fragment = "L"
        doc = (("%s = the number of (segment, collection) pairs among %s whose collection is empty" % (name, "/".join(collections))) if dead_ends else
               ("%s = (sum over the segments of the sizes of %s) div 2; with the double-counting lemma (Lean: collections_sum_twice) and the "
                "reference-graph invariant this is the number of such records" % (name, " + ".join(collections))))

        def cases(self, ctx):
            g = ctx.gfapy
            n = z3.Int("n_segments")
            sizes = {c: z3.Const("size_of_" + c, AII) for c in collections}
            k, j = z3.Int("k"), z3.Int("j")
            segs = SList(n, z3.Lambda([k], k), lambda t: Seg(t, sizes))
            gfa = Obj(g.Gfa, "gfa")
            ssum = z3.RecFunction("sum_" + name, I, I)
            kk = z3.Int("kk")
            if dead_ends:
                term = lambda i: sum(z3.If(sizes[c][i] == 0, 1, 0) for c in collections)
            else:
                term = lambda i: sum(sizes[c][i] for c in collections)
            z3.RecAddDefinition(ssum, [kk], z3.If(kk <= 0, 0, ssum(kk - 1) + term(kk - 1)))
            inv = {("Topology." + name, 0): dict(inv=lambda i, st: z3.And(i <= n, S(st.env["n"]) == ssum(i)), mod={"n": lambda nm: fresh(nm, I), "s": lambda nm: Seg(fresh(nm, I), sizes)})}
            def post(kd, v, st):
                if kd != "return":
                    return z3.BoolVal(False)
                return S(v) == (ssum(n) / 2 if halved else ssum(n))
            pre = [n >= 0] + [z3.ForAll([j], sizes[c][j] >= 0) for c in collections]
            return [Case("segments", [gfa], post, pre=pre, heap={gfa.oid: {}}, models={g.Gfa.segments.fget: const_model(lambda s_: segs)}, invariants=inv,
                         symbols=dict(n_segments=n), minimize=[n])]
    Counter.__name__ = Counter.id
    return register(Counter)


_counter("n_dovetails", ["dovetails_L", "dovetails_R"], True)
_counter("n_containments", ["edges_to_contained", "edges_to_containers"], True)
_counter("n_internals", ["internals"], True)
_counter("n_dead_ends", ["dovetails_L", "dovetails_R"], False, dead_ends=True)
