"""C13 / C18 — the file entry point Gfa.from_file: the caller's vlevel, version and dialect reach the constructor unchanged (so a file
is checked against the version given explicitly exactly as a string is), the file is read once into that object, nothing else is set."""
import z3
from pyvc.contract import Contract, Case, register
from pyvc.dsl import *
from pyvc.values import *


@register
class GfaFromFile(Contract):
    fn = "gfapy/gfa.py::Gfa.from_file"
    props = ("C13", "C18")
    fragment = "H"
    doc = ("from_file(filename, vlevel, version, dialect) constructs exactly one Gfa with vlevel=vlevel, version=version, dialect=dialect, reads "
           "the file once into it, writes no attribute of it and returns it; errors of the constructor / reader propagate unchanged")

    def cases(self, ctx):
        g = ctx.gfapy
        vl = z3.Int("vlevel")
        ver, dia, fname = z3.String("version"), z3.String("dialect"), z3.String("filename")
        vnone = z3.Bool("version_is_None")
        version = Opt(vnone, ver)
        obj = Obj(g.Gfa, "new_gfa")
        ok_ctor, ok_read = z3.Bool("constructor_accepts"), z3.Bool("reader_accepts")
        def m_ctor(E, st, pos, kw):
            if pos or st.ghost.get("constructed"):
                raise Unsupported("constructor called positionally or twice")
            same = z3.And(*[c for c in [
                S(kw["vlevel"]) == vl if "vlevel" in kw and E.is_int(kw["vlevel"]) else z3.BoolVal(False),
                (kw["version"].isnone == vnone) if isinstance(kw.get("version"), Opt) else z3.BoolVal(False),
                z3.Or(vnone, S(kw["version"].val) == ver) if isinstance(kw.get("version"), Opt) else z3.BoolVal(False),
                S(kw["dialect"]) == dia if "dialect" in kw and E.is_text(kw["dialect"]) else z3.BoolVal(False)]])
            st2 = st.with_ghost("constructed", True).with_ghost("ctor_args_ok", same)
            yield ("raise", Exc(g.VersionError), [z3.Not(ok_ctor)], st2)
            yield ("val", obj, [ok_ctor], st2)
        def m_read(E, st, pos, kw):
            (self_, fn_) = pos
            st2 = st.with_ghost("reads", st.ghost.get("reads", 0) + 1).with_ghost("read_ok", z3.And(z3.BoolVal(isinstance(self_, Obj) and self_.oid == obj.oid), S(fn_) == fname))
            yield ("raise", Exc(g.FormatError), [z3.Not(ok_read)], st2)
            yield ("val", None, [ok_read], st2)
        models = {g.Gfa: m_ctor, ctx.fn("gfapy/gfa.py::Gfa.read_file"): m_read}
        def post(k, v, st):
            gh = st.ghost
            base = z3.And(z3.BoolVal(bool(gh.get("constructed"))), gh.get("ctor_args_ok", z3.BoolVal(False)), z3.BoolVal(not st.attrs(obj)))
            if k == "raise":
                return z3.And(base, z3.BoolVal(issubclass(v.cls, g.Error)), z3.Or(z3.Not(ok_ctor), z3.Not(ok_read)))
            return z3.And(base, z3.BoolVal(isinstance(v, Obj) and v.oid == obj.oid), z3.BoolVal(gh.get("reads", 0) == 1), gh.get("read_ok", z3.BoolVal(False)), ok_ctor, ok_read)
        return [Case("args", [g.Gfa, fname, vl, version, dia], post, heap={obj.oid: {}}, models=models,
                     symbols=dict(vlevel=vl, version=ver, version_is_None=vnone, dialect=dia),
                     replay=lambda w: {"target": "bounded.replay_helpers:from_file_passes_arguments"},
                     confirm=battery_confirm)]
