"""C19 — Cloning.clone: the per-value copy table.  Every field value of the line is an object whose class is symbolic (`kind`); the
clone's value for that field must be a NEW object unless the value is immutable.  The kinds are the classes the field decoders of
gfapy return (assumption, listed in the evidence): reference fields (written as text), J values, OrientedLine, FieldArray,
list / str (CIGAR, Trace, NumericArray, ByteArray, identifier lists), LastPos, and immutable scalars / placeholders."""
import z3, json, copy
from pyvc.contract import Contract, Case, register
from pyvc.dsl import *
from pyvc.values import *

AII = z3.ArraySort(I, I)
ASI = z3.ArraySort(Str, I)
ASB = z3.ArraySort(Str, B)


class DataItems:
    """self._data of the line: items() yields the symbolic entries"""
    def __init__(self, items):
        self.items_list = items

    def pyvc_attr(self, E, attr, st):
        if attr == "items":
            yield ("val", _Call(lambda E, pos, kw, st: iter([("val", self.items_list, st)])), st)
        else:
            raise Unsupported("_data.%s" % attr)


class _Call:
    def __init__(self, f):
        self.f = f

    def pyvc_call(self, E, pos, kw, st):
        yield from self.f(E, pos, kw, st)


class CopyDict:
    """data_cpy: stores are recorded per key on the z3 heap (copy_of, copied)"""
    def pyvc_setitem(self, E, i, v, st):
        zh = dict(st.zh)
        key = S(i)
        vid = v.t if isinstance(v, Ref) else (z3.IntVal(-5) if isinstance(v, str) or E.is_text(v) else E.unwrap_ref(v))
        zh["copy_of"] = z3.Store(zh["copy_of"], key, vid)
        zh["copied"] = z3.Store(zh["copied"], key, z3.BoolVal(True))
        yield ("fall", None, st.with_zh(zh))


KINDS = {"J": 1, "OL": 2, "FA": 3, "LIST": 4, "STR": 5, "LASTPOS": 6, "IMM": 7}


@register
class CloneCopiesEveryMutableValue(Contract):
    fn = "gfapy/line/common/cloning.py::Cloning.clone"
    props = ("C19", "C20")
    fragment = "L"
    doc = ("for every field of the line, whatever its number: a reference field is copied as its written text; every other value that is not "
           "immutable (JSON value, OrientedLine, FieldArray, list-like, LastPos) is copied into a NEW object - never handed over; immutable "
           "values may be shared; the clone gets its own copy of the datatype table; nothing of the original is written (loop invariant over "
           "the fields)")

    def cases(self, ctx):
        g = ctx.gfapy
        n = z3.Int("n_fields")
        key_of = z3.Const("field_name", z3.ArraySort(I, Str))
        val_of = z3.Const("field_value", AII)
        isref = z3.Const("is_reference_field", ASB)
        isj = z3.Const("datatype_is_J", ASB)
        h0 = {"kind": z3.Const("kind", AII), "copy_of": z3.Const("copy_of", ASI), "copied": z3.Const("copied", ASB), "next_obj": z3.Int("next_obj"),
              "line": z3.Const("ol_line", AII), "orient": z3.Const("ol_orient", z3.ArraySort(I, Str)), "datatype": z3.Const("fa_datatype", AII), "value": z3.Const("lastpos_value", AII)}
        base = h0["next_obj"]
        k, j, j2 = z3.Int("k"), z3.Int("j"), z3.Int("j2")
        items = SList(n, z3.Lambda([k], k), lambda t: (key_of[t], Ref(val_of[t])))
        s = Obj(g.Line, "line")
        dt_table = Obj(None, "datatype_table")
        dt_copy = Obj(None, "copy_of_datatype_table")
        heap = {s.oid: {"_data": DataItems(items), "_datatype": dt_table, "vlevel": z3.Int("vlevel"), "virtual": z3.Bool("virtual"), "version": "gfa2", "_dialect": "rgfa"},
                dt_table.oid: {}, dt_copy.oid: {}}
        cpy = Obj(g.Line, "clone")
        def fresh_obj(st):
            zh = dict(st.zh)
            t = zh["next_obj"]
            zh["next_obj"] = t + 1
            return Ref(t), st.with_zh(zh)
        def m_new(E, st, pos, kw):
            r, st2 = fresh_obj(st)
            yield ("val", r, [], st2)
        def m_field_to_s(E, st, pos, kw):
            yield ("val", "text", [])
        def m_field_datatype(E, st, pos, kw):
            self_, k_ = pos
            yield ("val", ite_str(isj[S(k_)], "J", "x"), [])
        def m_ctor(E, st, pos, kw):
            ok = bool(pos) and isinstance(pos[0], CopyDict)
            same = (kw.get("version") == "gfa2" and kw.get("dialect") == "rgfa")          # the clone is a line of the same version and dialect
            yield ("val", cpy, [], st.with_ghost("ctor_got_copy", ok).with_ghost("ctor_kw", sorted(kw)).with_ghost("ctor_same_kind", same))
        def m_dtcopy(E, st, pos, kw):
            yield ("val", dt_copy, [])
        class RefFields:
            def pyvc_contains(self, E, x):
                return isref[S(x)]
        class LineCls:
            REFERENCE_FIELDS = RefFields()
            def pyvc_call(self, E, pos, kw, st):
                for out in m_ctor(E, st, pos, kw):
                    yield (out[0], out[1], out[3] if len(out) > 3 else st)
            def pyvc_attr(self, E, attr, st):
                if attr == "REFERENCE_FIELDS":
                    yield ("val", self.REFERENCE_FIELDS, st)
                else:
                    raise Unsupported("class attribute %s" % attr)
        heap[s.oid]["__class__"] = LineCls()
        class DtTable:
            def pyvc_attr(self, E, attr, st):
                if attr == "copy":
                    yield ("val", _Call(lambda E, pos, kw, st: iter([("val", dt_copy, st)])), st)
                else:
                    raise Unsupported("_datatype.%s" % attr)
        heap[s.oid]["_datatype"] = DtTable()
        models = {ctx.fn("gfapy/line/common/writer.py::Writer.field_to_s"): m_field_to_s,
                  ctx.fn("gfapy/line/common/field_datatype.py::FieldDatatype._field_datatype"): m_field_datatype,
                  json.dumps: const_model(lambda v: ("json-text", v)), json.loads: m_new,
                  g.OrientedLine: m_new, g.FieldArray: m_new, copy.deepcopy: m_new, g.LastPos: m_new,
                  list: const_model(lambda v: v)}
        def entry_ok(zh, t):
            key, v = key_of[t], val_of[t]
            kd = h0["kind"][v]
            c = zh["copy_of"][key]
            fresh_ = z3.And(c >= base, c < zh["next_obj"])
            return z3.And(zh["copied"][key],
                          z3.If(isref[key], c == -5,
                                z3.If(z3.Or(isj[key], kd != KINDS["IMM"]), fresh_, z3.Or(fresh_, c == v))))
        def inv0(i, st):
            zh = st.zh
            return z3.And(i <= n, zh["next_obj"] >= base, zh["kind"] == h0["kind"], zh["line"] == h0["line"], zh["orient"] == h0["orient"],
                          z3.ForAll([j], z3.Implies(z3.And(0 <= j, j < i), entry_ok(zh, j))))
        inv = {("Cloning.clone", 0): dict(inv=inv0, modheap=["copy_of", "copied", "next_obj"],
                                           mod={"k": lambda nm: fresh(nm, Str), "v": lambda nm: Ref(fresh(nm, I))})}
        def post(kd, v, st):
            if kd == "raise":
                return z3.BoolVal(False)
            zh = st.zh
            own_dt = st.attrs(cpy).get("_datatype")
            return z3.And(z3.BoolVal(isinstance(v, Obj) and v.oid == cpy.oid), z3.BoolVal(bool(st.ghost.get("ctor_got_copy"))), z3.BoolVal(bool(st.ghost.get("ctor_same_kind"))),
                          z3.BoolVal(isinstance(own_dt, Obj) and own_dt.oid == dt_copy.oid),
                          z3.BoolVal("_gfa" not in st.attrs(cpy) and "_refs" not in st.attrs(cpy)),
                          z3.ForAll([j], z3.Implies(z3.And(0 <= j, j < n), entry_ok(zh, j))))
        pre = [n >= 0, base > 0, z3.ForAll([j], z3.Implies(z3.And(0 <= j, j < n), z3.And(val_of[j] >= 0, val_of[j] < base))),
               z3.ForAll([j, j2], z3.Implies(z3.And(0 <= j, j < j2, j2 < n), key_of[j] != key_of[j2])),
               z3.ForAll([j], z3.And(h0["kind"][j] >= 1, h0["kind"][j] <= 7)),
               # a JSON object (dict) is the value of a J field only (the decoders of the other datatypes never return one)
               z3.ForAll([j], z3.Implies(z3.And(0 <= j, j < n, h0["kind"][val_of[j]] == KINDS["J"]), isj[key_of[j]]))]
        kinds = {KINDS["OL"]: g.OrientedLine, KINDS["FA"]: g.FieldArray, KINDS["LIST"]: list, KINDS["STR"]: str, KINDS["LASTPOS"]: g.LastPos,
                 KINDS["IMM"]: int, KINDS["J"]: dict}
        return [Case("fields", [s], post, pre=pre, zh=h0, heap=heap, invariants=inv, models=models,
                     options=dict(kinds=kinds, ref_fields=(), empty_dict=CopyDict), symbols=dict(n_fields=n),
                     replay=lambda w: {"target": "bounded.replay_helpers:clone_value_cases"}, confirm=battery_confirm)]
