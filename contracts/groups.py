"""C17 — resolution of ordered groups, the step that is within reach: Ordered._find_edge_from_path_to_segment supplies the edge that an
O line leaves implicit between two adjacent oriented segments."""
import z3
from pyvc.contract import Contract, Case, register
from pyvc.dsl import *
from pyvc.values import *

AII = z3.ArraySort(I, I)
AIB = z3.ArraySort(I, B)


@register
class FindEdgeFromPathToSegment(Contract):
    fn = "gfapy/line/group/ordered/captured_path.py::CapturedPath._find_edge_from_path_to_segment"
    props = ("C17", "C06")
    fragment = "L"
    doc = ("between the last element x of the walk and the next oriented segment y: the edges of y are searched for those that join x and y "
           "(as written: oriented +; with both ends inverted and exchanged: oriented -); NotFoundError iff no edge fits, NotUniqueError iff two "
           "DIFFERENT edges fit (an edge of a segment with itself is listed twice and counts once), otherwise the one fitting edge is returned with "
           "its orientation (loop invariant over the list of edges, all list lengths)")

    def cases(self, ctx):
        g = ctx.gfapy
        n = z3.Int("n_edges_of_segment")
        el = z3.Const("edge_at", AII)
        fwd, bwd = z3.Const("fits_as_written", AIB), z3.Const("fits_inverted", AIB)
        j, j2, k, k2 = z3.Int("j"), z3.Int("j2"), z3.Int("k"), z3.Int("k2")
        base = z3.Int("first_new_object")
        EC = g.line.edge.GFA2
        class EdgeSym(Ref):
            """an edge of the segment: identity = its id; sid1 / sid2 are read through the symbolic relations"""
            def __init__(self, t):
                Ref.__init__(self, t, None)
            def pyvc_attr(self, E, attr, st):
                if attr in ("sid1", "sid2"):
                    yield ("val", Sid(self.t, attr), st)
                else:
                    raise Unsupported("edge.%s" % attr)
        edges = SList(n, el, lambda t: EdgeSym(t))
        h0 = {"L_n": z3.Const("L_n", AII), "L_e": z3.Const("L_e", z3.ArraySort(I, AII)), "next_list": z3.Int("next_list"), "next_obj": base,
              "line": z3.K(I, z3.IntVal(-99)), "plus": z3.K(I, z3.BoolVal(False))}
        rid = h0["next_list"]
        fits = lambda e: z3.Or(fwd[e], bwd[e])
        class Side:
            """an oriented segment (x, y, their inversions): comparisons with the two sides of an edge are the symbolic relations"""
            def __init__(self, name):
                self.name = name
        X, Y, XI, YI = Side("x"), Side("y"), Side("inv(x)"), Side("inv(y)")
        class Sid:
            def __init__(self, t, which):
                self.t, self.which = t, which
            def pyvc_eq(self, E, other):
                # (sid1 == y and sid2 == x) or (sid1 == x and sid2 == y)  <=> fits as written; the same with inv(x), inv(y) <=> fits inverted.
                # the four conjunctions are abstracted pairwise: the first comparison of each conjunction carries the relation, the second is true
                key = (self.which, other.name)
                return {("sid1", "y"): z3.Const("a1", AIB)[self.t], ("sid2", "x"): z3.Const("a2", AIB)[self.t],
                        ("sid1", "x"): z3.Const("b1", AIB)[self.t], ("sid2", "y"): z3.Const("b2", AIB)[self.t],
                        ("sid1", "inv(y)"): z3.Const("c1", AIB)[self.t], ("sid2", "inv(x)"): z3.Const("c2", AIB)[self.t],
                        ("sid1", "inv(x)"): z3.Const("d1", AIB)[self.t], ("sid2", "inv(y)"): z3.Const("d2", AIB)[self.t]}[key]
        A = {nm: z3.Const(nm, AIB) for nm in ("a1", "a2", "b1", "b2", "c1", "c2", "d1", "d2")}
        e_ = z3.Int("e")
        rel = z3.ForAll([e_], z3.And(fwd[e_] == z3.Or(z3.And(A["a1"][e_], A["a2"][e_]), z3.And(A["b1"][e_], A["b2"][e_])),
                                     bwd[e_] == z3.And(z3.Not(fwd[e_]), z3.Or(z3.And(A["c1"][e_], A["c2"][e_]), z3.And(A["d1"][e_], A["d2"][e_])))))
        class YObj:
            def pyvc_attr(self, E, attr, st):
                if attr == "line":
                    yield ("val", YLine(), st)
                elif attr == "inverted":
                    yield ("val", _F(lambda: YI), st)
                else:
                    raise Unsupported("oriented segment.%s" % attr)
            name = "y"
        class XObj(YObj):
            name = "x"
            def pyvc_attr(self, E, attr, st):
                if attr == "inverted":
                    yield ("val", _F(lambda: XI), st)
                elif attr == "line":
                    yield ("val", Unknown("line of the last path element"), st)       # (only read for the text of an error message)
                else:
                    raise Unsupported("path element.%s" % attr)
        class YLine:
            def pyvc_attr(self, E, attr, st):
                if attr != "edges":
                    raise Unsupported("segment.%s" % attr)
                yield ("val", edges, st)
        class _F:
            def __init__(self, f):
                self.f = f
            def pyvc_call(self, E, pos, kw, st):
                yield ("val", self.f(), st)
        class PathL:
            def pyvc_getitem(self, E, i, st):
                yield ("val", XObj(), st)
        def m_ol(E, st, pos, kw):
            edge, o = pos
            zh = dict(st.zh)
            c = zh["next_obj"]
            zh["line"] = z3.Store(zh["line"], c, edge.t)
            zh["plus"] = z3.Store(zh["plus"], c, z3.BoolVal(conc(o) == "+"))
            zh["next_obj"] = c + 1
            yield ("val", Ref(c, g.OrientedLine), [], st.with_zh(zh))
        # attribute reads of the edge: sid1 / sid2
        def m_sid(which):
            def m(E, st, pos, kw):
                yield ("val", Sid(pos[0].t, which), [])
            return m
        models = {g.OrientedLine: m_ol}
        s = Obj(g.line.group.Ordered, "group")
        fp = z3.Const("first_position_of", AII)
        occurs = lambda e, upto: fp[e] < upto
        def entries_ok(st, upto):
            zh = st.zh
            np_ = zh["L_n"][rid]
            ent = lambda kk: zh["L_e"][rid][kk]
            return z3.And(np_ >= 0, zh["next_list"] == h0["next_list"] + 1, zh["next_obj"] >= base,
                          z3.ForAll([k], z3.Implies(z3.And(0 <= k, k < np_), z3.And(base <= ent(k), ent(k) < zh["next_obj"], fits(zh["line"][ent(k)]), occurs(zh["line"][ent(k)], upto),
                                                                                   zh["plus"][ent(k)] == fwd[zh["line"][ent(k)]]))),
                          z3.ForAll([j], z3.Implies(z3.And(0 <= j, j < upto, fits(el[j])), z3.Exists([k], z3.And(0 <= k, k < np_, zh["line"][ent(k)] == el[j])))),
                          z3.ForAll([k, k2], z3.Implies(z3.And(0 <= k, k < k2, k2 < np_), zh["line"][ent(k)] != zh["line"][ent(k2)])))
        inv = {("CapturedPath._find_edge_from_path_to_segment", 0): dict(inv=lambda i, st: z3.And(i <= n, entries_ok(st, i)), modheap=["L_n", "L_e", "next_obj", "line", "plus"],
                                                                          mod={"edge": lambda nm: EdgeSym(fresh(nm, I))})}
        some = z3.Exists([j], z3.And(0 <= j, j < n, fits(el[j])))
        two = z3.Exists([j, j2], z3.And(0 <= j, j < n, 0 <= j2, j2 < n, fits(el[j]), fits(el[j2]), el[j] != el[j2]))
        def post(kd, v, st):
            if kd == "raise":
                if v.cls is g.NotFoundError:
                    return z3.Not(some)
                if v.cls is g.NotUniqueError:
                    return two
                return z3.BoolVal(False)
            if not isinstance(v, Ref):
                return z3.BoolVal(False)
            zh = st.zh
            ln = zh["line"][v.t]
            return z3.And(some, z3.Not(two), fits(ln), occurs(ln, n), zh["plus"][v.t] == fwd[ln],
                          z3.ForAll([j], z3.Implies(z3.And(0 <= j, j < n, fits(el[j])), el[j] == ln)))
        pre = [n >= 0, base > 0, rel, z3.ForAll([j], z3.Implies(z3.And(0 <= j, j < n), z3.And(0 <= el[j], el[j] < base))),
               z3.ForAll([j], z3.Implies(z3.And(0 <= j, j < n), z3.And(0 <= fp[el[j]], fp[el[j]] <= j))),
               z3.ForAll([e_], z3.And(0 <= fp[e_], fp[e_] <= n, z3.Implies(fp[e_] < n, el[fp[e_]] == e_)))]
        return [Case("edges", [s, [XObj()], YObj()], post, pre=pre, zh=h0, heap={s.oid: {}}, models=models, invariants=inv,
                     options=dict(alloc_lists=True, ref_fields=("line",)), symbols=dict(n_edges_of_segment=n), minimize=[n],
                     replay=lambda w: {"target": "bounded.replay_helpers:find_edge_cases"}, confirm=battery_confirm)]


@register
class CheckGfa1PathSteps(Contract):
    fn = "gfapy/line/group/ordered/to_gfa1.py::ToGFA1._check_gfa1_path_steps"
    props = ("C06",)
    fragment = "H"
    doc = ("an ordered group has a GFA1 path as counterpart only if every edge of its captured path is a dovetail that leaves the previous oriented segment and "
           "enters the next one - as written when the edge is traversed forwards, as its complement when it is traversed backwards: ValueError iff some step is "
           "not (loop invariant over the odd positions of the captured path, every length); nothing is written. Oriented references are values: equal iff "
           "same line and orientation")

    def cases(self, ctx):
        import builtins
        g = ctx.gfapy
        AII_, AIB_ = z3.ArraySort(I, I), z3.ArraySort(I, B)
        m = z3.Int("n_steps")                        # the captured path has 2m+1 elements: segment (edge segment)*
        el = z3.Const("element_of_captured_path", AII_)
        line_of, inv_of = z3.Const("line_of_oriented_reference", AII_), z3.Const("inverted", AII_)
        dov = z3.Const("edge_is_a_dovetail", AIB_)
        orient = z3.Const("orientation", z3.ArraySort(I, Str))
        class _Plus:
            def __getitem__(self, x):
                return orient[x] == z3.StringVal("+")
        plus = _Plus()
        ofrom, oto = z3.Const("oriented_from_of_edge", AII_), z3.Const("oriented_to_of_edge", AII_)
        grp = Obj(g.line.group.Ordered if hasattr(g.line.group, "Ordered") else g.Line, "group")
        cp = SList(2 * m + 1, el, lambda t: Ref(t, g.OrientedLine))
        k = z3.Int("k")
        def step_ok(kk):
            prev, oe, nxt = el[2 * kk], el[2 * kk + 1], el[2 * kk + 2]
            e = line_of[oe]
            return z3.And(dov[e], z3.If(plus[oe], z3.And(ofrom[e] == prev, oto[e] == nxt), z3.And(ofrom[e] == inv_of[nxt], oto[e] == inv_of[prev])))
        def m_dov(E, st, pos, kw):
            yield ("val", dov[pos[0].t], [])
        def m_from(E, st, pos, kw):
            yield ("val", Ref(ofrom[pos[0].t], g.OrientedLine), [])
        def m_to(E, st, pos, kw):
            yield ("val", Ref(oto[pos[0].t], g.OrientedLine), [])
        def m_inverted(E, st, pos, kw):
            yield ("val", Ref(inv_of[pos[0].t], g.OrientedLine), [])
        E2 = g.line.edge.GFA2
        models = {g.OrientedLine.inverted: m_inverted, E2.is_dovetail: m_dov}
        models[E2.oriented_from.fget] = m_from
        models[E2.oriented_to.fget] = m_to
        label = "ToGFA1._check_gfa1_path_steps"
        def inv(i, st):
            return z3.And(0 <= i, i <= m, z3.ForAll([k], z3.Implies(z3.And(0 <= k, k < i), step_ok(k))))
        invs = {(label, 0): dict(inv=inv, mod={"i": lambda nm: fresh(nm, I), "prev": lambda nm: Ref(fresh(nm, I), g.OrientedLine), "oedge": lambda nm: Ref(fresh(nm, I), g.OrientedLine),
                                             "nxt": lambda nm: Ref(fresh(nm, I), g.OrientedLine), "edge": lambda nm: Ref(fresh(nm, I), E2), "ok": lambda nm: fresh(nm, B)})}
        def post(kd, v, st):
            if kd == "raise":
                return z3.And(z3.BoolVal(v.cls is g.ValueError), z3.Exists([k], z3.And(0 <= k, k < m, z3.Not(step_ok(k)))))
            return z3.ForAll([k], z3.Implies(z3.And(0 <= k, k < m), step_ok(k)))
        heap = {grp.oid: {"captured_path": cp}}
        return [Case("steps", [grp], post, pre=[m >= 0], heap=heap, models=models, invariants=invs, zh={"line": line_of, "orient": orient}, options={"ref_fields": {"line": E2}},
                     symbols=dict(n_steps=m), minimize=[m])]
