"""C05 / C11 / C12 / C02 — UpdateReferences.__update_reference_in_list: the helper that rewrites a list of references when a
referenced line is removed (newref None) or replaced (virtual -> real, possibly in complement form).

The list is a list OBJECT on the z3 heap (identity matters: it is written in place while it is iterated); elements are heap
objects whose class is the symbolic field `kind` (0 None, 1 gfapy.Line, 2 gfapy.OrientedLine, 3 anything else); an OrientedLine
has the fields `line` and `orient`."""
import z3
from pyvc.contract import Contract, Case, register
from pyvc.dsl import *
from pyvc.values import *
from . import common

AII = z3.ArraySort(I, I)
FN = "gfapy/line/common/update_references.py::UpdateReferences.__update_reference_in_list"


def heap():
    return {"L_n": z3.Const("L_n", AII), "L_e": z3.Const("L_e", z3.ArraySort(I, AII)), "next_list": z3.Int("next_list"),
            "kind": z3.Const("kind", AII), "line": z3.Const("line", AII), "orient": z3.Const("orient", z3.ArraySort(I, Str))}


def kinds(g):
    return {0: type(None), 1: g.Line, 2: g.OrientedLine, 3: object}


def wf(h, lid):
    """representation invariant of a reference list: no None inside, None is the object -1, orientations are + or -"""
    j, t = z3.Int("j!wf"), z3.Int("t!wf")
    n0, e0 = h["L_n"][lid], h["L_e"][lid]
    return [n0 >= 0, h["kind"][NONE_T] == 0, z3.ForAll([t], z3.Implies(h["kind"][t] == 0, t == NONE_T)),
            z3.ForAll([t], z3.And(h["kind"][t] >= 0, h["kind"][t] <= 3)),
            z3.ForAll([j], z3.Implies(z3.And(0 <= j, j < n0), e0[j] != NONE_T)),
            z3.ForAll([t], z3.Or(h["orient"][t] == sv("+"), h["orient"][t] == sv("-")))]


@register
class UpdateReferenceInList_Remove(Contract):
    fn = FN
    props = ("C05", "C11", "C02")
    fragment = "L"
    doc = ("removal (newref is None): afterwards the list holds no None and no mention of oldref (neither the line itself nor an "
           "OrientedLine of it), every other element is kept, in order, exactly once per original occurrence; no object field is written; "
           "loop invariant: the visited prefix has None exactly at the positions that mentioned oldref, the rest of the list is untouched")

    def cases(self, ctx):
        g = ctx.gfapy
        h0 = heap()
        selfo, old = Ref(z3.Int("self"), g.Line), Ref(z3.Int("oldref"), g.Line)
        lid = z3.Int("lst")
        lst = LRef(lid)
        n0, e0 = h0["L_n"][lid], h0["L_e"][lid]
        j, k = z3.Ints("j k")
        def mention(x, h=h0):
            return z3.Or(z3.And(h["kind"][x] == 1, x == old.t), z3.And(h["kind"][x] == 2, h["line"][x] == old.t))
        pre = wf(h0, lid) + [lid < h0["next_list"], old.t != NONE_T, h0["kind"][old.t] == 1]
        def inv0(i, st):
            h = st.zh
            n, e = h["L_n"][lid], h["L_e"][lid]
            found = st.env["found"]
            found = found if is_sym(found) else z3.BoolVal(bool(found))
            return z3.And(i <= n0, n == n0,
                          z3.ForAll([j], z3.Implies(z3.And(0 <= j, j < n0), e[j] == z3.If(z3.And(j < i, mention(e0[j])), NONE_T, e0[j]))),
                          found == z3.Exists([j], z3.And(0 <= j, j < i, mention(e0[j]))),
                          h["line"] == h0["line"], h["orient"] == h0["orient"], h["kind"] == h0["kind"])
        inv = {("UpdateReferences.__update_reference_in_list", 0): dict(inv=inv0, live=True, modheap=["L_n", "L_e"],
                                                                         mod={"found": lambda nm: fresh(nm, B), "idx": lambda nm: fresh(nm, I),
                                                                              "elem": lambda nm: Ref(fresh(nm, I))})}
        def post(kd, v, st):
            if kd == "raise":
                return z3.BoolVal(False)
            h = st.zh
            n1, e1 = h["L_n"][lid], h["L_e"][lid]
            f = z3.Function("keep_pos", I, I)
            return z3.And(n1 >= 0, n1 <= n0,
                          z3.ForAll([k], z3.Implies(z3.And(0 <= k, k < n1), z3.And(e1[k] != NONE_T, z3.Not(mention(e1[k]))))),
                          # every kept element comes from the original list, every non-mentioning original element is kept
                          z3.ForAll([k], z3.Implies(z3.And(0 <= k, k < n1), z3.Exists([j], z3.And(0 <= j, j < n0, e0[j] == e1[k], z3.Not(mention(e0[j])))))),
                          z3.ForAll([j], z3.Implies(z3.And(0 <= j, j < n0, z3.Not(mention(e0[j]))), z3.Exists([k], z3.And(0 <= k, k < n1, e1[k] == e0[j])))),
                          z3.Implies(z3.Not(z3.Exists([j], z3.And(0 <= j, j < n0, mention(e0[j])))),
                                     z3.And(n1 == n0, z3.ForAll([k], z3.Implies(z3.And(0 <= k, k < n0), e1[k] == e0[k])))),
                          h["line"] == h0["line"], h["orient"] == h0["orient"])
        return [Case("remove", [selfo, lst, old, None], post, pre=pre, zh=h0, invariants=inv,
                     options=dict(kinds=kinds(g), ref_fields=("line",)),
                     replay=lambda w: {"target": "bounded.replay_helpers:update_reference_in_list_cases"},
                     confirm=battery_confirm)]


@register
class UpdateReferenceInList_Replace(Contract):
    fn = FN
    props = ("C02", "C12", "C03")
    fragment = "L"
    doc = ("replacement (newref is a line): the list keeps its length and its objects; an element that IS oldref becomes newref; an "
           "OrientedLine of oldref now refers to newref and its orientation is inverted iff newref is the complement form of oldref "
           "(the decision of __is_replaced_by_complement); every other element, and every OrientedLine not in the list, is untouched")

    def cases(self, ctx):
        g = ctx.gfapy
        h0 = heap()
        selfo, old, new = Ref(z3.Int("self"), g.Line), Ref(z3.Int("oldref"), g.Line), Ref(z3.Int("newref"), g.Line)
        lid = z3.Int("lst")
        lst = LRef(lid)
        n0, e0 = h0["L_n"][lid], h0["L_e"][lid]
        j, k, t = z3.Ints("j k t")
        compl = z3.Bool("newref_is_complement_of_oldref")
        j1, j2 = z3.Ints("j1 j2")
        pre = wf(h0, lid) + [lid < h0["next_list"], old.t != NONE_T, new.t != NONE_T, h0["kind"][old.t] == 1, h0["kind"][new.t] == 1, old.t != new.t,
                             # the OrientedLine objects of one list are distinct objects (each item of a path / group is parsed into its own)
                             z3.ForAll([j1, j2], z3.Implies(z3.And(0 <= j1, j1 < j2, j2 < n0, h0["kind"][e0[j1]] == 2), e0[j1] != e0[j2]))]
        def is_ol_of_old(x):
            return z3.And(h0["kind"][x] == 2, h0["line"][x] == old.t)
        def inlist(tt, upto):
            return z3.Exists([j], z3.And(0 <= j, j < upto, e0[j] == tt))
        def inv0(i, st):
            h = st.zh
            n, e = h["L_n"][lid], h["L_e"][lid]
            return z3.And(i <= n0, n == n0, h["kind"] == h0["kind"],
                          z3.ForAll([j], z3.Implies(z3.And(0 <= j, j < n0), e[j] == z3.If(z3.And(j < i, h0["kind"][e0[j]] == 1, e0[j] == old.t), new.t, e0[j]))),
                          z3.ForAll([t], h["line"][t] == z3.If(z3.And(is_ol_of_old(t), inlist(t, i)), new.t, h0["line"][t])),
                          z3.ForAll([t], h["orient"][t] == z3.If(z3.And(is_ol_of_old(t), inlist(t, i), compl), common.spec.invert(h0["orient"][t]), h0["orient"][t])))
        inv = {("UpdateReferences.__update_reference_in_list", 0): dict(inv=inv0, live=True, modheap=["L_n", "L_e", "line", "orient"],
                                                                         mod={"found": lambda nm: fresh(nm, B), "idx": lambda nm: fresh(nm, I),
                                                                              "elem": lambda nm: Ref(fresh(nm, I))})}
        models = {ctx.fn("gfapy/line/common/update_references.py::UpdateReferences.__is_replaced_by_complement"): const_model(lambda *a: compl),
                  g.invert: common.m_invert}
        def post(kd, v, st):
            if kd == "raise":
                return z3.BoolVal(False)
            h = st.zh
            n1, e1 = h["L_n"][lid], h["L_e"][lid]
            return z3.And(n1 == n0,
                          z3.ForAll([k], z3.Implies(z3.And(0 <= k, k < n0), e1[k] == z3.If(z3.And(h0["kind"][e0[k]] == 1, e0[k] == old.t), new.t, e0[k]))),
                          z3.ForAll([t], h["line"][t] == z3.If(z3.And(is_ol_of_old(t), inlist(t, n0)), new.t, h0["line"][t])),
                          z3.ForAll([t], h["orient"][t] == z3.If(z3.And(is_ol_of_old(t), inlist(t, n0), compl), common.spec.invert(h0["orient"][t]), h0["orient"][t])))
        return [Case("replace", [selfo, lst, old, new], post, pre=pre, zh=h0, invariants=inv, models=models,
                     options=dict(kinds=kinds(g), ref_fields=("line",)), symbols={"newref_is_complement_of_oldref": compl},
                     replay=lambda w: {"target": "bounded.replay_helpers:update_reference_in_list_cases"},
                     confirm=battery_confirm)]


def _replaced_by_complement_case(ctx, old_cls, label):
    g = ctx.gfapy
    old, new = Obj(old_cls, "oldref"), Obj(g.line.edge.Link, "newref")
    ends = {k: Obj(g.SegmentEnd, k) for k in ("old.from_end", "old.to_end", "new.from_end", "new.to_end")}
    ovs = {k: Obj(None, k) for k in ("old.overlap", "new.overlap")}
    compl = z3.Bool("old_is_complement_of_new")
    same_link = z3.Bool("old_is_the_same_link_as_new")
    ph = {"old.overlap": z3.Bool("old_overlap_unspecified"), "new.overlap": z3.Bool("new_overlap_unspecified")}
    eq = {("old.from_end", "new.to_end"): z3.Bool("oldfrom_eq_newto"), ("old.to_end", "new.from_end"): z3.Bool("oldto_eq_newfrom"),
          ("old.from_end", "new.from_end"): z3.Bool("oldfrom_eq_newfrom"), ("old.to_end", "new.to_end"): z3.Bool("oldto_eq_newto")}
    heap = {old.oid: {"from_end": ends["old.from_end"], "to_end": ends["old.to_end"], "overlap": ovs["old.overlap"]},
            new.oid: {"from_end": ends["new.from_end"], "to_end": ends["new.to_end"], "overlap": ovs["new.overlap"]},
            **{o.oid: {} for o in list(ends.values()) + list(ovs.values())}}
    name_of = {o.oid: k for k, o in list(ends.items()) + list(ovs.items())}
    def m_eq(E, st, pos, kw):
        a, b = pos
        key = (name_of.get(a.oid), name_of.get(b.oid))
        if key not in eq:
            key = (key[1], key[0])
        if key not in eq:
            raise Unsupported("== between %r and %r" % (a, b))
        yield ("val", eq[key], [])
    def m_ph(E, st, pos, kw):
        (x,) = pos
        yield ("val", ph[name_of[x.oid]], [])
    models = {g.SegmentEnd.__eq__: m_eq, g.is_placeholder: m_ph,
              ctx.fn("gfapy/line/edge/link/equivalence.py::Equivalence.is_complement"): const_model(lambda s_, o_: compl),
              ctx.fn("gfapy/line/edge/link/equivalence.py::Equivalence.is_same"): const_model(lambda s_, o_: same_link)}
    islink = old_cls is g.line.edge.Link
    swapped = z3.And(eq[("old.from_end", "new.to_end")], eq[("old.to_end", "new.from_end")])
    same = z3.And(eq[("old.from_end", "new.from_end")], eq[("old.to_end", "new.to_end")])
    want = z3.And(z3.BoolVal(islink), z3.If(compl, z3.Not(same_link), z3.And(z3.Or(ph["old.overlap"], ph["new.overlap"]), swapped, z3.Not(same))))
    def post(k, v, st):
        if k != "return":
            return z3.BoolVal(False)
        val = v if is_sym(v) else z3.BoolVal(bool(v))
        return val == want
    sym = dict(old_is_complement_of_new=compl, old_is_the_same_link_as_new=same_link, **{str(b): b for b in list(ph.values()) + list(eq.values())})
    return Case(label, [old, new], post, heap=heap, models=models, symbols=sym,
                replay=lambda w: {"target": "bounded.replay_helpers:path_link_direction_cases"}, confirm=battery_confirm)


@register
class IsReplacedByComplement(Contract):
    fn = "gfapy/line/common/update_references.py::UpdateReferences.__is_replaced_by_complement"
    props = ("C12", "C03")
    doc = ("a placeholder link is replaced by its COMPLEMENT form iff is_complement says so and is_same does not (a hairpin with a symmetric overlap is both: it keeps its direction), or - when at least one of the two overlaps is "
           "unspecified, so that the overlaps cannot tell - the ends are exchanged (old.from = new.to and old.to = new.from) and not "
           "identical (a link whose two forms coincide keeps its direction); a line that is not a link is never 'complemented'")

    def cases(self, ctx):
        g = ctx.gfapy
        return [_replaced_by_complement_case(ctx, g.line.edge.Link, "link"), _replaced_by_complement_case(ctx, g.line.segment.GFA1, "not-a-link")]
