"""Small pure selectors that the neighbourhood (C11), complement (C12) and conversion (C06) properties are read through:
Other.other_oriented_segment, Canonical.canonicize, Pos.rpos (part 9)."""
import z3
from pyvc.contract import Contract, Case, register
from pyvc.dsl import *
from pyvc.values import *


# ----------------------------------------------------------------------------------------- other_oriented_segment
@register
class OtherOrientedSegment(Contract):
    fn = "gfapy/line/edge/gfa1/other.py::Other.other_oriented_segment"
    props = ("C11", "C12")
    doc = ("the other oriented segment of a GFA1 edge: the TO side iff the argument equals the FROM side (a hairpin whose two sides are equal answers "
           "with its TO side), else the FROM side iff it equals the TO side; an oriented segment that is neither is answered with None when tolerant "
           "and refused with NotFoundError otherwise; both sides are compared through OrientedLine.__eq__ (name and orientation), nothing is written")

    def cases(self, ctx):
        g = ctx.gfapy
        out = []
        for tolerant in (False, True):
            link = Obj(g.line.edge.Link, "link")
            of, ot, x = Obj(g.OrientedLine, "oriented_from"), Obj(g.OrientedLine, "oriented_to"), Obj(g.OrientedLine, "x")
            eqf, eqt = z3.Bool("x_equals_from_side"), z3.Bool("x_equals_to_side")
            def m_eq(E, st, pos, kw, of=of, ot=ot, x=x, eqf=eqf, eqt=eqt):
                pair = {pos[0].oid, pos[1].oid}
                if pair == {of.oid, x.oid}:
                    yield ("val", eqf, [])
                elif pair == {ot.oid, x.oid}:
                    yield ("val", eqt, [])
                else:
                    raise Unsupported("== between %r and %r" % (pos[0], pos[1]))
            models = {g.OrientedLine.__eq__: m_eq,
                      g.line.edge.Link.oriented_from.fget: const_model(lambda s_, of=of: of),
                      g.line.edge.Link.oriented_to.fget: const_model(lambda s_, ot=ot: ot)}
            heap = {link.oid: {}, of.oid: {}, ot.oid: {}, x.oid: {}}
            def post(k, v, st, of=of, ot=ot, eqf=eqf, eqt=eqt, tolerant=tolerant):
                if k == "raise":
                    return z3.And(z3.BoolVal(v.cls is g.NotFoundError and not tolerant), z3.Not(eqf), z3.Not(eqt))
                if v is ot:
                    return eqf
                if v is of:
                    return z3.And(z3.Not(eqf), eqt)
                if v is None:
                    return z3.And(z3.BoolVal(tolerant), z3.Not(eqf), z3.Not(eqt))
                return z3.BoolVal(False)
            out.append(Case("tolerant" if tolerant else "strict", [link, x, tolerant], post, heap=heap, models=models,
                            symbols=dict(x_equals_from_side=eqf, x_equals_to_side=eqt),
                            replay=lambda w: {"target": "bounded.replay_helpers:other_oriented_segment_cases"}, confirm=battery_confirm, expect_paths=3))
        return out


# ----------------------------------------------------------------------------------------- canonicize
@register
class Canonicize(Contract):
    fn = "gfapy/line/edge/link/canonical.py::Canonical.canonicize"
    props = ("C12", "C03")
    doc = ("the form of a link that is stored: the link ITSELF iff is_canonical() holds, else what complement() returns - never the other way "
           "round, never a third object; nothing is written and nothing is raised")

    def cases(self, ctx):
        g = ctx.gfapy
        link, compl = Obj(g.line.edge.Link, "link"), Obj(g.line.edge.Link, "complement_of_link")
        canon = z3.Bool("is_canonical")
        models = {ctx.fn("gfapy/line/edge/link/canonical.py::Canonical.is_canonical"): const_model(lambda s_: canon),
                  ctx.fn("gfapy/line/edge/link/complement.py::Complement.complement"): const_model(lambda s_: compl)}
        def post(k, v, st):
            if k == "raise":
                return z3.BoolVal(False)
            if v is link:
                return canon
            if v is compl:
                return z3.Not(canon)
            return z3.BoolVal(False)
        return [Case("link", [link], post, heap={link.oid: {}, compl.oid: {}}, models=models, symbols=dict(is_canonical=canon),
                     replay=lambda w: {"target": "bounded.replay_helpers:canonicize_cases"}, confirm=battery_confirm, expect_paths=2)]


# ----------------------------------------------------------------------------------------- rpos
@register
class ContainmentRpos(Contract):
    fn = "gfapy/line/edge/containment/pos.py::Pos.rpos"
    props = ("C06", "C07")
    doc = ("rightmost coordinate of the contained segment on its container: pos + the length of the overlap ON THE REFERENCE (CIGAR.length_on_reference, "
           "under contract); an unspecified overlap is refused with gfapy.ValueError - the only exception, an instance of gfapy.Error; nothing is written")

    def cases(self, ctx):
        g = ctx.gfapy
        out = []
        for label, cls in (("cigar", g.CIGAR), ("placeholder", g.AlignmentPlaceholder), ("generic-placeholder", g.Placeholder)):
            c = Obj(g.line.edge.Containment, "containment")
            ov = Obj(cls, "overlap")
            p, ln = z3.Int("pos"), z3.Int("length_on_reference")
            models = {g.CIGAR.length_on_reference: const_model(lambda s_, ln=ln: ln)}
            def post(k, v, st, cls=cls, p=p, ln=ln):
                if issubclass(cls, g.Placeholder):
                    return z3.BoolVal(k == "raise" and v.cls is g.ValueError)
                if k == "raise" or not (is_sym(v) or isinstance(v, int)):
                    return z3.BoolVal(False)
                return S(v) == p + ln
            out.append(Case(label, [c], post, pre=[p >= 0, ln >= 0], heap={c.oid: {"pos": p, "overlap": ov}, ov.oid: {}}, models=models,
                            symbols=dict(pos=p, length_on_reference=ln), minimize=[p, ln],
                            replay=lambda w: {"target": "bounded.replay_helpers:rpos_cases"}, confirm=battery_confirm, expect_paths=1))
        return out
