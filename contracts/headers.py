"""C01 / C20 — Multiline._split: the merged header is written as one H line per tag; each of those lines must carry the tag's name,
its DECLARED datatype and its value (the datatype is not re-inferred from the Python value), at the header's validation level."""
import z3
from pyvc.contract import Contract, Case, register
from pyvc.dsl import *
from pyvc.values import *

AII = z3.ArraySort(I, I)
AIS = z3.ArraySort(I, Str)
AIB = z3.ArraySort(I, B)


@register
class HeaderSplit(Contract):
    fn = "gfapy/line/header/multiline.py::Multiline._split"
    props = ("C01", "C20", "C18")
    fragment = "L"
    doc = ("_split returns, for the j-th (name, datatype, value) of _tags(), a new H line on which exactly one tag was set: that name, that value, and "
           "whose datatype is the declared one (set(name, value) uses a datatype declared before for the same name, else the default of the "
           "value); the line is built at the header's vlevel; loop invariant: the first i result lines are the lines of the first i tags")

    def cases(self, ctx):
        g = ctx.gfapy
        n = z3.Int("n_tags")
        name, dtype, val = z3.Const("tag_name_of", AIS), z3.Const("tag_datatype_of", AIS), z3.Const("tag_value_of", AII)
        default_type = z3.Function("default_datatype_of_value", I, Str)
        vl = z3.Int("vlevel")
        k = z3.Int("k")
        tags = SList(n, z3.Lambda([k], k), lambda t: (name[t], dtype[t], Ref(val[t])))
        selfo = Obj(g.line.Header, "header")
        h0 = {"L_n": z3.Const("L_n", AII), "L_e": z3.Const("L_e", z3.ArraySort(I, AII)), "next_list": z3.Int("next_list"), "next_obj": z3.Int("next_obj"),
              "decl_has": z3.Const("decl_has", AIB), "decl_name": z3.Const("decl_name", AIS), "decl_type": z3.Const("decl_type", AIS),
              "set_cnt": z3.Const("set_cnt", AII), "set_name": z3.Const("set_name", AIS), "set_val": z3.Const("set_val", AII), "set_type": z3.Const("set_type", AIS),
              "h_vlevel": z3.Const("h_vlevel", AII)}
        base = h0["next_obj"]
        ret_id = h0["next_list"]
        j = z3.Int("j")
        pre = [n >= 0]
        def m_ctor(E, st, pos, kw):
            zh = dict(st.zh)
            t = zh["next_obj"]
            zh["next_obj"] = t + 1
            zh["decl_has"] = z3.Store(zh["decl_has"], t, z3.BoolVal(False))
            zh["set_cnt"] = z3.Store(zh["set_cnt"], t, z3.IntVal(0))
            lvl = kw.get("vlevel")
            zh["h_vlevel"] = z3.Store(zh["h_vlevel"], t, S(lvl) if lvl is not None and E.is_int(lvl) else z3.IntVal(1))
            ok = z3.BoolVal(isinstance(pos[0], list) and [conc(x) for x in pos[0]] == ["H"]) if pos else z3.BoolVal(False)
            yield ("val", Ref(t, g.line.Header), [], st.with_zh(zh).with_ghost("ctor_ok", z3.And(st.ghost.get("ctor_ok", z3.BoolVal(True)), ok)))
        def m_set_datatype(E, st, pos, kw):
            self_, nm, dt = pos
            zh = dict(st.zh)
            zh["decl_has"] = z3.Store(zh["decl_has"], self_.t, z3.BoolVal(True))
            zh["decl_name"] = z3.Store(zh["decl_name"], self_.t, S(nm))
            zh["decl_type"] = z3.Store(zh["decl_type"], self_.t, S(dt))
            yield ("val", None, [], st.with_zh(zh))
        def m_set(E, st, pos, kw):
            self_, nm, v = pos
            zh = dict(st.zh)
            t = self_.t
            zh["set_cnt"] = z3.Store(zh["set_cnt"], t, zh["set_cnt"][t] + 1)
            zh["set_name"] = z3.Store(zh["set_name"], t, S(nm))
            zh["set_val"] = z3.Store(zh["set_val"], t, E.unwrap_ref(v))
            zh["set_type"] = z3.Store(zh["set_type"], t, z3.If(z3.And(zh["decl_has"][t], zh["decl_name"][t] == S(nm)), zh["decl_type"][t], default_type(E.unwrap_ref(v))))
            yield ("val", None, [], st.with_zh(zh))
        def m_add(E, st, pos, kw):
            # Multiline.add on a line without that tag: declare the datatype when one is given, then set (the documented first branch)
            self_, nm, v = pos[:3]
            dt = pos[3] if len(pos) > 3 else kw.get("datatype")
            st1 = st
            if dt is not None:
                for _k, _v, _c, st1 in m_set_datatype(E, st, [self_, nm, dt], {}):
                    pass
            fresh_line = st.zh["set_cnt"][self_.t] == 0
            for _k, _v, _c, st2 in m_set(E, st1, [self_, nm, v], {}):
                yield ("val", None, [fresh_line], st2)
            yield ("val", None, [z3.Not(fresh_line)], st.with_ghost("ctor_ok", z3.BoolVal(False)))
        models = {ctx.fn("gfapy/line/header/multiline.py::Multiline._tags"): const_model(lambda self_: tags),
                  ctx.fn("gfapy/line/header/multiline.py::Multiline.add"): m_add,
                  g.line.Header: m_ctor,
                  ctx.fn("gfapy/line/common/field_datatype.py::FieldDatatype.set_datatype"): m_set_datatype,
                  ctx.fn("gfapy/line/common/field_data.py::FieldData.set"): m_set}
        def lines_ok(zh, upto):
            e = zh["L_e"][ret_id]
            return z3.ForAll([j], z3.Implies(z3.And(0 <= j, j < upto),
                                             z3.And(e[j] == base + j, zh["set_cnt"][e[j]] == 1, zh["set_name"][e[j]] == name[j], zh["set_val"][e[j]] == val[j],
                                                    zh["set_type"][e[j]] == dtype[j], zh["h_vlevel"][e[j]] == vl)))
        def inv0(i, st):
            zh = st.zh
            return z3.And(i <= n, zh["L_n"][ret_id] == i, zh["next_obj"] == base + i, zh["next_list"] == h0["next_list"] + 1, lines_ok(zh, i))
        inv = {("Multiline._split", 0): dict(inv=inv0, modheap=[f for f in h0 if f != "next_list"],
                                             mod={"tagname": lambda nm: fresh(nm, Str), "datatype": lambda nm: fresh(nm, Str), "value": lambda nm: Ref(fresh(nm, I)),
                                                  "h": lambda nm: Ref(fresh(nm, I), g.line.Header)})}
        def post(kd, v, st):
            if kd == "raise" or not isinstance(v, LRef):
                return z3.BoolVal(False)
            zh = st.zh
            return z3.And(v.id == ret_id, zh["L_n"][ret_id] == n, lines_ok(zh, n), st.ghost.get("ctor_ok", z3.BoolVal(True)))
        return [Case("split", [selfo], post, pre=pre, zh=h0, heap={selfo.oid: {"vlevel": vl}}, invariants=inv, models=models,
                     options=dict(alloc_lists=True), symbols=dict(n_tags=n, vlevel=vl),
                     replay=lambda w: {"target": "bounded.replay_helpers:header_split_cases"},
                     confirm=battery_confirm)]


@register
class FieldArrayVpush(Contract):
    fn = "gfapy/field_array.py::FieldArray._vpush"
    props = ("C18", "C01", "C08")
    fragment = "L"
    doc = ("_vpush(value, datatype): the value is appended at the end, exactly once, unless it is refused: without a datatype the value must "
           "be valid for the array's datatype (the validator's error propagates), with a datatype it must be the array's (InconsistencyError); a "
           "refused value is not appended, an accepted one always is")

    def cases(self, ctx):
        g = ctx.gfapy
        AII_ = z3.ArraySort(I, I)
        h0 = {"L_n": z3.Const("L_n", AII_), "L_e": z3.Const("L_e", z3.ArraySort(I, AII_)), "next_list": z3.Int("next_list")}
        lid = z3.Int("data_list")
        dt_self, dt_arg = z3.String("array_datatype"), z3.String("given_datatype")
        dt_none, valid = z3.Bool("no_datatype_given"), z3.Bool("value_is_valid")
        val = Ref(z3.Int("value"))
        fa = Obj(g.FieldArray, "field_array")
        heap = {fa.oid: {"_data": LRef(lid), "_datatype": dt_self, "datatype": dt_self}}
        def m_validate(E, st, pos, kw):
            yield ("raise", Exc(g.FormatError), [z3.Not(valid)])
            yield ("val", None, [valid])
        models = {ctx.fn("gfapy/field/validator.py::Validator._validate_gfa_field"): m_validate, g.FieldArray.datatype.fget: const_model(lambda self_: dt_self)}
        n0, e0 = h0["L_n"][lid], h0["L_e"][lid]
        k = z3.Int("k")
        refused = z3.If(dt_none, z3.Not(valid), dt_arg != dt_self)
        def post(kd, v, st):
            n1, e1 = st.zh["L_n"][lid], st.zh["L_e"][lid]
            same = z3.And(n1 == n0, z3.ForAll([k], z3.Implies(z3.And(0 <= k, k < n0), e1[k] == e0[k])))
            if kd == "raise":
                return z3.And(refused, same, z3.BoolVal(issubclass(v.cls, g.Error)), z3.Implies(z3.Not(dt_none), z3.BoolVal(v.cls is g.InconsistencyError)))
            return z3.And(z3.Not(refused), n1 == n0 + 1, e1[n0] == val.t, z3.ForAll([k], z3.Implies(z3.And(0 <= k, k < n0), e1[k] == e0[k])))
        return [Case("push", [fa, val, Opt(dt_none, dt_arg), "xx"], post, pre=[n0 >= 0, lid < h0["next_list"]], zh=h0, heap=heap, models=models,
                     symbols=dict(array_datatype=dt_self, given_datatype=dt_arg, no_datatype_given=dt_none, value_is_valid=valid), expect_paths=3)]


@register
class MultilineAdd(Contract):
    fn = "gfapy/line/header/multiline.py::Multiline.add"
    props = ("C01", "C08", "C18")
    fragment = "H"
    doc = ("header.add(tag, value, datatype): a tag not yet present is declared (when a datatype is given) and set; a second, different value of "
           "a single-definition tag (VN, TS) is refused with InconsistencyError BEFORE anything is written, an equal one is ignored; any other "
           "tag becomes (or stays) a field array to which the value is appended - through the validating _vpush at level >= 2, plainly below")

    def cases(self, ctx):
        g = ctx.gfapy
        state, pst = enum("stored", ["absent", "scalar", "array"])
        single, same_text = z3.Bool("tag_is_VN_or_TS"), z3.Bool("same_written_value")
        dt_none = z3.Bool("no_datatype_given")
        vl = z3.Int("vlevel")
        tag, ptag = enum("tagname", ["VN", "xx"])
        s = Obj(g.line.Header, "header")
        prev_scalar, prev_array, newarr, val, dt = Obj(object, "stored_value"), Obj(g.FieldArray, "stored_array"), Obj(g.FieldArray, "new_array"), Obj(None, "value"), Obj(None, "datatype")
        heap = {s.oid: {"vlevel": vl}, prev_scalar.oid: {}, prev_array.oid: {}, newarr.oid: {}, val.oid: {}, dt.oid: {}}
        def evn(st, name):
            return st.with_ghost("events", tuple(st.ghost.get("events", ())) + (name,))
        def m_get(E, st, pos, kw):
            yield ("val", None, [state == sv("absent")]); yield ("val", prev_scalar, [state == sv("scalar")]); yield ("val", prev_array, [state == sv("array")])
        def mk(name, result=None):
            def m(E, st, pos, kw):
                yield ("val", result, [], evn(st, name))
            return m
        def m_field_to_s(E, st, pos, kw):
            yield ("val", ite_str(same_text, "T", "U1"), [])
        def m_to_gfa_field(E, st, pos, kw):
            yield ("val", "T", [])
        def m_fa_ctor(E, st, pos, kw):
            ok = len(pos) == 2 and isinstance(pos[1], list) and len(pos[1]) == 1 and pos[1][0] is prev_scalar
            yield ("val", newarr, [], evn(st, "new_array_of_stored_value" if ok else "new_array_wrong"))
        def m_vpush(E, st, pos, kw):
            yield ("val", None, [], evn(st, "vpush:" + ("new" if pos[0] is newarr else "stored")))
        def m_append(E, st, pos, kw):
            # prev.append(value): FieldArray forwards unknown attributes to its list (call-site model)
            which = st.env.get("prev")
            yield ("val", None, [], evn(st, "append:" + ("new" if which is newarr else "stored")))
        f = ctx.fn
        models = {f("gfapy/line/common/field_data.py::FieldData.get"): m_get, f("gfapy/line/common/field_datatype.py::FieldDatatype.set_datatype"): mk("declare"),
                  f("gfapy/line/common/field_data.py::FieldData.set"): mk("set"), f("gfapy/line/header/multiline.py::Multiline.field_to_s"): m_field_to_s,
                  g.Field._to_gfa_field: m_to_gfa_field, f("gfapy/line/common/field_datatype.py::FieldDatatype.get_datatype"): const_model(lambda *a: "i"),
                  g.FieldArray: m_fa_ctor, f("gfapy/line/common/field_data.py::FieldData._set_existing_field"): mk("store_array"),
                  f("gfapy/line/header/field_data.py::FieldData._set_existing_field"): mk("store_array"),
                  f("gfapy/field_array.py::FieldArray._vpush"): m_vpush}
        def post(kd, v, st):
            e = tuple(st.ghost.get("events", ()))
            is_single = tag == sv("VN")
            if kd == "raise":
                return z3.And(z3.BoolVal(v.cls is g.InconsistencyError and e == ()), state == sv("scalar"), is_single, z3.Not(same_text))
            push = lambda which: ("vpush:" + which, "append:" + which)
            def pushed(which, prefix):
                return z3.If(vl > 1, z3.BoolVal(e == prefix + (push(which)[0],)), z3.BoolVal(e == prefix + (push(which)[1],)))
            return z3.If(state == sv("absent"), z3.If(dt_none, z3.BoolVal(e == ("set",)), z3.BoolVal(e == ("declare", "set"))),
                         z3.If(state == sv("array"), pushed("stored", ()),
                               z3.If(is_single, z3.And(same_text, z3.BoolVal(e == ())), pushed("new", ("new_array_of_stored_value", "store_array")))))
        return [Case("add", [s, tag, val, Opt(dt_none, dt)], post, pre=[pst, ptag, vl >= 0, vl <= 3], heap=heap, models=models, name_calls={"prev.append": m_append},
                     symbols=dict(stored=state, tagname=tag, same_written_value=same_text, no_datatype_given=dt_none, vlevel=vl), expect_paths=5)]
