"""C07 / C04 — the two list-size sites of a GFA1 path: Validation._validate_lists_size and References._compute_required_links.
segment_names and overlaps are symbolic lists (lengths ns, no); an overlap element carries two Booleans (truthy, is placeholder)."""
import z3
from pyvc.contract import Contract, Case, register
from pyvc.dsl import *
from pyvc.values import *

AII = z3.ArraySort(I, I)
AIB = z3.ArraySort(I, B)


class Ov:
    """an overlap element: CIGAR (truthy iff it has operations) or placeholder (falsy)"""
    def __init__(self, t, truthy, ph):
        self.t, self.truthy, self.ph = t, truthy, ph

    def pyvc_truth(self, E):
        return self.truthy[self.t]


def setup(ctx):
    g = ctx.gfapy
    ns, no = z3.Int("n_segments"), z3.Int("n_overlaps")
    truthy, ph = z3.Const("overlap_truthy", AIB), z3.Const("overlap_is_placeholder", AIB)
    k = z3.Int("k")
    segs = SList(ns, z3.Lambda([k], k), lambda t: Ref(t))
    ovs = SList(no, z3.Lambda([k], 1000 + k), lambda t: Ov(t, truthy, ph))
    p = Obj(g.line.group.Path, "path")
    heap = {p.oid: {"segment_names": segs, "overlaps": ovs}}
    t = z3.Int("t")
    pre = [ns >= 1, no >= 1, z3.ForAll([t], z3.Implies(ph[t], z3.Not(truthy[t])))]       # a parsed P line has at least one element in each list; a placeholder is falsy
    return g, p, heap, pre, ns, no, truthy, ph


@register
class PathValidateListsSize(Contract):
    fn = "gfapy/line/group/path/validation.py::Validation._validate_lists_size"
    props = ("C04", "C07")
    doc = ("a P line is accepted iff it has n-1 overlaps (linear), n overlaps (circular) or a single falsy overlap ('*'); anything else raises "
           "gfapy.InconsistencyError and nothing but that")

    def cases(self, ctx):
        g, p, heap, pre, ns, no, truthy, ph = setup(ctx)
        ok = z3.Or(no == ns - 1, no == ns, z3.And(no == 1, z3.Not(truthy[z3.IntVal(1000)])))
        def post(k, v, st):
            if k == "raise":
                return z3.And(z3.BoolVal(v.cls is g.InconsistencyError), z3.Not(ok))
            return ok
        return [Case("sizes", [p], post, pre=pre, heap=heap, symbols=dict(n_segments=ns, n_overlaps=no), minimize=[ns, no],
                     replay=lambda w: {"target": "bounded.replay_helpers:path_list_sizes", "args": [w["n_segments"], w["n_overlaps"], "validate"]},
                     confirm=battery_confirm)]


@register
class PathRequiredLinks(Contract):
    fn = "gfapy/line/group/path/references.py::References._compute_required_links"
    props = ("C07", "C12", "C04")
    fragment = "L"
    doc = ("the links required by a path: none for a single segment; otherwise one per consecutive pair (n-1, or n when the path is circular); "
           "when the overlaps are not the single '*' and there are fewer of them than steps, gfapy.InconsistencyError is raised; no index "
           "leaves its list (IndexError cannot escape); loop invariant: i links have been emitted and i stays below the number of steps")

    def cases(self, ctx):
        g, p, heap, pre, ns, no, truthy, ph = setup(ctx)
        h0 = {"L_n": z3.Const("L_n", AII), "L_e": z3.Const("L_e", z3.ArraySort(I, AII)), "next_list": z3.Int("next_list")}
        undef = z3.And(no == 1, ph[z3.IntVal(1000)])
        circ = no == ns
        steps = z3.If(circ, ns, ns - 1)
        short = z3.And(ns != 1, z3.Not(undef), no < steps)
        ret_id = h0["next_list"]          # the first list allocated by the function is retval
        def inv0(i, st):
            return z3.And(i <= ns, st.zh["L_n"][ret_id] == i, z3.Implies(z3.Not(circ), i <= ns - 1), ns != 1, z3.Not(short),
                          st.zh["next_list"] == h0["next_list"] + 1)
        inv = {("References._compute_required_links", 0): dict(inv=inv0, modheap=["L_n", "L_e"],
                                                               mod={"i": lambda nm: fresh(nm, I), "j": lambda nm: fresh(nm, I), "cigar": lambda nm: Obj(None, nm)})}
        models = {g.is_placeholder: const_model(lambda x: x.ph[x.t]),
                  g.AlignmentPlaceholder: const_model(lambda *a: Obj(g.AlignmentPlaceholder, "placeholder"))}
        inline = {ctx.fn("gfapy/line/group/path/references.py::References._undef_overlaps"), ctx.fn("gfapy/line/group/path/topology.py::Topology.is_circular")}
        def post(k, v, st):
            if k == "raise":
                return z3.And(z3.BoolVal(v.cls is g.InconsistencyError), short)
            if isinstance(v, list):
                return z3.And(z3.BoolVal(len(v) == 0), ns == 1)
            if isinstance(v, LRef):
                return z3.And(z3.Not(short), st.zh["L_n"][v.id] == z3.If(ns == 1, 0, steps))
            return z3.BoolVal(False)
        return [Case("links", [p], post, pre=pre, heap=heap, zh=h0, invariants=inv, models=models, inline=inline,
                     options=dict(alloc_lists=True, opaque_elems=True), symbols=dict(n_segments=ns, n_overlaps=no), minimize=[ns, no],
                     replay=lambda w: {"target": "bounded.replay_helpers:path_list_sizes", "args": [w.get("n_segments", 0), w.get("n_overlaps", 0), "links"]},
                     confirm=battery_confirm)]
