"""C15 — Multiplication.multiply as the orchestrator of the operation: which of its steps run, how often and with what, for every
factor, every list of requested copy names and every distribution setting.  The steps themselves (count division, cloning of the
segment with its edges, link distribution, removal) are callees with their own contracts / bounded checks; here they are ghost
events.  Names are abstract identities (two equal strings are the same identity)."""
import z3
from pyvc.contract import Contract, Case, register
from pyvc.dsl import *
from pyvc.values import *

AII = z3.ArraySort(I, I)
AIB = z3.ArraySort(I, B)


class Names:
    """Gfa.names: membership is the symbolic relation `in_use`"""
    def __init__(self, in_use):
        self.in_use = in_use

    def pyvc_contains(self, E, x):
        return self.in_use[x.t]


@register
class MultiplyOrchestration(Contract):
    fn = "gfapy/graph_operations/multiplication.py::Multiplication.multiply"
    props = ("C15", "C08")
    fragment = "L"
    doc = ("factor < 0: ArgumentError, nothing runs; factor 0: the segment is removed once and nothing else; factor 1: nothing runs; factor k >= 2: "
           "requested copy names are checked BEFORE anything is changed (k-1 names, none carried by a line or referred to by one, none twice: otherwise ArgumentError / NotUniqueError "
           "and no step has run); then the counts are divided once by k, the segment is cloned once per copy name in order (k-1 clones: the "
           "requested names, or the k-1 computed ones), and links are distributed once iff a policy is given")

    def cases(self, ctx):
        g = ctx.gfapy
        M = "gfapy/graph_operations/multiplication.py::Multiplication."
        factor, n = z3.Int("factor"), z3.Int("n_copy_names")
        given, dist = z3.Bool("copy_names_given"), z3.Bool("distribute_given")
        in_use = z3.Const("name_in_use", AIB)                  # the name of a line of the Gfa
        referred = z3.Const("name_referred_to", AIB)           # a name that lines refer to although no line defines it yet (a placeholder carries it)
        k, j, j2 = z3.Int("k"), z3.Int("j"), z3.Int("j2")
        name_id = z3.Const("copy_name", AII)                     # identity of the i-th requested name
        auto_id = z3.Const("computed_name", AII)
        req = SList(n, name_id, lambda t: Ref(t))
        auto = SList(factor - 1, auto_id, lambda t: Ref(t))
        gfa, seg = Obj(g.Gfa, "gfa"), Obj(g.line.segment.GFA1, "segment")
        h0 = {"n_div": z3.IntVal(0), "div_factor": z3.IntVal(-1), "n_clone": z3.IntVal(0), "cloned": z3.K(I, z3.IntVal(-1)), "n_dist": z3.IntVal(0), "n_rm": z3.IntVal(0)}
        untouched = lambda st: z3.And(st.zh["n_div"] == 0, st.zh["n_clone"] == 0, st.zh["n_dist"] == 0, st.zh["n_rm"] == 0)
        def bump(st, **kw):
            zh = dict(st.zh); zh.update(kw); return st.with_zh(zh)
        def m_div(E, st, pos, kw):
            yield ("val", None, [], bump(st, n_div=st.zh["n_div"] + 1, div_factor=S(pos[2])))
        def m_clone(E, st, pos, kw):
            yield ("val", None, [], bump(st, cloned=z3.Store(st.zh["cloned"], st.zh["n_clone"], pos[2].t), n_clone=st.zh["n_clone"] + 1))
        def m_dist(E, st, pos, kw):
            yield ("val", None, [], bump(st, n_dist=st.zh["n_dist"] + 1))
        def m_rm(E, st, pos, kw):
            yield ("val", None, [], bump(st, n_rm=st.zh["n_rm"] + 1))
        def m_line(E, st, pos, kw):
            # Gfa.line(name): the line that carries the name (a placeholder for a name only referred to), else None
            taken = z3.Or(in_use[pos[1].t], referred[pos[1].t])
            yield ("val", Opt(z3.Not(taken), Obj(g.Line, "found")), [])
        models = {ctx.fn(M + "_Multiplication__divide_segment_and_connection_counts"): m_div,
                  ctx.fn(M + "_Multiplication__clone_segment_and_connections"): m_clone,
                  ctx.fn(M + "_distribute_links"): m_dist,
                  ctx.fn(M + "_segment_and_segment_name"): const_model(lambda s_, x: (seg, Ref(z3.IntVal(-7)))),
                  ctx.fn(M + "_compute_copy_names"): const_model(lambda s_, sn, f: auto),      # contract ComputeCopyNames: factor-1 fresh distinct names
                  ctx.fn("gfapy/lines/destructors.py::Destructors.rm"): m_rm,
                  g.Gfa.names.fget: const_model(lambda s_: Names(in_use)),
                  ctx.fn("gfapy/lines/finders.py::Finders.line"): m_line}
        clash = lambda upto: z3.Exists([j], z3.And(0 <= j, j < upto, z3.Or(in_use[name_id[j]], referred[name_id[j]], z3.Exists([j2], z3.And(0 <= j2, j2 < j, name_id[j2] == name_id[j])))))
        label = "Multiplication.multiply"
        names_of = lambda: None
        def inv_check(i, st):
            return z3.And(i <= n, z3.Not(clash(i)), untouched(st))
        def inv_clone(i, st):
            nm = z3.If(given, name_id[j], auto_id[j])
            return z3.And(i <= z3.If(given, n, factor - 1), st.zh["n_clone"] == i, st.zh["n_div"] == 1, st.zh["div_factor"] == factor, st.zh["n_dist"] == 0, st.zh["n_rm"] == 0,
                          z3.ForAll([j], z3.Implies(z3.And(0 <= j, j < i), st.zh["cloned"][j] == nm)))
        inv = {(label, 0): dict(inv=inv_check, mod={"i": lambda nm: fresh(nm, I), "cn": lambda nm: Ref(fresh(nm, I))}),
               (label, 1): dict(inv=inv_clone, modheap=["n_clone", "cloned"], mod={"cn": lambda nm: Ref(fresh(nm, I))})}
        bad_len = z3.And(factor >= 2, given, n != factor - 1)
        bad_names = z3.And(factor >= 2, given, n == factor - 1, clash(n))
        def post(kd, v, st):
            if kd == "raise":
                return z3.And(untouched(st), z3.Or(z3.And(z3.BoolVal(v.cls is g.ArgumentError), z3.Or(factor < 0, bad_len)),
                                                   z3.And(z3.BoolVal(v.cls is g.NotUniqueError), bad_names)))
            ncopies = z3.If(given, n, factor - 1)
            nm = z3.If(given, name_id[j], auto_id[j])
            return z3.And(factor >= 0, z3.Not(bad_len), z3.Not(bad_names),
                          z3.Implies(factor == 0, z3.And(st.zh["n_rm"] == 1, st.zh["n_div"] == 0, st.zh["n_clone"] == 0, st.zh["n_dist"] == 0)),
                          z3.Implies(factor == 1, untouched(st)),
                          z3.Implies(factor >= 2, z3.And(st.zh["n_rm"] == 0, st.zh["n_div"] == 1, st.zh["div_factor"] == factor,
                                                         st.zh["n_clone"] == factor - 1, ncopies == factor - 1,
                                                         z3.ForAll([j], z3.Implies(z3.And(0 <= j, j < factor - 1), st.zh["cloned"][j] == nm)),
                                                         st.zh["n_dist"] == z3.If(dist, 1, 0))))
        cs = []
        for lbl, cn_arg, pre_g in (("names-given", req, [given, n >= 0]), ("names-computed", None, [z3.Not(given), n == 0])):
            for dlbl, d_arg, pre_d in (("no-distribution", None, [z3.Not(dist)]), ("distribution", "auto", [dist])):
                cs.append(Case("%s/%s" % (lbl, dlbl), [gfa, Ref(z3.IntVal(-7)), factor, cn_arg, True, d_arg, False, "or", False], post, pre=pre_g + pre_d, zh=h0,
                               heap={gfa.oid: {}, seg.oid: {}}, models=models, invariants=inv,
                               symbols=dict(factor=factor, n_copy_names=n), minimize=[factor, n],
                               replay=lambda w: {"target": "bounded.replay_helpers:multiply_orchestration_cases"}, confirm=battery_confirm))
        return cs


@register
class DivideCounts(Contract):
    fn = "gfapy/graph_operations/multiplication.py::Multiplication._Multiplication__divide_counts"
    props = ("C15",)
    doc = ("the read / fragment / k-mer counts of a line are divided by the factor: each of KC, RC, FC that the line carries is set once, to "
           "its value div factor (floor division); a count tag the line does not carry is not created; no other field is written")

    def cases(self, ctx):
        g = ctx.gfapy
        factor = z3.Int("factor")
        tags = ["KC", "RC", "FC"]
        has = {t: z3.Bool("has_" + t) for t in tags}
        val = {t: z3.Int("value_" + t) for t in tags}
        line, gfa = Obj(g.Line, "line"), Obj(g.Gfa, "gfa")
        class TagNames:
            def pyvc_contains(self, E, x):
                return has[conc(x)]
        def m_get(E, st, pos, kw):
            yield ("val", val[conc(pos[1])], [])
        def m_set(E, st, pos, kw):
            t = conc(pos[1])
            w = dict(st.ghost.get("written", {}))
            w[t] = w.get(t, ()) + (S(pos[2]),)
            yield ("val", None, [], st.with_ghost("written", w))
        models = {g.Line.tagnames.fget: const_model(lambda s_: TagNames()), ctx.fn("gfapy/line/common/field_data.py::FieldData.get"): m_get,
                  ctx.fn("gfapy/line/common/field_data.py::FieldData.set"): m_set}
        def post(kd, v, st):
            if kd != "return":
                return z3.BoolVal(False)
            w = st.ghost.get("written", {})
            c = [z3.BoolVal(set(w) <= set(tags))]
            for t in tags:
                ws = w.get(t, ())
                if len(ws) == 0:
                    c.append(z3.Not(has[t]))
                elif len(ws) == 1:
                    c.append(z3.And(has[t], ws[0] == val[t] / factor))
                else:
                    c.append(z3.BoolVal(False))
            return z3.And(*c)
        return [Case("tags", [gfa, line, factor], post, pre=[factor >= 2] + [val[t] >= 0 for t in tags], heap={gfa.oid: {}, line.oid: {}}, models=models,
                     symbols=dict(factor=factor, **{"has_" + t: has[t] for t in tags}, **{"value_" + t: val[t] for t in tags}), minimize=[factor])]


@register
class ComputeCopyNames(Contract):
    fn = "gfapy/graph_operations/multiplication.py::Multiplication._compute_copy_names"
    props = ("C15", "C09")
    fragment = "L"
    doc = ("the names computed for the copies: exactly factor - 1 names of the form <base>*<k>, pairwise distinct (k strictly increasing), none "
           "of them carried by a line of the Gfa or referred to by one (for loop with an inner while loop, two invariants; a name is identified "
           "with its integer suffix, decimal notation being injective; termination of the search for a free suffix is not proved)")

    def cases(self, ctx):
        import re, builtins
        g = ctx.gfapy
        factor = z3.Int("factor")
        taken, referred = z3.Const("name_in_use", AIB), z3.Const("name_referred_to", AIB)     # indexed by the integer suffix
        has_suffix = z3.Bool("segment_name_has_a_suffix")
        gfa = Obj(g.Gfa, "gfa")
        h0 = {"L_n": z3.Const("L_n", AII), "L_e": z3.Const("L_e", z3.ArraySort(I, AII)), "next_list": z3.Int("next_list")}
        rid = h0["next_list"]
        j, j2 = z3.Int("j"), z3.Int("j2")
        class Groups:
            def pyvc_call(self, E, pos, kw, st):
                yield ("val", ("base", "digits"), st)
        class Match:
            def pyvc_truth(self, E):
                return z3.BoolVal(True)
            def pyvc_attr(self, E, attr, st):
                if attr != "groups":
                    raise Unsupported("match.%s" % attr)
                yield ("val", Groups(), st)
        models = {re.search: const_model(lambda pat, s_: Opt(z3.Not(has_suffix), Match())), builtins.int: const_model(lambda x: fresh("old_suffix", I)),
                  g.Gfa.names.fget: const_model(lambda s_: Names(taken)),
                  ctx.fn("gfapy/lines/finders.py::Finders.line"): (lambda E, st, pos, kw: iter([("val", Opt(z3.Not(z3.Or(taken[pos[1].t], referred[pos[1].t])), Obj(g.Line, "found")), [])]))}
        free = lambda t: z3.And(z3.Not(taken[t]), z3.Not(referred[t]))
        label = "Multiplication._compute_copy_names"
        def el(st, idx):
            return st.zh["L_e"][rid][idx]
        def below(st, bound, upto):
            return z3.ForAll([j], z3.Implies(z3.And(0 <= j, j < upto), z3.And(free(el(st, j)), el(st, j) < bound,
                                                                             z3.ForAll([j2], z3.Implies(z3.And(j < j2, j2 < upto), el(st, j) < el(st, j2))))))
        def inv_for(idx, st):
            off = S(st.env["offset"])
            return z3.And(idx <= factor - 1, off >= 0, st.zh["L_n"][rid] == idx, st.zh["next_list"] == h0["next_list"] + 1, below(st, 2 + idx + off, idx))
        def inv_while(_, st):
            off, i = S(st.env["offset"]), S(st.env["i"])
            n_ = st.zh["L_n"][rid]
            return z3.And(off >= 0, st.env["name"].t == i + off, below(st, i + off, n_))
        inv = {(label, 0): dict(inv=inv_for, modheap=["L_n", "L_e"], mod={"offset": lambda nm: fresh(nm, I), "name": lambda nm: Ref(fresh(nm, I)), "i": lambda nm: fresh(nm, I)}),
               (label, 1): dict(inv=inv_while, mod={"offset": lambda nm: fresh(nm, I), "name": lambda nm: Ref(fresh(nm, I))})}
        def post(kd, v, st):
            if kd != "return" or not isinstance(v, LRef):
                return z3.BoolVal(False)
            n_ = st.zh["L_n"][v.id]
            return z3.And(v.id == rid, n_ == factor - 1,
                          z3.ForAll([j], z3.Implies(z3.And(0 <= j, j < n_), z3.And(free(el(st, j)),
                                                                                  z3.ForAll([j2], z3.Implies(z3.And(j < j2, j2 < n_), el(st, j) != el(st, j2)))))))
        def fmt(template, args):
            return Ref(S(args[1]))          # "<base>*<k>": identified with k
        return [Case("names", [gfa, Ref(z3.IntVal(-7)), factor], post, pre=[factor >= 2], zh=h0, heap={gfa.oid: {}}, models=models, invariants=inv,
                     options=dict(alloc_lists=True, opaque_elems=True, format_model=fmt), symbols=dict(factor=factor), minimize=[factor],
                     replay=lambda w: {"target": "bounded.replay_helpers:multiply_orchestration_cases"}, confirm=battery_confirm)]


@register
class DivideSegmentAndConnectionCounts(Contract):
    fn = "gfapy/graph_operations/multiplication.py::Multiplication._Multiplication__divide_segment_and_connection_counts"
    props = ("C15",)
    fragment = "L"
    doc = ("the counts of the multiplied segment are divided once, and those of EVERY dovetail and containment of the segment exactly once - "
           "also of an edge of the segment with itself, which is listed twice among its edges (loop invariant over the list of edges, with the "
           "list of the self-edges already processed; precondition from the reference-graph invariant: only an edge of the segment with itself "
           "is listed more than once)")

    def cases(self, ctx):
        g = ctx.gfapy
        n, factor = z3.Int("n_edges_listed"), z3.Int("factor")
        el = z3.Const("edge_at", AII)
        circ = z3.Const("edge_is_circular", AIB)
        k, j, j2, e_ = z3.Int("k"), z3.Int("j"), z3.Int("j2"), z3.Int("e")
        SEG = z3.IntVal(-3)
        edges = SList(n, el, lambda t: Ref(t, g.line.edge.Link))
        gfa, seg = Obj(g.Gfa, "gfa"), Ref(SEG)
        h0 = {"L_n": z3.Const("L_n", AII), "L_e": z3.Const("L_e", z3.ArraySort(I, AII)), "next_list": z3.Int("next_list"), "ndiv": z3.K(I, z3.IntVal(0)),
              "divisor": z3.K(I, z3.IntVal(0))}
        pid = h0["next_list"]
        class SegAttr:
            pass
        def m_div(E, st, pos, kw):
            t = pos[1].t
            zh = dict(st.zh)
            zh["ndiv"] = z3.Store(zh["ndiv"], t, zh["ndiv"][t] + 1)
            zh["divisor"] = z3.Store(zh["divisor"], t, S(pos[2]))
            yield ("val", None, [], st.with_zh(zh))
        def m_circ(E, st, pos, kw):
            yield ("val", circ[pos[0].t], [])
        models = {ctx.fn("gfapy/graph_operations/multiplication.py::Multiplication._Multiplication__divide_counts"): m_div,
                  ctx.fn("gfapy/line/edge/common/from_to.py::FromTo.is_circular"): m_circ}
        occurs = lambda e, upto: z3.Exists([j], z3.And(0 <= j, j < upto, el[j] == e))
        def state_ok(st, upto):
            zh = st.zh
            return z3.And(zh["ndiv"][SEG] == 1, zh["divisor"][SEG] == factor,
                          z3.ForAll([e_], z3.Implies(e_ != SEG, z3.And(zh["ndiv"][e_] == z3.If(occurs(e_, upto), 1, 0),
                                                                      z3.Implies(occurs(e_, upto), zh["divisor"][e_] == factor)))))
        def inv0(i, st):
            zh = st.zh
            np_ = zh["L_n"][pid]
            # the list of processed self-edges holds exactly the circular edges seen so far
            plist = z3.And(np_ >= 0, zh["next_list"] == h0["next_list"] + 1,
                           z3.ForAll([j2], z3.Implies(z3.And(0 <= j2, j2 < np_), z3.And(circ[zh["L_e"][pid][j2]], occurs(zh["L_e"][pid][j2], i)))),
                           z3.ForAll([j], z3.Implies(z3.And(0 <= j, j < i, circ[el[j]]), z3.Exists([j2], z3.And(0 <= j2, j2 < np_, zh["L_e"][pid][j2] == el[j])))))
            return z3.And(i <= n, state_ok(st, i), plist)
        inv = {("Multiplication.__divide_segment_and_connection_counts", 0): dict(inv=inv0, modheap=["ndiv", "divisor", "L_n", "L_e"], mod={"l": lambda nm: Ref(fresh(nm, I), g.line.edge.Link)})}
        def post(kd, v, st):
            return state_ok(st, n) if kd == "return" else z3.BoolVal(False)
        pre = [n >= 0, factor >= 2, z3.ForAll([j], z3.Implies(z3.And(0 <= j, j < n), el[j] != SEG)),
               z3.ForAll([j, j2], z3.Implies(z3.And(0 <= j, j < j2, j2 < n, el[j] == el[j2]), circ[el[j]]))]
        class SegObj:
            """the segment: .dovetails + .containments is the list of its edges"""
            t = SEG
            def pyvc_attr(self, E, attr, st):
                if attr == "dovetails":
                    yield ("val", edges, st)
                elif attr == "containments":
                    yield ("val", SList(z3.IntVal(0), el, lambda t: Ref(t, g.line.edge.Link)), st)
                else:
                    raise Unsupported("segment.%s" % attr)
        return [Case("edges", [gfa, SegObj(), factor], post, pre=pre, zh=h0, heap={gfa.oid: {}}, models=models, invariants=inv,
                     options=dict(alloc_lists=True, opaque_elems=True), symbols=dict(n_edges_listed=n, factor=factor), minimize=[n],
                     replay=lambda w: {"target": "bounded.replay_helpers:multiply_orchestration_cases"}, confirm=battery_confirm)]


@register
class CloneSegmentAndConnections(Contract):
    fn = "gfapy/graph_operations/multiplication.py::Multiplication._Multiplication__clone_segment_and_connections"
    props = ("C15",)
    fragment = "L"
    doc = ("one copy of the segment is made, named as requested and connected; every dovetail and containment of the segment is cloned exactly "
           "once (an edge of the segment with itself is listed twice and cloned once); in the clone every end that was the segment is the copy "
           "and every other end is unchanged; a named edge gets a fresh name, an unnamed one stays unnamed; each clone is connected once; the "
           "original edges are not modified (loop invariant over the list of edges with the list of those already processed)")

    def cases(self, ctx):
        g = ctx.gfapy
        n = z3.Int("n_edges_listed")
        el = z3.Const("edge_at", AII)
        j, j2, e_, c_ = z3.Int("j"), z3.Int("j2"), z3.Int("e"), z3.Int("c")
        SEGNAME, CLONENAME, PH = z3.IntVal(-10), z3.IntVal(-11), z3.IntVal(-1)
        base = z3.Int("first_new_object")
        EC = g.line.edge.Link
        edges = SList(n, el, lambda t: Ref(t, EC))
        gfa = Obj(g.Gfa, "gfa")
        cpy = Obj(g.line.segment.GFA1, "copy_of_segment")
        f0 = {k: z3.Const(k + "0", AII) for k in ("from_segment", "to_segment", "name")}
        h0 = dict(f0, L_n=z3.Const("L_n", AII), L_e=z3.Const("L_e", z3.ArraySort(I, AII)), next_list=z3.Int("next_list"),
                  next_obj=base, origin=z3.K(I, z3.IntVal(-99)), nclones=z3.K(I, z3.IntVal(0)), connected=z3.K(I, z3.IntVal(0)), fresh_name=z3.K(I, z3.BoolVal(False)))
        pid = h0["next_list"]
        class SegObj:
            def pyvc_attr(self, E, attr, st):
                if attr == "dovetails":
                    yield ("val", edges, st)
                elif attr == "containments":
                    yield ("val", SList(z3.IntVal(0), el, lambda t: Ref(t, EC)), st)
                elif attr == "name":
                    yield ("val", SEGNAME, st)
                elif attr == "clone":
                    yield ("val", _Fn0(lambda: cpy), st)
                else:
                    raise Unsupported("segment.%s" % attr)
        class _Fn0:
            def __init__(self, f):
                self.f = f
            def pyvc_call(self, E, pos, kw, st):
                yield ("val", self.f(), st)
        def m_clone(E, st, pos, kw):
            l = pos[0]
            zh = dict(st.zh)
            c = zh["next_obj"]
            for k in ("from_segment", "to_segment", "name"):
                zh[k] = z3.Store(zh[k], c, zh[k][l.t])
            zh["origin"] = z3.Store(zh["origin"], c, l.t)
            zh["nclones"] = z3.Store(zh["nclones"], l.t, zh["nclones"][l.t] + 1)
            zh["next_obj"] = c + 1
            yield ("val", Ref(c, EC), [], st.with_zh(zh))
        def m_connect(E, st, pos, kw):
            o = pos[0]
            if isinstance(o, Obj):
                yield ("val", None, [], st.with_ghost("segment_copy_connected", int(st.ghost.get("segment_copy_connected", 0)) + 1))
            else:
                zh = dict(st.zh)
                zh["connected"] = z3.Store(zh["connected"], o.t, zh["connected"][o.t] + 1)
                yield ("val", None, [], st.with_zh(zh))
        def m_names(E, st, pos, kw):
            nm = fresh("new_edge_name", I)
            yield ("val", [nm], [nm < -1000])          # a fresh name (ComputeCopyNames): not the placeholder, not the name of either segment
        models = {ctx.fn("gfapy/line/common/cloning.py::Cloning.clone"): m_clone, ctx.fn("gfapy/line/common/connection.py::Connection.connect"): m_connect,
                  ctx.fn("gfapy/graph_operations/multiplication.py::Multiplication._compute_copy_names"): m_names,
                  g.is_placeholder: const_model(lambda v: S(v) == PH)}
        # first occurrence of an edge in the list (n when it is not listed): a function of the list, introduced to avoid an existential
        # quantifier per membership test; the two axioms below hold of the first-occurrence function of ANY list
        fp = z3.Const("first_position_of", AII)
        occurs = lambda e, upto: fp[e] < upto
        def clone_ok(zh, c):
            o = zh["origin"][c]
            side = lambda k: zh[k][c] == z3.If(f0[k][o] == SEGNAME, CLONENAME, f0[k][o])
            return z3.And(zh["connected"][c] == 1, side("from_segment"), side("to_segment"), (zh["name"][c] == PH) == (f0["name"][o] == PH),
                          z3.Implies(f0["name"][o] != PH, zh["name"][c] < -1000))
        def state_ok(st, upto):
            zh = st.zh
            return z3.And(zh["next_obj"] >= base,
                          z3.ForAll([e_], z3.Implies(e_ < base, z3.And(zh["nclones"][e_] == z3.If(occurs(e_, upto), 1, 0),
                                                                      zh["from_segment"][e_] == f0["from_segment"][e_], zh["to_segment"][e_] == f0["to_segment"][e_],
                                                                      zh["name"][e_] == f0["name"][e_], zh["connected"][e_] == 0))),
                          z3.ForAll([c_], z3.Implies(z3.And(base <= c_, c_ < zh["next_obj"]), z3.And(occurs(zh["origin"][c_], upto), zh["origin"][c_] < base, clone_ok(zh, c_)))),
                          z3.ForAll([c_], z3.Implies(c_ >= zh["next_obj"], zh["connected"][c_] == 0)),          # objects not yet allocated are untouched
                          # two clones have two different originals (so: exactly one clone per edge, with nclones)
                          z3.ForAll([c_, e_], z3.Implies(z3.And(base <= c_, c_ < e_, e_ < zh["next_obj"]), zh["origin"][c_] != zh["origin"][e_])))
        def inv0(i, st):
            zh = st.zh
            np_ = zh["L_n"][pid]
            plist = z3.And(np_ >= 0, zh["next_list"] == h0["next_list"] + 1,
                           z3.ForAll([j2], z3.Implies(z3.And(0 <= j2, j2 < np_), occurs(zh["L_e"][pid][j2], i))),
                           z3.ForAll([j], z3.Implies(z3.And(0 <= j, j < i), z3.Exists([j2], z3.And(0 <= j2, j2 < np_, zh["L_e"][pid][j2] == el[j])))))
            return z3.And(i <= n, state_ok(st, i), plist)
        inv = {("Multiplication.__clone_segment_and_connections", 0): dict(inv=inv0, modheap=["L_n", "L_e", "from_segment", "to_segment", "name", "origin", "nclones", "connected", "next_obj"],
                                                                            mod={"l": lambda nm: Ref(fresh(nm, I), EC), "lc": lambda nm: Ref(fresh(nm, I), EC)})}
        def post(kd, v, st):
            if kd != "return":
                return z3.BoolVal(False)
            a = st.attrs(cpy)
            seg_ok = st.ghost.get("segment_copy_connected", 0) == 1 and is_sym(a.get("name")) and z3.is_true(z3.simplify(a["name"] == CLONENAME))
            return z3.And(z3.BoolVal(bool(seg_ok)), state_ok(st, n))
        pre = [n >= 0, base > 0, z3.ForAll([j], z3.Implies(z3.And(0 <= j, j < n), z3.And(0 <= el[j], el[j] < base))),
               z3.ForAll([j], z3.Implies(z3.And(0 <= j, j < n), z3.And(0 <= fp[el[j]], fp[el[j]] <= j))),
               z3.ForAll([e_], z3.And(0 <= fp[e_], fp[e_] <= n, z3.Implies(fp[e_] < n, el[fp[e_]] == e_))),
               z3.ForAll([e_], z3.And(f0["name"][e_] >= -1, f0["from_segment"][e_] != CLONENAME, f0["to_segment"][e_] != CLONENAME))]
        return [Case("edges", [gfa, SegObj(), CLONENAME], post, pre=pre, zh=h0, heap={gfa.oid: {}, cpy.oid: {}}, models=models, invariants=inv,
                     options=dict(alloc_lists=True, opaque_elems=True), symbols=dict(n_edges_listed=n), minimize=[n],
                     replay=lambda w: {"target": "bounded.replay_helpers:multiply_orchestration_cases"}, confirm=battery_confirm)]


@register
class DistributeLinks(Contract):
    fn = "gfapy/graph_operations/multiplication.py::Multiplication._distribute_links"
    props = ("C15",)
    fragment = "H"
    doc = ("_distribute_links(policy, name, copy_names, factor): nothing happens for a factor below 2 or when no end is selected; otherwise, with n links on the selected "
           "end of the original and d = max(n - factor, 0), the m-th member of [original] + copies (m = 0, 1, ...) keeps on that end exactly the links whose "
           "signature (the segment end on the other side) is among the signatures number m .. m+d of the original's links (Python's clamped slice), every other "
           "link of that end which is still connected is disconnected - once - and no other line of the Gfa is touched (loop invariants over the members and over "
           "the links of a member; for all numbers of copies and of links). With DistributeWindowCover (every signature index below n lies in the window of some "
           "member below factor) no former neighbour loses all its links. Assumed: the links on that end of different members are different lines, listed once")

    def cases(self, ctx):
        g = ctx.gfapy
        M = "gfapy/graph_operations/multiplication.py::Multiplication."
        factor, nc = z3.Int("factor"), z3.Int("n_copies")
        no_end = z3.Bool("no_end_selected")
        AIAI = z3.ArraySort(I, AII)
        seg_of = z3.Const("segment_with_name", AII)              # name -> segment
        n_of = z3.Const("n_links_on_the_end", AII)               # segment -> number of dovetails on the selected end
        link_at = z3.Const("link_on_the_end", AIAI)              # segment -> position -> link
        sig = z3.Const("signature_of_link", AII)                 # link -> the segment end on its other side (what repr() shows)
        bogus = z3.Const("signature_seen_from_another_segment", AII)
        owner, posn = z3.Const("member_of_link", AII), z3.Const("position_of_link", AII)      # inverse of link_at over the members (the assumption: no link is listed twice)
        copy_id = z3.Const("copy_name", AII)
        name0 = z3.Int("segment_name")
        conn0 = z3.Const("connected_before", AIB)
        gfa = Obj(g.Gfa, "gfa")
        end = Obj(None, "end_type")
        policy = Obj(None, "policy")
        copies = SList(nc, copy_id, lambda t: Ref(t))
        m, p, q, l = z3.Int("m"), z3.Int("p"), z3.Int("q"), z3.Int("l")
        k_members = nc + 1
        mname = z3.Const("name_of_member", AII)                  # member -> name: the original's name, then the copy names (axioms in the precondition; keeps the quantifier patterns free of arithmetic)
        x_ = z3.Int("x")
        name_of = lambda mm: mname[mm]
        seg_m = lambda mm: seg_of[mname[mm]]
        N = n_of[seg_of[name0]]
        diff = z3.If(N - factor > 0, N - factor, 0)
        def clamp(x):
            x = z3.If(x < 0, x + N, x)
            return z3.If(x < 0, 0, z3.If(x > N, N, x))
        def window(mm):
            lo = clamp(mm); hi = clamp(mm + diff + 1)
            return lo, z3.If(hi < lo, lo, hi)
        def inwin(mm, s_):
            lo, hi = window(mm)
            return z3.Exists([q], z3.And(lo <= q, q < hi, sig[link_at[seg_of[name0]][q]] == s_))
        class SE:                                                # a gfapy.SegmentEnd(name, end_type) built by the code
            def __init__(self, name, et):
                self.name, self.et = name, et
        def m_se(E, st, pos, kw):
            yield ("val", SE(pos[0], pos[1]), [])
        def m_other_end(E, st, pos, kw):
            lk, se = pos[0], pos[1]
            if not isinstance(se, SE) or not isinstance(se.name, Ref) or se.et is not end:
                raise Unsupported("other_end(%r)" % (se,))
            # the link must be asked from the segment on whose end it was listed: lk is link_on_the_end[segment_with_name[NAME]][position], se must carry that NAME
            t = z3.simplify(lk.t)                            # (beta reduction of the list's element function)
            try:
                listed_for = t.arg(0).arg(1).arg(1)
                ok = z3.is_select(t) and z3.eq(t.arg(0).arg(0), link_at) and z3.eq(t.arg(0).arg(1).arg(0), seg_of) and z3.eq(z3.simplify(listed_for), z3.simplify(se.name.t))
            except Exception:
                ok = False
            if not ok:
                raise Unsupported("other_end: the segment end is not the one the link was listed on (%s / %s)" % (t, se.name.t))
            yield ("val", Ref(sig[t], "signature"), [])
        def m_repr(E, st, pos, kw):
            yield ("val", pos[0], [])                         # (repr is injective on segment ends: the text stands for the end)
        def m_segment(E, st, pos, kw):
            yield ("val", Ref(seg_of[pos[1].t], g.line.segment.GFA1), [])
        def m_dov(E, st, pos, kw):
            if pos[1] is not end:
                raise Unsupported("dovetails_of_end(%r)" % (pos[1],))
            sg = pos[0].t
            x = z3.Int("x!dov")
            yield ("val", SList(n_of[sg], z3.Lambda([x], link_at[sg][x]), lambda t: Ref(t, g.line.edge.Link)), [])
        def m_select(E, st, pos, kw):
            ok = pos[1] is policy and isinstance(pos[2], Ref) and pos[3] is factor
            if not ok:
                raise Unsupported("_select_distribute_end called with other arguments")
            yield ("val", None, [no_end])
            yield ("val", end, [z3.Not(no_end)])
        def m_is_connected(E, st, pos, kw):
            yield ("val", st.zh["connected"][pos[0].t], [])
        def m_disconnect(E, st, pos, kw):
            zh = dict(st.zh)
            # (disconnecting a line which is not connected raises: the code must ask first)
            yield ("raise", Exc(g.RuntimeError), [z3.Not(st.zh["connected"][pos[0].t])], st)
            zh["connected"] = z3.Store(zh["connected"], pos[0].t, z3.BoolVal(False))
            zh["n_disconnects"] = zh["n_disconnects"] + 1
            yield ("val", None, [st.zh["connected"][pos[0].t]], st.with_zh(zh))
        import builtins
        models = {ctx.fn(M + "_select_distribute_end"): m_select, ctx.fn("gfapy/lines/finders.py::Finders.segment"): m_segment,
                  ctx.fn("gfapy/line/segment/references.py::References.dovetails_of_end"): m_dov,
                  g.SegmentEnd: m_se, g.line.edge.Link.other_end: m_other_end, builtins.repr: m_repr,
                  ctx.fn("gfapy/line/common/connection.py::Connection.is_connected"): m_is_connected,
                  ctx.fn("gfapy/line/common/disconnection.py::Disconnection.disconnect"): m_disconnect}
        def listed(ll):
            return z3.And(0 <= owner[ll], owner[ll] < k_members)
        def done_state(C, upto_m, upto_p):
            """every link of a member below upto_m, and of member upto_m below position upto_p, is settled; every other line is as before"""
            settled = z3.And(listed(l), z3.Or(owner[l] < upto_m, z3.And(owner[l] == upto_m, posn[l] < upto_p)))
            return z3.ForAll([l], C[l] == z3.If(settled, z3.And(conn0[l], inwin(owner[l], sig[l])), conn0[l]))
        label = "Multiplication._distribute_links"
        def inv_outer(i, st):
            return z3.And(0 <= i, i <= k_members, done_state(st.zh["connected"], i, 0))
        def inv_inner(j_, st):
            i = S(st.env["i"])
            return z3.And(0 <= i, i < k_members, 0 <= j_, j_ <= n_of[seg_m(i)], st.env["sn"].t == name_of(i), done_state(st.zh["connected"], i, j_))
        inv = {(label, 0): dict(inv=inv_outer, modheap=["connected", "n_disconnects"], mod={"i": lambda nm: fresh(nm, I), "sn": lambda nm: Ref(fresh(nm, I))}),
               (label, 1): dict(inv=inv_inner, modheap=["connected", "n_disconnects"], mod={"l": lambda nm: Ref(fresh(nm, I), g.line.edge.Link)})}
        pre = [nc >= 0, mname[0] == name0, z3.ForAll([x_], z3.Implies(z3.And(0 <= x_, x_ < nc), mname[x_ + 1] == copy_id[x_]), patterns=[copy_id[x_]]),
               z3.ForAll([m], z3.Implies(z3.And(0 <= m, m < k_members), n_of[seg_m(m)] >= 0)),
               # the links on the selected end of the members are pairwise different lines: owner / position invert link_at
               z3.ForAll([m, p], z3.Implies(z3.And(0 <= m, m < k_members, 0 <= p, p < n_of[seg_m(m)]), z3.And(owner[link_at[seg_m(m)][p]] == m, posn[link_at[seg_m(m)][p]] == p))),
               z3.ForAll([l], z3.Implies(listed(l), z3.And(0 <= posn[l], posn[l] < n_of[seg_m(owner[l])], link_at[seg_m(owner[l])][posn[l]] == l)))]
        h0 = {"connected": conn0, "n_disconnects": z3.IntVal(0)}
        def post(kd, v, st):
            if kd == "raise":
                return z3.BoolVal(False)
            C = st.zh["connected"]
            idle = z3.Or(factor < 2, no_end)
            return z3.And(z3.Implies(idle, z3.And(C == conn0, st.zh["n_disconnects"] == 0)),
                          z3.Implies(z3.Not(idle), done_state(C, k_members, 0)))
        return [Case("windows", [gfa, policy, Ref(name0), copies, factor], post, pre=pre, zh=h0, heap={gfa.oid: {}, end.oid: {}, policy.oid: {}}, models=models, invariants=inv,
                     symbols=dict(factor=factor, n_copies=nc), minimize=[nc, factor],
                     replay=lambda w: {"target": "bounded.replay_helpers:distribute_links_cases"}, confirm=battery_confirm)]
