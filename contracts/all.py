"""imports every contract module (registration order = report order)"""
from . import common, c11, fields, c06, kernels, cigar, refs, c04_line, frames, setfield, creators, updrefs, pathlists, entry, headers, tags, connect, sameid, pathlinks, tables, clone, writer, multiply, segsyntax, topology, lineeq, groups, registry, small  # noqa
