"""C13 / C14 — finite tables of the library that carry a property: every entry is one obligation, evaluated on the constants of the
module loaded from the tree under verification (no input to search: a refuted entry IS the failing input)."""
import z3
from pyvc.contract import Contract, Case, register
from pyvc.dsl import *
from pyvc.values import *


def _obl(cid, name, ok, witness=None):
    d = dict(name="%s/%s" % (cid, name), verdict="unsat" if ok else "sat", backend="table", seconds=0.0, backends={"table": ["unsat" if ok else "sat", 0.0]})
    if not ok:
        d["witness"] = witness or {}
        d["confirmed"] = True          # the entry read from the real module is the counterexample
        d["case"] = name
    return d


IUPAC = {"A": "T", "C": "G", "G": "C", "T": "A", "U": "A", "R": "Y", "Y": "R", "K": "M", "M": "K", "B": "V", "V": "B", "D": "H", "H": "D",
         "S": "S", "W": "W", "N": "N"}        # complement of each IUPAC nucleotide code (A/T, C/G and the ambiguity codes as sets)


@register
class WatsonCrickTable(Contract):
    fn = "gfapy/sequence.py::rc"
    props = ("C14",)
    fragment = "T"
    doc = ("the Watson-Crick table used when a segment is merged in reverse: every IUPAC code maps to its complement in both cases, gap characters "
           "to themselves, blanks are dropped; complementing twice is the identity on the DNA codes")

    def custom(self, ctx, tier):
        W = ctx.gfapy.sequence.WCC
        out = []
        for c, d in IUPAC.items():
            for a, b in ((c, d), (c.lower(), d.lower())):
                out.append(_obl("WatsonCrickTable", "complement-of-%s" % a, W.get(a) == b, {"char": a, "table_says": W.get(a), "IUPAC": b}))
        for c in "-.=":
            out.append(_obl("WatsonCrickTable", "gap-char-%s" % c, W.get(c) == c, {"char": c, "table_says": W.get(c)}))
        for c in " \n":
            out.append(_obl("WatsonCrickTable", "blank-%r-dropped" % c, W.get(c) == "", {"char": c, "table_says": W.get(c)}))
        for c in "ACGTRYKMBVDHSWNacgtrykmbvdhswn":
            out.append(_obl("WatsonCrickTable", "involution-%s" % c, W.get(W.get(c, ""), None) == c, {"char": c}))
        out.append(_obl("WatsonCrickTable", "no-other-entries", set(W) == set(IUPAC) | {x.lower() for x in IUPAC} | set("-.= \n"), {"extra": sorted(set(W) - (set(IUPAC) | {x.lower() for x in IUPAC} | set("-.= \n")))}))
        return out


@register
class VersionTables(Contract):
    fn = "gfapy/lines/creators.py::Creators.add_line"
    props = ("C13",)
    fragment = "T"
    doc = ("the tables that decide which line classes a Gfa of each version refuses: Lines.GFA1Specific holds exactly the classes of the GFA1-only "
           "records (L, C, P, GFA1 segment), Lines.GFA2Specific exactly those of the GFA2-only ones (E, F, G, O, U, custom, unknown, GFA2 segment), "
           "and Construction.RECORD_TYPE_VERSIONS assigns every record type to its version")

    def custom(self, ctx, tier):
        g = ctx.gfapy
        want1 = {g.line.edge.Link, g.line.edge.Containment, g.line.group.Path, g.line.segment.GFA1}
        want2 = {g.line.CustomRecord, g.line.Fragment, g.line.Gap, g.line.edge.GFA2, g.line.segment.GFA2, g.line.group.Unordered, g.line.group.Ordered, g.line.Unknown}
        out = []
        for c in sorted(want1, key=lambda c: c.__name__):
            out.append(_obl("VersionTables", "GFA1Specific-has-%s" % c.__name__, c in g.Lines.GFA1Specific, {"missing": c.__name__}))
        for c in sorted(want2, key=lambda c: c.__name__):
            out.append(_obl("VersionTables", "GFA2Specific-has-%s" % c.__name__, c in g.Lines.GFA2Specific, {"missing": c.__name__}))
        out.append(_obl("VersionTables", "GFA1Specific-has-nothing-else", set(g.Lines.GFA1Specific) <= want1, {"extra": [c.__name__ for c in set(g.Lines.GFA1Specific) - want1]}))
        out.append(_obl("VersionTables", "GFA2Specific-has-nothing-else", set(g.Lines.GFA2Specific) <= want2, {"extra": [c.__name__ for c in set(g.Lines.GFA2Specific) - want2]}))
        T = g.Line.RECORD_TYPE_VERSIONS
        out.append(_obl("VersionTables", "record-types-gfa1-only", sorted(T["specific"]["gfa1"]) == ["C", "L", "P"], {"table": T["specific"]["gfa1"]}))
        out.append(_obl("VersionTables", "record-types-gfa2-only", sorted(x for x in T["specific"]["gfa2"] if x != "\n") == ["E", "F", "G", "O", "U"], {"table": T["specific"]["gfa2"]}))
        out.append(_obl("VersionTables", "record-types-generic", sorted(T["generic"]) == ["#", "H"] and T["different"] == ["S"], {"table": [T["generic"], T["different"]]}))
        return out


@register
class DefaultTagDatatypeTable(Contract):
    fn = "gfapy/field/field.py::Field._get_default_gfa_tag_datatype"
    props = ("C20",)
    fragment = "T"
    doc = ("the documented default datatype of a new tag, per class of Python value: the class table of the library holds exactly int->i, "
           "float->f, dict->J, list->J, anything else->Z, in this order (the catch-all last); a list of integers or of floats is a numeric "
           "array (B); the value classes of the library name their own datatype (NumericArray B, ByteArray H, FieldArray: that of its "
           "elements); each entry is evaluated on the function itself with a representative value")

    def custom(self, ctx, tier):
        import builtins
        g = ctx.gfapy
        T = list(g.Field._default_tag_datatypes)
        want = [(builtins.int, "i"), (builtins.float, "f"), (builtins.dict, "J"), (builtins.list, "J"), (builtins.object, "Z")]
        out = [_obl("DefaultTagDatatypeTable", "class-table-as-documented", T == want, {"table": [(k.__name__, v) for k, v in T]})]
        f = g.Field._get_default_gfa_tag_datatype
        reps = [("int", 5, "i"), ("negative-int", -3, "i"), ("big-int", 2 ** 70, "i"), ("float", 1.5, "f"), ("float-zero", 0.0, "f"), ("str", "text", "Z"), ("one-char-str", "x", "Z"),
                ("dict", {"a": 1}, "J"), ("empty-dict", {}, "J"), ("list-of-ints", [1, 2], "B"), ("list-of-floats", [1.5, 2.5], "B"), ("mixed-list", [1, 2.5], "J"),
                ("list-of-str", ["a"], "J"), ("nested-list", [[1]], "J"), ("list-with-dict", [{"a": 1}], "J"),
                ("NumericArray-int", g.NumericArray([1, 2]), "B"), ("NumericArray-float", g.NumericArray([1.5]), "B"), ("ByteArray", g.ByteArray([1, 2]), "H"),
                ("FieldArray-of-i", g.FieldArray("i", [1, 2]), "i"), ("FieldArray-of-J", g.FieldArray("J", [[1]]), "J")]
        for name, v, dt in reps:
            try:
                got = f(v)
            except Exception as e:
                got = "raises %s" % type(e).__name__
            out.append(_obl("DefaultTagDatatypeTable", "default-of-%s-is-%s" % (name, dt), got == dt, {"value": repr(v), "got": got, "documented": dt}))
        return out


@register
class DependentLinesTables(Contract):
    fn = "gfapy/line/common/disconnection.py::Disconnection._disconnect_dependent_lines"
    props = ("C05", "C02")
    fragment = "T"
    doc = ("the tables the removal cascade walks (DEPENDENT_LINES of each line class; contract DisconnectDependentLines: every line of every listed collection, "
           "once): a segment lists all its edge collections, its gaps, fragments, paths and sets; a link its paths; a GFA2 edge, an ordered group, an "
           "unordered group and a placeholder of unknown type both their paths and their sets (a group of either kind may be listed by a group of either kind); "
           "a gap lists no dependants (its mentions are dropped, contract RemoveNonfieldBackreferences) - and every key is a collection the class really has")

    def custom(self, ctx, tier):
        g = ctx.gfapy
        want = {g.line.segment.GFA1: {"dovetails_L", "dovetails_R", "edges_to_contained", "edges_to_containers", "paths"},
                g.line.segment.GFA2: {"dovetails_L", "dovetails_R", "edges_to_contained", "edges_to_containers", "internals", "gaps_L", "gaps_R", "fragments", "paths", "sets"},
                g.line.edge.Link: {"paths"}, g.line.edge.Containment: set(), g.line.edge.GFA2: {"paths", "sets"},
                g.line.group.Ordered: {"paths", "sets"}, g.line.group.Unordered: {"paths", "sets"}, g.line.Unknown: {"paths", "sets"},
                g.line.Gap: set(), g.line.group.Path: set(), g.line.Fragment: set()}
        out = []
        for c, w in sorted(want.items(), key=lambda kv: kv[0].__module__ + kv[0].__name__):
            have = set(c.DEPENDENT_LINES)
            nm = "%s.%s" % (c.__module__.split(".")[-1], c.__name__)
            out.append(_obl("DependentLinesTables", "%s-lists-every-collection-of-dependants" % nm, w <= have, {"missing": sorted(w - have)}))
            out.append(_obl("DependentLinesTables", "%s-lists-nothing-else" % nm, have <= w, {"extra": sorted(have - w)}))
        return out
