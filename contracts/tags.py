"""C05 / C20 — FieldData.delete: deleting a tag removes its value AND its datatype, so that the tag is as if it had never been
present (the next value set under that name decides its datatype afresh); an absent tag changes nothing."""
import z3
from pyvc.contract import Contract, Case, register
from pyvc.dsl import *
from pyvc.values import *


class OneKeyDict:
    """a dict observed at one key: symbolic membership; pop / del are recorded in ghost state under `gname`"""
    def __init__(self, has, gname, value=None):
        self.has, self.gname, self.value = has, gname, value

    def pyvc_contains(self, E, x):
        return self.has

    def pyvc_attr(self, E, attr, st):
        if attr == "pop":
            yield ("val", _Pop(self), st)
        elif attr == "keys":
            raise Unsupported("keys() of a one-key dict")
        else:
            raise Unsupported("dict.%s" % attr)


class _Pop:
    def __init__(self, d):
        self.d = d

    def pyvc_call(self, E, pos, kw, st):
        d = self.d
        already = st.ghost.get(d.gname, False)
        if already:
            raise Unsupported("second pop")
        if len(pos) == 1:
            yield ("raise", Exc(KeyError), st.assume(z3.Not(d.has)))
        yield ("val", d.value, st.assume(d.has).with_ghost(d.gname, True))


class KeySet:
    def __init__(self, has):
        self.has = has

    def pyvc_contains(self, E, x):
        return self.has


@register
class DeleteTag(Contract):
    fn = "gfapy/line/common/field_data.py::FieldData.delete"
    props = ("C05", "C20")
    doc = ("delete(tag): when the tag is defined its value is removed from _data and its datatype from _datatype (when recorded) and the value is "
           "returned; when it is not defined nothing is touched and None is returned; no KeyError")

    def cases(self, ctx):
        g = ctx.gfapy
        has_tag, has_dt = z3.Bool("tag_defined"), z3.Bool("datatype_recorded")
        tag = z3.String("tagname")
        val = Obj(None, "value")
        s = Obj(g.Line, "line")
        heap = {s.oid: {"_data": OneKeyDict(has_tag, "popped_value", val), "_datatype": OneKeyDict(has_dt, "popped_datatype", "dt")}, val.oid: {}}
        models = {g.Line.tagnames.fget: const_model(lambda self_: KeySet(has_tag))}
        def post(k, v, st):
            if k == "raise":
                return z3.BoolVal(False)
            pv, pd = bool(st.ghost.get("popped_value")), bool(st.ghost.get("popped_datatype"))
            returned_value = isinstance(v, Obj) and v.oid == val.oid
            return z3.And(z3.BoolVal(pv) == has_tag, z3.BoolVal(pd) == z3.And(has_tag, has_dt), z3.BoolVal(returned_value) == has_tag, z3.BoolVal(v is None) == z3.Not(has_tag))
        return [Case("tag", [s, tag], post, heap=heap, models=models, symbols=dict(tag_defined=has_tag, datatype_recorded=has_dt),
                     replay=lambda w: {"target": "bounded.replay_helpers:delete_tag_cases"},
                     confirm=lambda w, out: out.get("kind") != "return" or out.get("value") is not True, expect_paths=3)]
