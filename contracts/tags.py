"""C05 / C20 — FieldData.delete: deleting a tag removes its value AND its datatype, so that the tag is as if it had never been
present (the next value set under that name decides its datatype afresh); an absent tag changes nothing."""
import z3
from pyvc.contract import Contract, Case, register
from pyvc.dsl import *
from pyvc.values import *


class OneKeyDict:
    """a dict observed at one key: symbolic membership; pop / del are recorded in ghost state under `gname`"""
    def __init__(self, has, gname, value=None):
        self.has, self.gname, self.value = has, gname, value

    def pyvc_contains(self, E, x):
        return self.has

    def pyvc_getitem(self, E, i, st):
        if E.feasible(st, z3.Not(self.has)):
            yield ("raise", Exc(KeyError), st.assume(z3.Not(self.has)))
        yield ("val", self.value, st.assume(self.has))

    def pyvc_attr(self, E, attr, st):
        if attr == "pop":
            yield ("val", _Pop(self), st)
        elif attr == "keys":
            raise Unsupported("keys() of a one-key dict")
        else:
            raise Unsupported("dict.%s" % attr)


class _Pop:
    def __init__(self, d):
        self.d = d

    def pyvc_call(self, E, pos, kw, st):
        d = self.d
        already = st.ghost.get(d.gname, False)
        if already:
            raise Unsupported("second pop")
        if len(pos) == 1:
            if E.feasible(st, z3.Not(d.has)):
                yield ("raise", Exc(KeyError), st.assume(z3.Not(d.has)))
        elif E.feasible(st, z3.Not(d.has)):
            yield ("val", pos[1], st.assume(z3.Not(d.has)))
        if E.feasible(st, d.has):
            yield ("val", d.value, st.assume(d.has).with_ghost(d.gname, True))


class KeySet:
    def __init__(self, has):
        self.has = has

    def pyvc_contains(self, E, x):
        return self.has


@register
class DeleteTag(Contract):
    fn = "gfapy/line/common/field_data.py::FieldData.delete"
    props = ("C05", "C20", "C09")
    doc = ("delete(tag): when the tag is defined its value is removed from _data and its datatype from _datatype (when recorded) and the value is "
           "returned; when it is not defined nothing is touched and None is returned; no KeyError. (C09) when the tag is the identifier of a line "
           "that belongs to a Gfa (ID of a link / containment) the removal goes through the renaming path (_set_existing_field(tag, None): "
           "unregister, drop, register again), never a bare pop that would leave the registry stale")

    def cases(self, ctx):
        g = ctx.gfapy
        out = []
        for cls, label in ((g.line.segment.GFA1, "segment"), (g.line.edge.Link, "link"), (g.line.edge.Containment, "containment"), (g.line.edge.GFA2, "edge2")):
            has_tag, has_dt = z3.Bool("tag_defined"), z3.Bool("datatype_recorded")
            connected = z3.Bool("connected")
            tag, ptag = enum("tagname", ["ID", "xx"])
            val = Obj(None, "value")
            gfa = Obj(g.Gfa, "gfa")
            s = Obj(cls, "line")
            heap = {s.oid: {"_data": OneKeyDict(has_tag, "popped_value", val), "_datatype": OneKeyDict(has_dt, "popped_datatype", "dt"), "_gfa": Opt(z3.Not(connected), gfa)},
                    val.oid: {}, gfa.oid: {}}
            def m_set_existing(E, st, pos, kw):
                self_, fn_, v_ = pos[:3]
                yield ("val", None, [], st.with_ghost("renamed", (fn_, v_)))
            models = {g.Line.tagnames.fget: const_model(lambda self_, has_tag=has_tag: KeySet(has_tag)),
                      ctx.fn("gfapy/line/common/field_data.py::FieldData._set_existing_field"): m_set_existing}
            is_name = z3.BoolVal(False)
            if cls.STORAGE_KEY == "name" and getattr(cls, "NAME_FIELD", None) in ("ID",):
                is_name = z3.And(connected, tag == sv(cls.NAME_FIELD))
            def post(k, v, st, has_tag=has_tag, has_dt=has_dt, is_name=is_name, val=val, tag=tag):
                if k == "raise":
                    return z3.BoolVal(False)
                pv, pd = bool(st.ghost.get("popped_value")), bool(st.ghost.get("popped_datatype"))
                ren = st.ghost.get("renamed")
                renamed_to_none = ren is not None and ren[1] is None
                ren_field_ok = z3.BoolVal(False) if ren is None else (S(ren[0]) == tag)
                returned_value = isinstance(v, Obj) and v.oid == val.oid
                via_rename = z3.And(has_tag, is_name)
                return z3.And(z3.BoolVal(returned_value) == has_tag, z3.BoolVal(v is None) == z3.Not(has_tag),
                              z3.If(via_rename, z3.And(z3.BoolVal(renamed_to_none), ren_field_ok, z3.BoolVal(not pv)),
                                    z3.And(z3.BoolVal(ren is None), z3.BoolVal(pv) == has_tag)),
                              z3.BoolVal(pd) == z3.And(has_tag, has_dt))
            out.append(Case(label, [s, tag], post, pre=[ptag], heap=heap, models=models,
                            symbols=dict(tag_defined=has_tag, datatype_recorded=has_dt, connected=connected, tagname=tag),
                            replay=lambda w: {"target": "bounded.replay_helpers:delete_tag_cases"},
                            confirm=battery_confirm, expect_paths=3))
        return out
