"""C02 / C05 — the list helpers that maintain the back-reference collections (`_refs`: dict of list objects with identity)."""
import z3
from pyvc.contract import Contract, Case, register
from pyvc.dsl import *
from pyvc.values import *

AII = z3.ArraySort(I, I)


def as_opt(v):
    if isinstance(v, Opt):
        return v
    if v is None:
        return Opt(z3.BoolVal(True), z3.IntVal(0))
    return Opt(z3.BoolVal(False), S(v))


def refs_heap():
    """heap of list objects: L_n (id -> length), L_e (id -> elements), refs (owner -> key -> list id), refs_has (owner -> key -> bool)"""
    return {"L_n": z3.Const("L_n", AII), "L_e": z3.Const("L_e", z3.ArraySort(I, AII)),
            "refs": z3.Const("refs", z3.ArraySort(I, z3.ArraySort(Str, I))),
            "refs_has": z3.Const("refs_has", z3.ArraySort(I, z3.ArraySort(Str, B))), "next_list": z3.Int("next_list"),
            "refs_nonempty": z3.Const("refs_nonempty", z3.ArraySort(I, B))}


@register
class DeleteReference(Contract):
    fn = "gfapy/line/common/disconnection.py::Disconnection._delete_reference"
    props = ("C02", "C05", "C11")
    fragment = "L"
    doc = ("_delete_reference(line, key): if key is present and line occurs in self._refs[key], exactly ONE occurrence is removed, "
           "the order of the others is kept; otherwise the list is unchanged; no KeyError / IndexError; loop invariant: idx is the last "
           "position < i holding line, or None")

    def cases(self, ctx):
        g = ctx.gfapy
        h0 = refs_heap()
        selfo, line = Ref(z3.Int("self"), g.Line), Ref(z3.Int("line"), g.Line)
        key = z3.String("key")
        lid0 = h0["refs"][selfo.t][key]; n0 = h0["L_n"][lid0]; e0 = h0["L_e"][lid0]
        j, k, last = z3.Ints("j k last")
        pre = [n0 >= 0, lid0 < h0["next_list"]]
        def inv0(i, st):
            idx = as_opt(st.env["idx"])
            return z3.And(i <= n0, z3.If(idx.isnone, z3.ForAll([j], z3.Implies(z3.And(0 <= j, j < i), e0[j] != line.t)),
                                       z3.And(0 <= idx.val, idx.val < i, e0[idx.val] == line.t,
                                              z3.ForAll([j], z3.Implies(z3.And(idx.val < j, j < i), e0[j] != line.t)))))
        inv = {("Disconnection._delete_reference", 0): dict(inv=inv0, mod={"idx": lambda nm: Opt(fresh(nm + "_none", B), fresh(nm, I))})}
        def post(kd, v, st):
            if kd == "raise":
                return z3.BoolVal(False)
            h = st.zh
            lid1 = h["refs"][selfo.t][key]; n1 = h["L_n"][lid1]; e1 = h["L_e"][lid1]
            has = h0["refs_has"][selfo.t][key]
            occurs = z3.Exists([j], z3.And(0 <= j, j < n0, e0[j] == line.t))
            unchanged = z3.And(n1 == n0, z3.ForAll([k], z3.Implies(z3.And(0 <= k, k < n0), e1[k] == e0[k])))
            # WHICH occurrence is removed is not pinned by the property (the code removes the last one)
            removed = z3.Exists([last], z3.And(0 <= last, last < n0, e0[last] == line.t,
                                               n1 == n0 - 1, z3.ForAll([k], z3.Implies(z3.And(0 <= k, k < n1), e1[k] == z3.If(k < last, e0[k], e0[k + 1])))))
            return z3.If(z3.And(has, occurs), removed, z3.Implies(has, unchanged))
        def replay(w):
            return {"target": "bounded.replay_helpers:delete_reference_cases"}
        def confirm(w, out):
            return battery_confirm(w, out)
        return [Case("refs", [selfo, line, key], post, pre=pre, zh=h0, invariants=inv, symbols={"key": key}, replay=replay, confirm=confirm)]


@register
class AddReference(Contract):
    fn = "gfapy/line/common/connection.py::Connection._add_reference"
    props = ("C02", "C11", "C16")
    fragment = "L"
    doc = ("_add_reference(line, key, append): exactly one occurrence of line is added to self._refs[key] (at the end, or at the front when "
           "append is false); the other elements keep their order; a missing key is created")

    def cases(self, ctx):
        g = ctx.gfapy
        h0 = refs_heap()
        selfo, line = Ref(z3.Int("self"), g.Line), Ref(z3.Int("line"), g.Line)
        key = z3.String("key")
        app = z3.Bool("append")
        lid0 = h0["refs"][selfo.t][key]; n0 = h0["L_n"][lid0]; e0 = h0["L_e"][lid0]
        has0 = h0["refs_has"][selfo.t][key]
        k = z3.Int("k")
        kq = z3.String("kq")
        pre = [n0 >= 0, lid0 < h0["next_list"],
               # a dict is falsy iff it has no key
               z3.Or(h0["refs_nonempty"][selfo.t], z3.ForAll([kq], z3.Not(h0["refs_has"][selfo.t][kq]))), z3.Implies(has0, h0["refs_nonempty"][selfo.t])]
        def post(kd, v, st):
            if kd == "raise":
                return z3.BoolVal(False)
            h = st.zh
            lid1 = h["refs"][selfo.t][key]; n1 = h["L_n"][lid1]; e1 = h["L_e"][lid1]
            nb = z3.If(has0, n0, 0)
            return z3.And(h["refs_has"][selfo.t][key], n1 == nb + 1,
                          z3.If(app, z3.And(e1[nb] == line.t, z3.ForAll([k], z3.Implies(z3.And(0 <= k, k < nb), e1[k] == e0[k]))),
                                z3.And(e1[0] == line.t, z3.ForAll([k], z3.Implies(z3.And(0 <= k, k < nb), e1[k + 1] == e0[k])))))
        return [Case("refs", [selfo, line, key, app], post, pre=pre, zh=h0, symbols={"key": key, "append": app},
                     replay=lambda w: {"target": "bounded.replay_helpers:add_reference_cases"},
                     confirm=battery_confirm)]
