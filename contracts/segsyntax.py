"""C13 / C01 — Segment._subclass: the syntax of an S line (GFA1: name, sequence; GFA2: name, length, sequence) is told by counting the
fields in front of the maximal run of tag-looking fields at the end of the line.  Two parts: (a) the counting loop, over all numbers
of fields, with the tag test abstracted to one Boolean per field; (b) the tag test itself: the regular expression read from the
source accepts every field that has the syntax of a tag of ANY datatype (A i f Z J H B) - a language inclusion on the constant."""
import ast, re, z3
from pyvc.contract import Contract, Case, register
from pyvc.dsl import *
from pyvc.values import *
from pyvc import frontend, rx

AIB = z3.ArraySort(I, B)


class Fld:
    def __init__(self, t):
        self.t = t


@register
class SegmentSyntaxFromFields(Contract):
    id = "SegmentSyntaxFromFields"
    fn = "gfapy/line/segment/segment.py::Segment._subclass"
    props = ("C13", "C01", "C04")
    fragment = "L"
    doc = ("let k be the number of fields between the record type and the maximal run of tag-looking fields that ends the line: GFA1 "
           "segment iff k = 2, GFA2 segment iff k = 3, FormatError otherwise (loop invariant over a descending index, any number of fields); "
           "and every field with the syntax of a tag - of every datatype A i f Z J H B - looks like a tag to the test the loop uses")

    def cases(self, ctx):
        g = ctx.gfapy
        n = z3.Int("n_fields")
        tagish = z3.Const("looks_like_tag", AIB)
        k, p = z3.Int("k"), z3.Int("p")
        data = SList(n, z3.Lambda([k], k), lambda t: Fld(t))
        pats = []
        def m_search(E, st, pos, kw):
            pat, x = pos
            pats.append(pat)
            yield ("val", Opt(z3.Not(tagish[x.t]), Obj(None, "match")), [])
        def run_of_tags(lo, st=None):
            return z3.ForAll([p], z3.Implies(z3.And(lo < p, p <= n - 1), tagish[p]))
        def inv0(j, st):
            return z3.And(j <= n - 1, S(st.env["n_positionals"]) == n - 1 - j, run_of_tags(n - 1 - j))
        inv = {("Segment._subclass", 0): dict(inv=inv0, mod={"n_positionals": lambda nm: fresh(nm, I), "i": lambda nm: fresh(nm, I)})}
        kk = z3.Int("k_fields_before_the_tags")
        is_k = z3.And(0 <= kk, kk <= n - 1, z3.Or(kk == 0, z3.Not(tagish[kk])), run_of_tags(kk))
        def post(kd, v, st):
            if kd == "raise":
                return z3.And(z3.BoolVal(v.cls is g.FormatError), z3.ForAll([kk], z3.Implies(is_k, z3.And(kk != 2, kk != 3))))
            want = 2 if v is g.line.segment.GFA1 else 3 if v is g.line.segment.GFA2 else -1
            return z3.ForAll([kk], z3.Implies(is_k, kk == want))
        def extra(E, paths):
            # (b) the regular expression of the tag test, as found in the source, against the tag syntax of the specification
            node, info = frontend.load_function(ctx.repo, self.func(ctx))
            consts = [c.value for c in ast.walk(node) if isinstance(c, ast.Constant) and isinstance(c.value, str) and ":" in c.value]
            obls = [("tag-test:one-regular-expression-in-the-source", [], z3.BoolVal(len(consts) == 1 and set(pats) == set(consts)))]
            if len(consts) == 1:
                s = z3.String("field")
                impl = rx.search_lang(consts[0])
                for dt in "AifZJHB":
                    spec = rx.match_lang(r"[A-Za-z][A-Za-z0-9]:%s:[ -~]*$" % dt)
                    obls.append(("tag-test:accepts-every-%s-tag" % dt, [z3.InRe(s, spec)], z3.InRe(s, impl)))
            return obls
        return [Case("fields", [data], post, pre=[n >= 1], models={re.search: m_search}, invariants=inv, symbols=dict(n_fields=n), minimize=[n], extra=extra,
                     replay=lambda w: {"target": "bounded.replay_helpers:segment_syntax_cases"}, confirm=battery_confirm)]
