"""C08 / C09 / C02 — Connection.connect: the order of checks and commits when a line joins a Gfa.
Ghost `events` records the calls; heap fields of the other lines of the Gfa: virtual, has_refs, disconnected."""
import z3
from pyvc.contract import Contract, Case, register
from pyvc.dsl import *
from pyvc.values import *

AII = z3.ArraySort(I, I)
AIB = z3.ArraySort(I, B)


def ev(st, name):
    return st.with_ghost("events", tuple(st.ghost.get("events", ())) + (name,))


@register
class Connect(Contract):
    fn = "gfapy/line/common/connection.py::Connection.connect"
    props = ("C08", "C09", "C02", "C05", "C03")
    fragment = "H"
    doc = ("connect(gfa): a line already connected, one that refers to its own identifier, or one whose identifier is known as a placeholder of another record type, is refused before anything is touched; the duplicate "
           "search precedes every write; a duplicate is handed to _substitute_virtual_line (virtual) or _process_not_unique (real) and nothing "
           "else is done here; otherwise the owner is set, the references are initialised and only then the line is registered - exactly once; "
           "if the initialisation raises, the four take-back helpers run, the owner is reset to None, the line is NOT registered and the same "
           "exception propagates; of the other lines of the Gfa only virtual lines registered DURING this call (the log opened by the outermost "
           "connect) may be disconnected - nothing that existed before is touched (loop invariant); the log is closed again on every exit of the "
           "connect that opened it and left alone by a nested connect")

    def cases(self, ctx):
        g = ctx.gfapy
        connected, selfref, dup, dup_virtual, init_ok = z3.Bool("already_connected"), z3.Bool("refers_to_own_name"), z3.Bool("duplicate_found"), z3.Bool("duplicate_is_virtual"), z3.Bool("references_can_be_initialised")
        outer = z3.Bool("no_other_line_is_being_connected")
        same_type = z3.Bool("placeholder_has_the_same_record_type")
        n = z3.Int("n_new_virtual_lines")
        h0 = {"vl_connected": z3.Const("vl_connected", AIB), "has_refs": z3.Const("has_refs", AIB), "disconnected": z3.Const("disconnected", AIB)}
        k, j, t = z3.Int("k"), z3.Int("j"), z3.Int("t")
        log_el = z3.Const("new_virtual_line", AII)
        log = SList(n, log_el, lambda x: Ref(x, g.Line))
        s = Obj(g.Line, "line")
        gfa = Obj(g.Gfa, "gfa")
        prev = Obj(g.Line, "previous")
        prior = Obj(None, "log_of_the_enclosing_connect")
        heap = {s.oid: {"_gfa": None}, gfa.oid: {"_new_virtual_lines": Opt(outer, prior)}, prev.oid: {"virtual": dup_virtual}, prior.oid: {}}
        def simple(name, result=None):
            def m(E, st, pos, kw):
                yield ("val", result, [], ev(st, name))
            return m
        def m_is_connected(E, st, pos, kw):
            (self_,) = pos
            if isinstance(self_, Ref):
                yield ("val", st.zh["vl_connected"][self_.t], [])
            else:
                yield ("val", connected, [], ev(st, "is_connected"))
        def m_selfref(E, st, pos, kw):
            yield ("raise", Exc(g.NotUniqueError), [selfref], ev(st, "selfref_check"))
            yield ("val", None, [z3.Not(selfref)], ev(st, "selfref_check"))
        def m_search(E, st, pos, kw):
            yield ("val", prev, [dup], ev(st, "search"))
            yield ("val", None, [z3.Not(dup)], ev(st, "search"))
        def m_init(E, st, pos, kw):
            # while the references are set up, virtual lines may be registered: they are appended to the log iff a log is open
            cur = st.attrs(gfa).get("_new_virtual_lines")
            st2 = st.setattr(gfa, "_new_virtual_lines", log) if isinstance(cur, list) else st
            yield ("raise", Exc(g.NotFoundError), [z3.Not(init_ok)], ev(st2, "init_failed"))
            yield ("val", None, [init_ok], ev(st2, "init"))
        def m_record_type(E, st, pos, kw):
            (self_,) = pos
            yield ("val", "S" if self_ is s else ite_str(same_type, "S", "E"), [])
        def m_all_refs(E, st, pos, kw):
            (self_,) = pos
            yield ("val", st.zh["has_refs"][self_.t], [])
        def m_disconnect(E, st, pos, kw):
            (self_,) = pos
            zh = dict(st.zh)
            zh["disconnected"] = z3.Store(zh["disconnected"], self_.t, z3.BoolVal(True))
            # disconnecting a placeholder removes its back-references from other lines and may leave them unreferenced
            zh["has_refs"] = fresh("has_refs_after", AIB)
            zh["vl_connected"] = z3.Store(zh["vl_connected"], self_.t, z3.BoolVal(False))
            yield ("val", None, [], st.with_zh(zh))
        f = ctx.fn
        C = "gfapy/line/common/connection.py::Connection."
        D = "gfapy/line/common/disconnection.py::Disconnection."
        models = {f(C + "is_connected"): m_is_connected, f(C + "_validate_no_reference_to_own_name"): m_selfref,
                  f("gfapy/lines/finders.py::Finders._search_duplicate"): m_search,
                  f("gfapy/line/common/virtual_to_real.py::VirtualToReal._substitute_virtual_line"): simple("substitute"),
                  g.Line._process_not_unique: simple("not_unique"),
                  g.Line._initialize_references: m_init,
                  f(D + "_remove_field_backreferences"): simple("undo1"), f(D + "_remove_field_references"): simple("undo2"),
                  f(D + "_remove_nonfield_backreferences"): simple("undo3"), f(D + "_remove_nonfield_references"): simple("undo4"),
                  f("gfapy/lines/creators.py::Creators._register_line"): simple("register"),
                  g.Line.all_references.fget: m_all_refs, g.Line.record_type.fget: m_record_type, f(D + "disconnect"): m_disconnect}
        def in_log(x):
            return z3.Exists([j], z3.And(0 <= j, j < n, log_el[j] == x))
        def only_log_touched(zh):
            return z3.ForAll([t], z3.Implies(zh["disconnected"][t] != h0["disconnected"][t], in_log(t)))
        def inv0(i, st):
            return z3.And(i <= n, only_log_touched(st.zh))
        spec_ = dict(inv=inv0, modheap=["disconnected", "has_refs", "vl_connected"], mod={"line": lambda nm: Ref(fresh(nm, I), g.Line)})
        inv = {("Connection.connect", 0): spec_, ("Connection._initialize_references_or_take_back", 0): spec_}
        inline = set()
        try:
            inline.add(f(C + "_initialize_references_or_take_back"))        # the take-back lives in a helper shared with the substitution of placeholders
        except LookupError:
            pass
        def owner(st):
            return st.attrs(s).get("_gfa")
        def log_state(st):
            return st.attrs(gfa).get("_new_virtual_lines")
        def post(kd, v, st):
            e = tuple(st.ghost.get("events", ()))
            own = owner(st)
            lg = log_state(st)
            log_untouched = z3.BoolVal(isinstance(lg, Opt) and lg.val is prior)
            log_closed = z3.If(outer, z3.BoolVal(lg is None), log_untouched)
            untouched = z3.And(z3.BoolVal(own is None), st.zh["disconnected"] == h0["disconnected"], log_untouched)
            if kd == "raise":
                if e == ("is_connected",):
                    return z3.And(z3.BoolVal(v.cls is g.RuntimeError), connected, untouched)
                if e == ("is_connected", "selfref_check"):
                    return z3.And(z3.BoolVal(v.cls is g.NotUniqueError), selfref, z3.Not(connected), untouched)
                if e == ("is_connected", "selfref_check", "search"):
                    # the identifier is known as that of a placeholder of ANOTHER record type: refused, nothing touched
                    return z3.And(z3.BoolVal(v.cls is g.NotUniqueError), dup, dup_virtual, z3.Not(same_type), untouched)
                if e == ("is_connected", "selfref_check", "search", "init_failed", "undo1", "undo2", "undo3", "undo4"):
                    return z3.And(z3.BoolVal(v.cls is g.NotFoundError), z3.Not(init_ok), z3.Not(dup), z3.BoolVal(own is None), log_closed,
                                  only_log_touched(st.zh), z3.Implies(z3.Not(outer), st.zh["disconnected"] == h0["disconnected"]))
                return z3.BoolVal(False)
            if e == ("is_connected", "selfref_check", "search", "substitute"):
                return z3.And(dup, dup_virtual, same_type, untouched)
            if e == ("is_connected", "selfref_check", "search", "not_unique"):
                return z3.And(dup, z3.Not(dup_virtual), untouched)
            if e == ("is_connected", "selfref_check", "search", "init", "register"):
                return z3.And(z3.Not(dup), init_ok, z3.BoolVal(isinstance(own, Obj) and own.oid == gfa.oid), st.zh["disconnected"] == h0["disconnected"], log_closed)
            return z3.BoolVal(False)
        return [Case("order", [s, gfa], post, pre=[n >= 0], heap=heap, zh=h0, models=models, invariants=inv, inline=inline,
                     symbols=dict(already_connected=connected, refers_to_own_name=selfref, duplicate_found=dup, duplicate_is_virtual=dup_virtual, references_can_be_initialised=init_ok,
                                  n_new_virtual_lines=n, no_other_line_is_being_connected=outer, placeholder_has_the_same_record_type=same_type),
                     replay=lambda w: {"target": "bounded.replay_helpers:connect_cases"},
                     confirm=battery_confirm, expect_paths=6)]


@register
class SubstituteVirtualLine(Contract):
    fn = "gfapy/line/common/virtual_to_real.py::VirtualToReal._substitute_virtual_line"
    props = ("C03", "C02", "C08", "C09")
    fragment = "H"
    doc = ("a real line takes the place of its placeholder: it adopts the placeholder's Gfa, imports the references, then the placeholder is "
           "unregistered and only after that the line is registered (so that the identifier never names two lines), each exactly once, and the replaced instance is left detached (no owner, "
           "no share in the collections the new line adopted); if importing the references raises, neither registry operation happens")

    def cases(self, ctx):
        g = ctx.gfapy
        import_ok = z3.Bool("references_can_be_imported")
        s, prev, gfa = Obj(g.Line, "line"), Obj(g.Line, "previous"), Obj(g.Gfa, "gfa")
        shared_refs = Obj(None, "collections_of_the_placeholder")
        heap = {s.oid: {"_gfa": None}, prev.oid: {"gfa": gfa, "_gfa": gfa, "_refs": shared_refs}, gfa.oid: {}, shared_refs.oid: {}}
        def m_import(E, st, pos, kw):
            ok_args = len(pos) == 2 and pos[1] is prev
            yield ("raise", Exc(g.NotUniqueError), [z3.Not(import_ok)], ev(st, "import_failed"))
            yield ("val", None, [import_ok], ev(st, "import" if ok_args else "import_wrong_args"))
        def m_unreg(E, st, pos, kw):
            yield ("val", None, [], ev(st, "unregister_previous" if pos[1] is prev else "unregister_other"))
        def m_reg(E, st, pos, kw):
            yield ("val", None, [], ev(st, "register_self" if pos[1] is s else "register_other"))
        f = ctx.fn
        models = {f("gfapy/line/common/virtual_to_real.py::VirtualToReal._import_references"): m_import,
                  f("gfapy/lines/destructors.py::Destructors._unregister_line"): m_unreg, f("gfapy/lines/creators.py::Creators._register_line"): m_reg}
        def post(kd, v, st):
            e = tuple(st.ghost.get("events", ()))
            own = st.attrs(s).get("_gfa")
            if kd == "raise":
                return z3.And(z3.BoolVal(e == ("import_failed",)), z3.Not(import_ok))
            # the replaced line is detached: it no longer names the Gfa as its owner and no longer holds the collections the new line adopted
            pa = st.attrs(prev)
            detached = pa.get("_gfa") is None and not (isinstance(pa.get("_refs"), Obj) and pa.get("_refs").oid == shared_refs.oid)
            return z3.And(z3.BoolVal(e == ("import", "unregister_previous", "register_self")), import_ok, z3.BoolVal(isinstance(own, Obj) and own.oid == gfa.oid),
                          z3.BoolVal(detached))
        return [Case("order", [s, prev], post, heap=heap, models=models, symbols=dict(references_can_be_imported=import_ok), expect_paths=2,
                     replay=lambda w: {"target": "bounded.replay_helpers:replaced_line_cases"}, confirm=battery_confirm)]


@register
class ImportReferences(Contract):
    fn = "gfapy/line/common/virtual_to_real.py::VirtualToReal._import_references"
    props = ("C03", "C02", "C08")
    fragment = "H"
    doc = ("importing the references of a placeholder: a placeholder of unknown type has no fields, so the line sets up its own references - "
           "through the variant that takes everything back on failure; a typed placeholder hands over its reference fields and the lines it "
           "refers to are re-pointed; in both cases the back-reference collections of the placeholder are adopted and their members re-pointed")

    def cases(self, ctx):
        g = ctx.gfapy
        out = []
        for prev_cls, label in ((g.line.Unknown, "unknown-placeholder"), (g.line.segment.GFA2, "typed-placeholder")):
            s, prev = Obj(g.Line, "line"), Obj(prev_cls, "previous")
            heap = {s.oid: {}, prev.oid: {}}
            def mk(name):
                def m(E, st, pos, kw):
                    yield ("val", None, [], ev(st, name))
                return m
            f = ctx.fn
            V = "gfapy/line/common/virtual_to_real.py::VirtualToReal."
            models = {f(V + "_import_field_references"): mk("import_fields"), f(V + "_update_field_backreferences"): mk("update_field_backrefs"),
                      f(V + "_import_nonfield_references"): mk("import_nonfield"), f(V + "_update_nonfield_backreferences"): mk("update_nonfield_backrefs"),
                      g.Line._initialize_references: mk("plain_init")}
            tb = ctx.fn_opt("gfapy/line/common/connection.py::Connection._initialize_references_or_take_back")
            if tb is not None:
                models[tb] = mk("init_with_take_back")
            want = (("init_with_take_back",) if prev_cls is g.line.Unknown else ("import_fields", "update_field_backrefs")) + ("import_nonfield", "update_nonfield_backrefs")
            def post(kd, v, st, want=want):
                return z3.BoolVal(kd == "return" and tuple(st.ghost.get("events", ())) == want)
            out.append(Case(label, [s, prev], post, heap=heap, models=models))
        return out


@register
class Disconnect(Contract):
    fn = "gfapy/line/common/disconnection.py::Disconnection.disconnect"
    props = ("C05", "C02", "C08")
    fragment = "H"
    doc = ("disconnect(): a line that is not connected is refused (RuntimeError) untouched; otherwise, in this order (the back-references are "
           "found THROUGH the reference fields, so they go first): back-references of the reference fields, the reference fields (turned into "
           "names), the dependent lines, the other back-references, the line's own collections, the registry entry, and last the owner")

    def cases(self, ctx):
        g = ctx.gfapy
        connected = z3.Bool("connected")
        s, gfa = Obj(g.Line, "line"), Obj(g.Gfa, "gfa")
        heap = {s.oid: {"_gfa": gfa}, gfa.oid: {}}
        def mk(name):
            def m(E, st, pos, kw):
                yield ("val", None, [], ev(st.with_ghost("owner_at_" + name, st.attrs(s).get("_gfa")), name))
            return m
        f = ctx.fn
        D = "gfapy/line/common/disconnection.py::Disconnection."
        order = ("field_backrefs", "field_refs", "dependants", "nonfield_backrefs", "nonfield_refs", "unregister")
        models = {f("gfapy/line/common/connection.py::Connection.is_connected"): const_model(lambda self_: connected),
                  f(D + "_remove_field_backreferences"): mk(order[0]), f(D + "_remove_field_references"): mk(order[1]),
                  f(D + "_disconnect_dependent_lines"): mk(order[2]), f(D + "_remove_nonfield_backreferences"): mk(order[3]),
                  f(D + "_remove_nonfield_references"): mk(order[4]), f("gfapy/lines/destructors.py::Destructors._unregister_line"): mk(order[5]),
                  builtins_str(): const_model(lambda *a: Unknown("text"))}
        def post(kd, v, st):
            e = tuple(st.ghost.get("events", ()))
            own = st.attrs(s).get("_gfa")
            if kd == "raise":
                return z3.And(z3.BoolVal(v.cls is g.RuntimeError and e == () and isinstance(own, Obj) and own.oid == gfa.oid), z3.Not(connected))
            owner_kept_until_unregistered = all(isinstance(st.ghost.get("owner_at_" + n), Obj) for n in order)
            return z3.And(connected, z3.BoolVal(e == order and own is None and owner_kept_until_unregistered))
        return [Case("order", [s], post, heap=heap, models=models, symbols=dict(connected=connected), expect_paths=2)]


def builtins_str():
    import builtins
    return builtins.str


@register
class DisconnectDependentLines(Contract):
    fn = "gfapy/line/common/disconnection.py::Disconnection._disconnect_dependent_lines"
    props = ("C05", "C02")
    fragment = "L"
    doc = ("every line that is in one of the dependent collections when the cascade starts is handed to _disconnect_dependent_line exactly once, "
           "in order - although each such call shrinks the very collection being walked (the walk is over a snapshot: loop invariant over a "
           "list that the callee rewrites)")

    def cases(self, ctx):
        g = ctx.gfapy
        from .refs import refs_heap, AII
        h0 = refs_heap()
        h0["visited"] = z3.Const("visited_count", AII)
        s = Ref(z3.Int("self"), g.line.edge.Link)          # Link.DEPENDENT_LINES = ["paths"]
        key = sv("paths")
        has = h0["refs_has"][s.t][key]
        lid0 = h0["refs"][s.t][key]; n0 = h0["L_n"][lid0]; e0 = h0["L_e"][lid0]
        j = z3.Int("j")
        def m_dep(E, st, pos, kw):
            self_, ref = pos
            zh = dict(st.zh)
            zh["visited"] = z3.Store(zh["visited"], ref.t, zh["visited"][ref.t] + 1)
            # the dependent line disconnects itself and thereby deletes its entry from the collections of this line: arbitrary new contents
            zh["L_n"] = fresh("L_n_after", zh["L_n"].sort()); zh["L_e"] = fresh("L_e_after", zh["L_e"].sort())
            yield ("val", None, [], st.with_zh(zh))
        models = {ctx.fn("gfapy/line/common/disconnection.py::Disconnection._disconnect_dependent_line"): m_dep}
        def count_before(t, upto):
            # number of positions < upto of the ORIGINAL list holding t  (as a bounded sum is not available: state it through distinctness)
            return z3.If(z3.Exists([j], z3.And(0 <= j, j < upto, e0[j] == t)), 1, 0)
        t = z3.Int("t")
        j1, j2 = z3.Ints("j1 j2")
        pre = [n0 >= 0, lid0 < h0["next_list"], z3.ForAll([t], h0["visited"][t] == 0),
               z3.ForAll([j1, j2], z3.Implies(z3.And(0 <= j1, j1 < j2, j2 < n0), e0[j1] != e0[j2]))]     # a line occurs once in a dependent collection
        def inv0(i, st):
            return z3.And(i <= n0, z3.ForAll([t], st.zh["visited"][t] == count_before(t, i)))
        inv = {("Disconnection._disconnect_dependent_lines", 1): dict(inv=inv0, modheap=["visited", "L_n", "L_e"], mod={"ref": lambda nm: Ref(fresh(nm, I))}),
               ("Disconnection._disconnect_dependent_lines", 0): None}
        def post(kd, v, st):
            if kd == "raise":
                return z3.BoolVal(False)
            return z3.ForAll([t], st.zh["visited"][t] == z3.If(has, count_before(t, n0), 0))
        return [Case("link", [s], post, pre=pre, zh=h0, models=models, invariants={k: v for k, v in inv.items() if v}, symbols={})]


@register
class SearchDuplicate(Contract):
    fn = "gfapy/lines/finders.py::Finders._search_duplicate"
    props = ("C09", "C12")
    doc = ("the line a new line collides with: for a link, the stored link with the same ends (either complement form) - unless that is only a "
           "placeholder while the link's identifier names ANOTHER line, which then takes precedence (the identifier clash must be reported); "
           "without such a link, the line carrying its identifier; for the other named record types the line carrying the identifier; "
           "nothing for anonymous record types")

    def cases(self, ctx):
        g = ctx.gfapy
        rt, prt = enum("record_type", ["L", "S", "E", "F", "#"])
        found, found_virtual, named, same = z3.Bool("link_with_same_ends_stored"), z3.Bool("that_link_is_a_placeholder"), z3.Bool("identifier_in_use"), z3.Bool("identifier_names_that_link")
        gfa = Obj(g.Gfa, "gfa")
        line = Obj(g.Line, "new_line")
        lk, other = Obj(g.line.edge.Link, "stored_link"), Obj(g.Line, "line_with_the_identifier")
        heap = {gfa.oid: {}, line.oid: {"record_type": rt, "oriented_from": Obj(None, "f"), "oriented_to": Obj(None, "t"), "alignment": Obj(None, "a"), "name": Obj(None, "nm")},
                lk.oid: {"virtual": found_virtual}, other.oid: {}}
        for o in list(heap[line.oid].values()):
            if isinstance(o, Obj):
                heap[o.oid] = {}
        def m_search_link(E, st, pos, kw):
            yield ("val", lk, [found]); yield ("val", None, [z3.Not(found)])
        def m_line(E, st, pos, kw):
            yield ("val", None, [z3.Not(named)])
            yield ("val", lk, [named, found, same])
            yield ("val", other, [named, z3.Not(z3.And(found, same))])
        models = {ctx.fn("gfapy/lines/finders.py::Finders._search_link"): m_search_link, ctx.fn("gfapy/lines/finders.py::Finders.line"): m_line}
        def is_(v, o):
            return z3.BoolVal(isinstance(v, Obj) and v.oid == o.oid)
        def post(kd, v, st):
            if kd != "return":
                return z3.BoolVal(False)
            by_name = z3.If(named, z3.If(z3.And(found, same), is_(v, lk), is_(v, other)), z3.BoolVal(v is None))
            want_L = z3.If(found, z3.If(z3.And(found_virtual, named, z3.Not(same)), is_(v, other), is_(v, lk)), by_name)
            return z3.If(rt == sv("L"), want_L, z3.If(z3.Or(rt == sv("S"), rt == sv("E")), by_name, z3.BoolVal(v is None)))
        return [Case("kinds", [gfa, line], post, pre=[prt], heap=heap, models=models,
                     symbols=dict(record_type=rt, link_with_same_ends_stored=found, that_link_is_a_placeholder=found_virtual, identifier_in_use=named, identifier_names_that_link=same))]


@register
class RemoveNonfieldBackreferences(Contract):
    fn = "gfapy/line/common/disconnection.py::Disconnection._remove_nonfield_backreferences"
    props = ("C05", "C02")
    fragment = "L"
    doc = ("when a gap leaves the Gfa, every set and every path that lists it has the mention dropped (_remove_backreference, exactly once per group, over a snapshot "
           "of each collection), and a group that is left without any item - it listed nothing but the gap - is disconnected, exactly once, iff it is still connected "
           "at that moment; no other line is disconnected here (two passes of one loop, one per collection; loop invariant with the counts of both). "
           "Assumed: a group occurs once in the collections of the gap")

    def cases(self, ctx):
        import builtins
        g = ctx.gfapy
        from .refs import refs_heap, AII
        AIB_ = z3.ArraySort(I, B)
        h0 = refs_heap()
        h0["visited"] = z3.Const("visited_count", AII)
        h0["disconnected"] = z3.Const("disconnect_count", AII)
        h0["items"] = z3.Const("n_items", AII)
        left_after = z3.Const("n_items_left_after_the_drop", AII)
        is_group = z3.Const("is_a_group", AIB_)
        conn_then = z3.Const("connected_when_asked", AIB_)
        s = Ref(z3.Int("self"), g.line.Gap)                       # Gap.OTHER_REFERENCES = ["sets", "paths"]
        keys = list(g.line.Gap.OTHER_REFERENCES)
        has = {k: h0["refs_has"][s.t][sv(k)] for k in keys}
        lid = {k: h0["refs"][s.t][sv(k)] for k in keys}
        n0 = {k: z3.If(has[k], h0["L_n"][lid[k]], 0) for k in keys}
        e0 = {k: h0["L_e"][lid[k]] for k in keys}
        j, t = z3.Int("j"), z3.Int("t")
        j1, j2 = z3.Ints("j1 j2")
        def m_drop(E, st, pos, kw):
            self_, ref, k_ = pos
            zh = dict(st.zh)
            zh["visited"] = z3.Store(zh["visited"], ref.t, zh["visited"][ref.t] + 1)
            zh["items"] = z3.Store(zh["items"], ref.t, left_after[ref.t])
            # the group rewrites its own lists; of the gap's collections only the one being walked may change (arbitrary new contents): a set is not a path
            cur = lid[conc(k_)]
            zh["L_n"] = z3.Store(zh["L_n"], cur, fresh("n_after", I)); zh["L_e"] = z3.Store(zh["L_e"], cur, fresh("e_after", AII))
            yield ("val", None, [], st.with_zh(zh.copy()).with_ghost("current_key", conc(k_)))
        def m_isinstance(E, st, pos, kw):
            x, c = pos
            if isinstance(x, Ref) and c is g.line.group.Group:
                yield ("val", is_group[x.t], [])
            else:
                raise Unsupported("isinstance(%r, %r)" % (x, c))
        def m_conn(E, st, pos, kw):
            yield ("val", conn_then[pos[0].t], [])
        def m_disconnect(E, st, pos, kw):
            zh = dict(st.zh)
            zh["disconnected"] = z3.Store(zh["disconnected"], pos[0].t, zh["disconnected"][pos[0].t] + 1)
            cur = lid[st.ghost.get("current_key", keys[0])]
            zh["L_n"] = z3.Store(zh["L_n"], cur, fresh("n_after", I)); zh["L_e"] = z3.Store(zh["L_e"], cur, fresh("e_after", AII))
            yield ("val", None, [], st.with_zh(zh))
        D = "gfapy/line/common/disconnection.py::Disconnection."
        models = {ctx.fn(D + "_remove_backreference"): m_drop, builtins.isinstance: m_isinstance,
                  ctx.fn("gfapy/line/common/connection.py::Connection.is_connected"): m_conn, ctx.fn(D + "disconnect"): m_disconnect}
        # (inverse of the two snapshots: in which collection and where a line is listed; -1 = in neither. This is the assumption "a group occurs once")
        where, posn = z3.Const("collection_of_line", AII), z3.Const("position_of_line", AII)
        def goes(tt):
            return z3.And(is_group[tt], conn_then[tt], left_after[tt] == 0)
        def handled(tt, done):
            return z3.Or(*[z3.And(where[tt] == keys.index(k), posn[tt] < done[k]) for k in keys])
        def state(zh, done):            # done: key -> number of positions of its snapshot already handled
            return z3.ForAll([t], z3.And(zh["visited"][t] == z3.If(handled(t, done), 1, 0), zh["disconnected"][t] == z3.If(z3.And(handled(t, done), goes(t)), 1, 0)))
        def inv(i, st):
            k_now = conc(st.env["k"])
            idx = keys.index(k_now)
            done = {k: (n0[k] if keys.index(k) < idx else (i if k == k_now else z3.IntVal(0))) for k in keys}
            # the collections still to be walked are as they were (a set is not a path: dropping a mention from one kind of group leaves the other collection alone)
            later = [z3.And(st.zh["L_n"][lid[k]] == h0["L_n"][lid[k]], st.zh["L_e"][lid[k]] == e0[k]) for k in keys if keys.index(k) > idx]
            return z3.And(0 <= i, i <= n0[k_now], state(st.zh, done), *later)
        pre = [z3.ForAll([t], z3.And(h0["visited"][t] == 0, h0["disconnected"][t] == 0)), lid[keys[0]] != lid[keys[1]], z3.ForAll([t], posn[t] >= 0)]
        for k in keys:
            pre += [z3.Implies(has[k], z3.And(h0["L_n"][lid[k]] >= 0, lid[k] < h0["next_list"])),
                    z3.ForAll([j], z3.Implies(z3.And(0 <= j, j < n0[k]), z3.And(where[e0[k][j]] == keys.index(k), posn[e0[k][j]] == j))),
                    z3.ForAll([t], z3.Implies(where[t] == keys.index(k), z3.And(posn[t] < n0[k], e0[k][posn[t]] == t)))]
        invs = {("Disconnection._remove_nonfield_backreferences", 1): dict(inv=inv, modheap=["visited", "disconnected", "items", "L_n", "L_e"], mod={"ref": lambda nm: Ref(fresh(nm, I), g.Line)})}
        def post(kd, v, st):
            if kd == "raise":
                return z3.BoolVal(False)
            return state(st.zh, {k: n0[k] for k in keys})
        return [Case("gap", [s], post, pre=pre, zh=h0, models=models, invariants=invs, symbols={}, options={"list_mk": lambda t: Ref(t, g.Line)},
                     replay=lambda w: {"target": "bounded.replay_helpers:emptied_group_cases"}, confirm=battery_confirm)]
