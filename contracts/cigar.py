"""CIGAR algebra (C06, C10, C12, C14): length_on_reference / length_on_query as weighted sums (loop invariants over a
recursive spec sum), Operation.__eq__, and the complement (value + frame: the receiver is not modified)."""
import z3
from pyvc.contract import Contract, Case, register
from pyvc.dsl import *
from pyvc.values import *
from pyvc import engine as eng

AII = z3.ArraySort(I, I)
REF_OPS = ["M", "=", "X", "D", "N"]        # operations that consume the reference (SAM specification)
QRY_OPS = ["M", "=", "X", "I", "S"]        # operations that consume the query


def cigar_shape(ctx, tag=""):
    """a CIGAR as a list of n pairwise distinct Operation objects with heap fields code / length"""
    g = ctx.gfapy
    n = z3.Int("n" + tag)
    el = z3.Const("el" + tag, AII)
    code = z3.Const("code" + tag, z3.ArraySort(I, Str))
    length = z3.Const("length" + tag, AII)
    k, j = z3.Ints("k j")
    lst = SList(n, el, lambda t: Ref(t, g.CIGAR.Operation))
    pre = [n >= 0, z3.ForAll([k, j], z3.Implies(z3.And(0 <= k, k < j, j < n), el[k] != el[j]))]
    return lst, dict(code=code, length=length), pre, (n, el, code, length)


def _sum_contract(name, ops):
    class LenOn(Contract):
        id = "CIGAR_" + name
        fn = "gfapy/alignment/cigar.py::CIGAR." + name
        props = ("C06", "C12", "C14")
        fragment = "L"
        doc = "%s = sum of the lengths of the operations in %s (loop invariant: l = partial sum)" % (name, ops)

        def cases(self, ctx):
            lst, zh, pre, (n, el, code, length) = cigar_shape(ctx)
            ssum = z3.RecFunction("sum_" + name, I, I)
            kk = z3.Int("kk")
            def w(c):
                return z3.If(z3.Or(*[c == sv(o) for o in ops]), 1, 0)
            z3.RecAddDefinition(ssum, [kk], z3.If(kk <= 0, 0, ssum(kk - 1) + w(code[el[kk - 1]]) * length[el[kk - 1]]))
            inv = {("CIGAR." + name, 0): dict(inv=lambda i, st: z3.And(i <= n, S(st.env["l"]) == ssum(i)), mod={"l": lambda nm: fresh(nm, I)})}
            def post(k, v, st):
                return (S(v) == ssum(n)) if k == "return" else z3.BoolVal(False)
            return [Case("list", [lst], post, pre=pre, zh=zh, invariants=inv, symbols={"n": n}, minimize=[n])]
    LenOn.__name__ = LenOn.id
    return register(LenOn)


_sum_contract("length_on_reference", REF_OPS)
_sum_contract("length_on_query", QRY_OPS)


@register
class OperationEq(Contract):
    fn = "gfapy/alignment/cigar.py::CIGAR.Operation.__eq__"
    props = ("C12",)
    doc = "two operations are equal iff their lengths and their codes are equal"

    def cases(self, ctx):
        g = ctx.gfapy
        a, b = Ref(z3.Int("a"), g.CIGAR.Operation), Ref(z3.Int("b"), g.CIGAR.Operation)
        code = z3.Const("code", z3.ArraySort(I, Str)); length = z3.Const("length", AII)
        def post(k, v, st):
            if k != "return":
                return z3.BoolVal(False)
            t = v if not isinstance(v, bool) else z3.BoolVal(v)
            return t == z3.And(length[a.t] == length[b.t], code[a.t] == code[b.t])
        return [Case("ops", [a, b], post, zh=dict(code=code, length=length), symbols={})]


def swap(c):
    """complement of an operation code: insertions and deletions are exchanged (S and N are folded onto D and I)"""
    return z3.If(c == sv("I"), sv("D"), z3.If(c == sv("S"), sv("D"), z3.If(c == sv("D"), sv("I"), z3.If(c == sv("N"), sv("I"), c))))


@register
class CigarComplement(Contract):
    fn = "gfapy/alignment/cigar.py::CIGAR.complement"
    props = ("C10", "C12", "C06")
    fragment = "L"
    doc = ("complement()[k] = swap(self[n-1-k]) with the length kept, for every k; the result has n operations; and (frame) the code and "
           "length of every operation of the receiver are unchanged")

    def cases(self, ctx):
        g = ctx.gfapy
        lst, zh, pre, (n, el, code0, len0) = cigar_shape(ctx)
        k = z3.Int("k")
        def inv0(i, st):
            comp = st.env["comp"]
            code, length = st.zh["code"], st.zh["length"]
            return z3.And(i <= comp.n,
                          z3.ForAll([k], z3.Implies(z3.And(0 <= k, k < comp.n),
                                                    z3.And(z3.If(k < i, code[comp.el[k]] == swap(code0[el[n - 1 - k]]), code[comp.el[k]] == code0[el[n - 1 - k]]),
                                                           length[comp.el[k]] == len0[el[n - 1 - k]]))),
                          z3.ForAll([k], z3.Implies(z3.And(0 <= k, k < n), z3.And(code[el[k]] == code0[el[k]], length[el[k]] == len0[el[k]]))))
        inv = {("CIGAR.complement", 0): dict(inv=inv0, mod={}, modheap=["code"])}
        def m_cigar_ctor(E, st, pos_, kw):
            (l,) = pos_
            c = E.contents(l, st) if not isinstance(l, SList) else l
            yield ("val", SList(c.n, c.el, c.mk), [])
        def post(kd, v, st):
            if kd != "return" or not isinstance(v, SList):
                return z3.BoolVal(False)
            code, length = st.zh["code"], st.zh["length"]
            value = z3.And(v.n == n, z3.ForAll([k], z3.Implies(z3.And(0 <= k, k < n),
                                                               z3.And(code[v.el[k]] == swap(code0[el[n - 1 - k]]), length[v.el[k]] == len0[el[n - 1 - k]]))))
            frame = z3.ForAll([k], z3.Implies(z3.And(0 <= k, k < n), z3.And(code[el[k]] == code0[el[k]], length[el[k]] == len0[el[k]])))
            return z3.And(value, frame)
        alloc = {g.CIGAR.Operation: ("length", "code")}
        SW = {"I": "D", "D": "I", "S": "D", "N": "I"}
        def replay(w):
            return {"target": "gfapy.alignment.cigar:CIGAR.complement", "self": {"cigar": "1M2I3D1S2N1P"}, "observe_self": True}
        def confirm(w, out):
            if out.get("kind") != "return" or "ops" not in (out.get("value") or {}):
                return True
            before = out["self_before"]["ops"]; after = out["self_after"]["ops"]; res = out["value"]["ops"]
            want = [[n_, SW.get(c, c)] for n_, c in reversed(before)]
            return not (after == before and res == want)
        return [Case("list", [lst], post, pre=pre + [z3.ForAll([k], z3.Implies(z3.And(0 <= k, k < n), z3.And(el[k] >= 0, el[k] < z3.Int("next0"))))],
                     zh=dict(zh, **{"next": z3.Int("next0")}), invariants=inv, symbols={"n": n}, minimize=[n],
                     models={g.CIGAR: m_cigar_ctor}, alloc=alloc, replay=replay, confirm=confirm)]
