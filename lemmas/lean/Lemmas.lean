import Mathlib
/-! Pure list / graph mathematics used by the contracts (independent of /repo).  Checked by `lean` at setup. -/

/-- C16: a set containing `s` and closed under adjacency contains everything reachable from `s`. -/
theorem closed_contains_reach {α : Type} (adj : α → α → Prop) (V : Set α) (s : α)
    (hs : s ∈ V) (hcl : ∀ x ∈ V, ∀ y, adj x y → y ∈ V) :
    ∀ t, Relation.ReflTransGen adj s t → t ∈ V := by
  intro t h
  induction h with
  | refl => exact hs
  | tail _ hbc ih => exact hcl _ ih _ hbc

/-- C06/C12: a weighted sum over a list is invariant under reversal
    (length_on_reference (c.complement) = length_on_query c follows with the pointwise weight table). -/
theorem sum_map_reverse {α : Type} (f : α → Int) (l : List α) :
    (l.reverse.map f).sum = (l.map f).sum := by
  rw [List.map_reverse, List.sum_reverse]

/-- C12/C14: reversing twice is the identity; mapping an involution twice is the identity
    (complement ∘ complement = id on CIGARs over {M,I,D,P,=,X,H}; rc ∘ rc = id). -/
theorem reverse_map_involution {α : Type} (g : α → α) (hg : ∀ a, g (g a) = a) (l : List α) :
    ((l.reverse.map g).reverse.map g) = l := by
  have h : (g ∘ g) = id := funext hg
  rw [List.map_reverse, List.map_map, h, List.map_id, List.reverse_reverse]

/-- C15: every index below n lies in some window [i, i + (n - k)] with i < k (k ≥ 1). -/
theorem window_cover (n k j : Nat) (hk : 1 ≤ k) (hj : j < n) :
    ∃ i, i < k ∧ i ≤ j ∧ j ≤ i + (n - k) := by
  by_cases h : j < k
  · exact ⟨j, h, le_refl _, Nat.le_add_right _ _⟩
  · refine ⟨k - 1, by omega, by omega, by omega⟩

open Finset in
/-- C16: double counting. Every record `e` of a finite family is filed once under the end `a e` and once under the end `b e`
    (a record with `a e = b e` twice under that end); then the sizes of all collections add up to twice the number of records:
    n_dovetails, n_containments and n_internals halve that sum. -/
theorem collections_sum_twice {V E : Type} [Fintype V] [Fintype E] [DecidableEq V] (a b : E → V) :
    ∑ v : V, ((univ.filter (fun e => a e = v)).card + (univ.filter (fun e => b e = v)).card) = 2 * Fintype.card E := by
  rw [sum_add_distrib]
  have ha := card_eq_sum_card_fiberwise (s := (univ : Finset E)) (t := (univ : Finset V)) (f := a) (fun x _ => mem_univ _)
  have hb := card_eq_sum_card_fiberwise (s := (univ : Finset E)) (t := (univ : Finset V)) (f := b) (fun x _ => mem_univ _)
  rw [← ha, ← hb, card_univ]
  ring
