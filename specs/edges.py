"""Independent specification of the edge semantics of C11, written from the property text and the GFA1/GFA2
specifications (not from gfapy's code).  Everything is a z3 term builder so that the same text is the proof goal and,
after substitution of concrete values, the replay oracle.

Interval kinds of one side of an E line, for an interval [b, e] with `$` flags on a segment:
  whole     b = 0 and e carries `$`
  prefix    b = 0 and e has no `$`
  suffix    b != 0 and e carries `$`
  internal  b != 0 and e has no `$`
The interval [0, 0$] of an empty segment is at once prefix, suffix and whole: the spec is a *relation* there.
"""
import z3

KINDS = ["pfx", "sfx", "whole", "internal"]
SV = z3.StringVal


def interval_kind_ok(b, e, k):
    """k is an admissible kind for the interval [b,e] (b,e: Pos)"""
    degenerate = z3.And(b.v == 0, e.v == 0, e.last)
    whole = z3.And(b.v == 0, e.last)
    pfx = z3.And(b.v == 0, z3.Not(e.last))
    sfx = z3.And(b.v != 0, e.last)
    inner = z3.And(b.v != 0, z3.Not(e.last))
    return z3.Or(z3.And(degenerate, z3.Or(k == SV("pfx"), k == SV("sfx"), k == SV("whole"))),
                 z3.And(z3.Not(degenerate), whole, k == SV("whole")),
                 z3.And(pfx, k == SV("pfx")), z3.And(sfx, k == SV("sfx")), z3.And(inner, k == SV("internal")))


def interval_illformed_value(b, e):
    """begin > end"""
    return b.v > e.v


def interval_illformed_dollar(b, e):
    """`$` only on the last position of a segment: `$` on the begin position requires the end position to be that same last position
    (b != 0: the empty-segment case 0$ is read as 'first position')"""
    return z3.And(b.v <= e.v, b.v != 0, b.last, z3.Or(z3.Not(e.last), e.v != b.v))


def is_containment(st1, st2):
    return z3.Or(st1 == SV("whole"), st2 == SV("whole"))


def is_dovetail(o1, o2, st1, st2):
    """neither side whole; same orientation: one prefix and one suffix; opposite orientations: two prefixes or two suffixes"""
    ends = z3.And(z3.Or(st1 == SV("pfx"), st1 == SV("sfx")), z3.Or(st2 == SV("pfx"), st2 == SV("sfx")))
    return z3.And(z3.Not(is_containment(st1, st2)), ends, z3.If(o1 == o2, st1 != st2, st1 == st2))


def edge_class_ok(o1, o2, st1, st2, c):
    """c in {C, L, I}"""
    return c == z3.If(is_containment(st1, st2), SV("C"), z3.If(is_dovetail(o1, o2, st1, st2), SV("L"), SV("I")))


def e_refkey_ok(snum, o1, o2, st1, st2, key):
    """collection of segment number snum (1|2) in which the E line is filed.
    prefix interval -> the segment's L end, suffix -> its R end; the side whose interval is the whole segment is the
    contained one (it files the edge under 'edges_to_containers', the other under 'edges_to_contained');
    both whole: either assignment, provided the two sides get different collections (checked as a lemma)."""
    me = st1 if snum == 1 else st2
    both = z3.And(st1 == SV("whole"), st2 == SV("whole"))
    cont = is_containment(st1, st2)
    dov = is_dovetail(o1, o2, st1, st2)
    return z3.If(both, z3.Or(key == SV("edges_to_contained"), key == SV("edges_to_containers")),
           z3.If(cont, key == z3.If(me == SV("whole"), SV("edges_to_containers"), SV("edges_to_contained")),
           z3.If(dov, key == z3.If(me == SV("pfx"), SV("dovetails_L"), SV("dovetails_R")),
                 key == SV("internals"))))


def l_from_end_type(from_orient):
    """an L line attaches to the right end of its from-segment when the from-orientation is + (left when -)"""
    return z3.If(from_orient == SV("+"), SV("R"), SV("L"))


def l_to_end_type(to_orient):
    """... and to the left end of its to-segment when the to-orientation is + (right when -)"""
    return z3.If(to_orient == SV("+"), SV("L"), SV("R"))


def gap_refkey(snum, o1, o2):
    """a gap lies between the end of oriented sid1 and the begin of oriented sid2:
    sid1+ is left at its R end (sid1- at its L end); sid2+ is entered at its L end (sid2- at its R end)"""
    if snum == 1:
        return z3.If(o1 == SV("+"), SV("gaps_R"), SV("gaps_L"))
    return z3.If(o2 == SV("+"), SV("gaps_L"), SV("gaps_R"))


def invert(sym):
    return z3.If(sym == SV("+"), SV("-"), z3.If(sym == SV("-"), SV("+"), z3.If(sym == SV("L"), SV("R"), SV("L"))))
