"""Oracle grammars of the GFA1 / GFA2 field datatypes, typed in from the published specifications
(GFA1: field tables + SAM-style optional fields; GFA2: the grammar block), NOT from gfapy/field/*.py.
Pure Python `re` syntax without anchors; usable under any interpreter (no z3 import here).

Cells where the two specifications, or a specification and the property text, disagree are listed in APPROX:
both verdicts are admissible there (the oracle is a relation), so no alarm is raised on something the property does not pin.
"""
import re

PRINT = r"[!-~]"
NAME1 = r"[!-)+-<>-~][!-~]*"            # GFA1 segment / path name
INT = r"[-+]?[0-9]+"
UINT = r"[0-9]+"
FLOAT = r"[-+]?[0-9]*\.?[0-9]+(?:[eE][-+]?[0-9]+)?"
CIGAR1 = r"(?:[0-9]+[MIDNSHPX=])+"
CIGAR2 = r"(?:[0-9]+[MDIP])+"
TRACE = r"[0-9]+(?:,[0-9]+)*"

GRAMMAR = {
    # tag datatypes
    "A": r"[!-~]",
    "i": INT,
    "f": FLOAT,
    "Z": r"[ !-~]+",
    "J": r"[ !-~]+",                     # intersected with JSON well-formedness (not regular: bounded tier only)
    "H": r"(?:[0-9A-F][0-9A-F])+",
    "B": r"(?:[cCsSiI](?:,[-+]?[0-9]+)+|f(?:,%s)+)" % FLOAT,     # plus the per-subtype range (integer level)
    # GFA1 positional
    "segment_name_gfa1": NAME1,
    "path_name_gfa1": NAME1,
    "sequence_gfa1": r"\*|[A-Za-z=.]+",
    "orientation": r"[+-]",
    "alignment_gfa1": r"\*|" + CIGAR1,
    "position_gfa1": UINT,
    "oriented_identifier_list_gfa1": r"{n}[+-](?:,{n}[+-])*".format(n=NAME1),
    "alignment_list_gfa1": r"(?:\*|{c})(?:,(?:\*|{c}))*".format(c=CIGAR1),
    # GFA2 positional
    "identifier_gfa2": r"[!-~]+",
    "optional_identifier_gfa2": r"[!-~]+",
    "oriented_identifier_gfa2": r"[!-~]+[+-]",
    "identifier_list_gfa2": r"[!-~]+(?: [!-~]+)*",
    "oriented_identifier_list_gfa2": r"[!-~]+[+-](?: [!-~]+[+-])*",
    "position_gfa2": r"[0-9]+\$?",
    "sequence_gfa2": r"\*|[!-~]+",
    "alignment_gfa2": r"\*|" + TRACE + "|" + CIGAR2,
    "optional_integer": r"\*|-?[0-9]+",
    "custom_record_type": r"[!-~]+",
    "generic": r"[^\t\n]*",
    "comment": r"[^\n]*",
}

# admissible-either-way cells: datatype -> regex of strings on which the oracle does not pin the verdict
APPROX = {
    "Z": r"",                                        # empty value: GFA2 allows [ -~]*, GFA1 requires one char
    "H": r"[0-9A-F](?:[0-9A-F][0-9A-F])*",           # odd number of digits (GFA1 says [0-9A-F]+)
    "B": r"[CSI](?:,[-+]?[0-9]+)+",                  # '+'/'-' sign syntax on unsigned subtypes (range check decides)
    "segment_name_gfa1": r"[!-~]*[+-],[!-~]*",       # names containing [+-], are refused by gfapy by documented convention
    "path_name_gfa1": r"[!-~]*[+-],[!-~]*",
    "oriented_identifier_list_gfa1": r"[!-~]*[+-],[!-~]*[+-],[!-~]*|.*,,.*|.*[^+-],.*",   # lists whose names contain commas: tokenisation is ambiguous
    "position_gfa1": r"",
    "optional_integer": r"\+[0-9]+",
    "optional_identifier_gfa2": r"\*",
    "custom_record_type": r"[HSLCPEFGOU#]",
    "alignment_gfa2": r"[0-9]+",                      # a single-number trace is grammatical but indistinguishable from a malformed CIGAR
}

FIELD_ALPHABET_NOTE = "document fields never contain TAB or NEWLINE (the readers split on them)"


def fullmatch(datatype, s):
    return re.fullmatch(GRAMMAR[datatype], s) is not None


def approx(datatype, s):
    a = APPROX.get(datatype)
    return a is not None and re.fullmatch(a, s, re.S) is not None


SUBTYPE_RANGE = {"c": (-2**7, 2**7), "C": (0, 2**8), "s": (-2**15, 2**15), "S": (0, 2**16), "i": (-2**31, 2**31), "I": (0, 2**32)}


def b_array_ok(s):
    """numeric array: syntax + every element within the subtype's range (GFA: c,C,s,S,i,I = int8..uint32)"""
    if not fullmatch("B", s):
        return False
    st, *el = s.split(",")
    if st == "f":
        return True
    lo, hi = SUBTYPE_RANGE[st]
    return all(lo <= int(x) < hi for x in el)


def json_ok(s):
    import json
    if not fullmatch("J", s):
        return False
    try:
        json.loads(s)
        return True
    except Exception:
        return False
