"""Oracle grammars of the GFA1 / GFA2 field datatypes, typed in from the published specifications
(GFA1: field tables + SAM-style optional fields; GFA2: the grammar block), NOT from gfapy/field/*.py.
Pure Python `re` syntax without anchors; usable under any interpreter (no z3 import here).

Cells where the two specifications, or a specification and the property text, disagree are listed in APPROX:
both verdicts are admissible there (the oracle is a relation), so no alarm is raised on something the property does not pin.
"""
import re

PRINT = r"[!-~]"
NAME1 = r"[!-)+-<>-~][!-~]*"            # GFA1 segment / path name
INT = r"[-+]?[0-9]+"
UINT = r"[0-9]+"
FLOAT = r"[-+]?[0-9]*\.?[0-9]+(?:[eE][-+]?[0-9]+)?"
CIGAR1 = r"(?:[0-9]+[MIDNSHPX=])+"
CIGAR2 = r"(?:[0-9]+[MDIP])+"
TRACE = r"[0-9]+(?:,[0-9]+)*"

GRAMMAR = {
    # tag datatypes
    "A": r"[!-~]",
    "i": INT,
    "f": FLOAT,
    "Z": r"[ !-~]+",
    "J": r"[ !-~]+",                     # intersected with JSON well-formedness (not regular: bounded tier only)
    "H": r"(?:[0-9A-F][0-9A-F])+",
    "B": r"(?:[cCsSiI](?:,[-+]?[0-9]+)+|f(?:,%s)+)" % FLOAT,     # plus the per-subtype range (integer level)
    # GFA1 positional
    "segment_name_gfa1": NAME1,
    "path_name_gfa1": NAME1,
    "sequence_gfa1": r"\*|[A-Za-z=.]+",
    "orientation": r"[+-]",
    "alignment_gfa1": r"\*|" + CIGAR1,
    "position_gfa1": UINT,
    "oriented_identifier_list_gfa1": r"{n}[+-](?:,{n}[+-])*".format(n=NAME1),
    "alignment_list_gfa1": r"(?:\*|{c})(?:,(?:\*|{c}))*".format(c=CIGAR1),
    # GFA2 positional
    "identifier_gfa2": r"[!-~]+",
    "optional_identifier_gfa2": r"[!-~]+",
    "oriented_identifier_gfa2": r"[!-~]+[+-]",
    "identifier_list_gfa2": r"[!-~]+(?: [!-~]+)*",
    "oriented_identifier_list_gfa2": r"[!-~]+[+-](?: [!-~]+[+-])*",
    "position_gfa2": r"[0-9]+\$?",
    "sequence_gfa2": r"\*|[!-~]+",
    "alignment_gfa2": r"\*|" + TRACE + "|" + CIGAR2,
    "optional_integer": r"\*|-?[0-9]+",
    "custom_record_type": r"[!-~]+",
    "generic": r"[^\t\n]*",
    "comment": r"[^\n]*",
}

# admissible-either-way cells: datatype -> regex of strings on which the oracle does not pin the verdict
APPROX = {
    "Z": r"",                                        # empty value: GFA2 allows [ -~]*, GFA1 requires one char
    "H": r"[0-9A-F](?:[0-9A-F][0-9A-F])*",           # odd number of digits (GFA1 says [0-9A-F]+)
    "B": r"[CSI](?:,[-+]?[0-9]+)+",                  # '+'/'-' sign syntax on unsigned subtypes (range check decides)
    "segment_name_gfa1": r"[!-~]*[+-],[!-~]*",       # names containing [+-], are refused by gfapy by documented convention
    "path_name_gfa1": r"[!-~]*[+-],[!-~]*",
    "oriented_identifier_list_gfa1": r"[!-~]*[+-],[!-~]*[+-],[!-~]*|.*,,.*|.*[^+-],.*",   # lists whose names contain commas: tokenisation is ambiguous
    "position_gfa1": r"",
    "optional_integer": r"\+[0-9]+",
    "custom_record_type": r"[HSLCPEFGOU#]",
    # a single-number trace is grammatical but indistinguishable from a malformed CIGAR; the GFA2 grammar writes <int> as {-}[0-9]+, so that a
    # trace element "-0" is an integer of value 0: whether it is a valid trace spacing is not pinned (gfapy accepts it, and refuses -1)
    "alignment_gfa2": r"[0-9]+|(?:[0-9]+,)*-0+(?:,(?:[0-9]+|-0+))*",
}

FIELD_ALPHABET_NOTE = "document fields never contain TAB or NEWLINE (the readers split on them)"


def fullmatch(datatype, s):
    return re.fullmatch(GRAMMAR[datatype], s) is not None


def approx(datatype, s):
    a = APPROX.get(datatype)
    return a is not None and re.fullmatch(a, s, re.S) is not None


SUBTYPE_RANGE = {"c": (-2**7, 2**7), "C": (0, 2**8), "s": (-2**15, 2**15), "S": (0, 2**16), "i": (-2**31, 2**31), "I": (0, 2**32)}


def b_array_ok(s):
    """numeric array: syntax + every element within the subtype's range (GFA: c,C,s,S,i,I = int8..uint32)"""
    if not fullmatch("B", s):
        return False
    st, *el = s.split(",")
    if st == "f":
        return True
    lo, hi = SUBTYPE_RANGE[st]
    return all(lo <= int(x) < hi for x in el)


def json_ok(s):
    import json
    if not fullmatch("J", s):
        return False
    try:
        json.loads(s)
        return True
    except Exception:
        return False


# ------------------------------------------------------------------------------------------ record level (from the specs)
RECORDS = {
    "gfa1": {
        "H": [],
        "S": ["segment_name_gfa1", "sequence_gfa1"],
        "L": ["segment_name_gfa1", "orientation", "segment_name_gfa1", "orientation", "alignment_gfa1"],
        "C": ["segment_name_gfa1", "orientation", "segment_name_gfa1", "orientation", "position_gfa1", "alignment_gfa1"],
        "P": ["path_name_gfa1", "oriented_identifier_list_gfa1", "alignment_list_gfa1"],
    },
    "gfa2": {
        "H": [],
        "S": ["identifier_gfa2", "i", "sequence_gfa2"],
        "E": ["optional_identifier_gfa2", "oriented_identifier_gfa2", "oriented_identifier_gfa2", "position_gfa2", "position_gfa2",
              "position_gfa2", "position_gfa2", "alignment_gfa2"],
        "F": ["identifier_gfa2", "oriented_identifier_gfa2", "position_gfa2", "position_gfa2", "position_gfa2", "position_gfa2", "alignment_gfa2"],
        "G": ["optional_identifier_gfa2", "oriented_identifier_gfa2", "oriented_identifier_gfa2", "i", "optional_integer"],
        "O": ["optional_identifier_gfa2", "oriented_identifier_list_gfa2"],
        "U": ["optional_identifier_gfa2", "identifier_list_gfa2"],
    },
}
PREDEFINED = {
    ("gfa1", "H"): {"VN": "Z"}, ("gfa2", "H"): {"VN": "Z", "TS": "i"},
    ("gfa1", "S"): {"LN": "i", "RC": "i", "FC": "i", "KC": "i", "SH": "H", "UR": "Z"},
    ("gfa2", "S"): {"RC": "i", "FC": "i", "KC": "i", "SH": "H", "UR": "Z"},
    ("gfa1", "L"): {"MQ": "i", "NM": "i", "RC": "i", "FC": "i", "KC": "i", "ID": "Z"},
    ("gfa1", "C"): {"MQ": "i", "NM": "i", "ID": "Z"},
    ("gfa1", "P"): {}, ("gfa2", "E"): {"TS": "i"}, ("gfa2", "F"): {"TS": "i"}, ("gfa2", "G"): {}, ("gfa2", "O"): {}, ("gfa2", "U"): {},
}
TAGRE = re.compile(r"([A-Za-z][A-Za-z0-9]):([AifZJHB]):(.*)", re.S)


def value_ok(dt, s):
    """True / False / None (None = the oracle does not pin this cell)"""
    if approx(dt, s):
        return None
    if dt == "f" and fullmatch(dt, s):
        import math
        if math.isinf(float(s)):
            return None          # syntactically valid but beyond the double range: the value range is not pinned
    if dt == "B":
        if fullmatch(dt, s) and s[0] == "f":
            import math
            if any(math.isinf(float(x)) for x in s.split(",")[1:]):
                return None
        return b_array_ok(s)
    if dt == "oriented_identifier_list_gfa1" and fullmatch(dt, s):
        # a name may contain commas: when splitting on commas does not give NAME[+-] pieces the tokenisation is ambiguous
        if not all(re.fullmatch(NAME1 + r"[+-]", p) and "," not in p for p in s.split(",")):
            return None
    if dt == "J":
        ok = json_ok(s)
        if ok:
            import json
            v = json.loads(s)
            if not isinstance(v, (list, dict)):
                return None          # scalar JSON: RFC allows, property text calls it a deviation
        return ok
    return fullmatch(dt, s)


def _pos(s):
    return (int(s.rstrip("$")), s.endswith("$"))


def line_ok(line, version):
    """verdict of the oracle on one line of a document of the given version: True / False / None (not pinned)"""
    if "\n" in line:
        return None
    if line.startswith("#"):
        return True
    f = line.split("\t")
    rt = f[0]
    table = RECORDS[version]
    if rt not in table:
        if version == "gfa1" or not fullmatch("custom_record_type", rt) or rt in "HSLCPEFGOU":
            return False if version == "gfa1" else None
        return None                      # custom records: positional/tag boundary is heuristic
    dts = table[rt]
    if len(f) - 1 < len(dts):
        return False
    verdict = True
    for dt, s in zip(dts, f[1:1 + len(dts)]):
        v = value_ok(dt, s)
        if v is False:
            return False
        if v is None:
            verdict = None
    names = set()
    pre = PREDEFINED.get((version, rt), {})
    for t in f[1 + len(dts):]:
        m = TAGRE.fullmatch(t)
        if not m or m.group(3) == "":
            return False
        n, dt, val = m.groups()
        if n in names:
            return False
        names.add(n)
        if n in pre:
            if pre[n] != dt:
                return False
        elif n.isupper() or (n[0].isupper() and n[1].isdigit()):
            return None                  # upper-case names are reserved: gfapy refuses unknown ones, the spec only reserves them
        v = value_ok(dt, val)
        if v is False:
            return False
        if v is None:
            verdict = None
    # cross-field rules
    try:
        if version == "gfa1" and rt == "S":
            tags = dict((TAGRE.fullmatch(t).group(1), TAGRE.fullmatch(t).group(3)) for t in f[3:])
            if "LN" in tags and f[2] != "*" and int(tags["LN"]) != len(f[2]):
                return False
        if version == "gfa1" and rt == "P":
            n = len(f[2].split(","))
            ov = f[3].split(",")
            if not (f[3] == "*" or len(ov) in (n - 1, n)):
                return False
        if version == "gfa2" and rt in ("E", "F"):
            ps = f[4:8] if rt == "E" else f[3:7]
            for b, e in ((ps[0], ps[1]), (ps[2], ps[3])):
                (bv, bl), (ev, el) = _pos(b), _pos(e)
                if bv > ev:
                    return False
                if bl and not el and bv != 0:
                    return False
                if bl and not el:
                    verdict = None
                if bl and el and bv != ev:
                    return False
        if version == "gfa2" and rt == "S" and f[3] != "*" and int(f[2]) != len(f[3]):
            verdict = None               # slen vs sequence length is a SHOULD in GFA2
    except Exception:
        return None
    return verdict
