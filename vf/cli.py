"""./check <property> [--tier quick|thorough] [--replay <file>]

Exit codes: 0 all obligations discharged (or matched by an OPEN known finding) and every bounded check passed;
            1 VIOLATION lines printed; 2 undecided (solver unknown / out of reach without bounded twin);
            3 checker broken (cross-check disagreement, zero obligations, traceback).
"""
import argparse, json, os, sys, time, traceback, subprocess, multiprocessing as mp, hashlib, re

VERIF = os.path.dirname(os.path.dirname(os.path.abspath(__file__)))
sys.path.insert(0, VERIF)


def _worker(args):
    cid, repo, tier = args
    os.environ["VERIF_REPO"] = repo
    try:
        from pyvc import frontend, contract as C
        frontend.ensure_importable(repo)
        import contracts.all  # noqa
        return C.verify(C.REGISTRY[cid], repo, tier)
    except BaseException as e:
        return dict(contract=cid, error="worker crashed: %s\n%s" % (e, traceback.format_exc()), obligations=[], out_of_reach=None,
                    props=[], fn=None, info=None, inlined=[], n_paths=0)


def load_known():
    p = os.path.join(VERIF, "known_findings.jsonl")
    out = []
    if os.path.exists(p):
        for l in open(p):
            l = l.strip()
            if l.startswith("{"):
                out.append(json.loads(l))
    return out


def run_bounded(pid, tier, seed, repo):
    """bounded stand-in tier: runs under the test-suite interpreter against the real code; never counted as proved"""
    mod = os.path.join(VERIF, "bounded", pid.lower() + ".py")
    if not os.path.exists(mod):
        return None
    py = "/venv/bin/python" if os.path.exists("/venv/bin/python") else sys.executable
    env = dict(os.environ, PYTHONPATH=repo + os.pathsep + VERIF, VERIF_REPO=repo, VERIF_TIER=tier, VERIF_SEED=str(seed))
    t0 = time.time()
    p = subprocess.run([py, "-m", "bounded." + pid.lower(), tier, str(seed)], capture_output=True, text=True, env=env, cwd=VERIF)
    try:
        out = json.loads(p.stdout[p.stdout.index("\n{\"bounded\"") + 1:] if "\n{\"bounded\"" in p.stdout else p.stdout[p.stdout.index("{\"bounded\""):])
        res = out["bounded"]
    except Exception:
        res = {"error": "bounded driver failed (exit %s): %s" % (p.returncode, (p.stderr or p.stdout)[-3000:])}
    res["seconds"] = round(time.time() - t0, 2)
    return res


def main(argv=None):
    ap = argparse.ArgumentParser()
    ap.add_argument("pid")
    ap.add_argument("--tier", default=os.environ.get("VERIF_TIER", "quick"), choices=["quick", "thorough"])
    ap.add_argument("--replay")
    ap.add_argument("--jobs", type=int, default=min(16, os.cpu_count() or 4))
    ap.add_argument("--no-bounded", action="store_true")
    ap.add_argument("--only")
    a = ap.parse_args(argv)
    pid = a.pid.upper()
    repo = os.path.realpath(os.environ.get("VERIF_REPO", "/repo"))
    os.environ["VERIF_REPO"] = repo
    seed = int(os.environ.get("VERIF_SEED", "0"))
    if a.replay:
        return do_replay(pid, a.replay, repo)
    t0 = time.time()
    from vf import report
    try:
        from pyvc import frontend, contract as C
        frontend.ensure_importable(repo)
        import contracts.all  # noqa
        from vf import props
        meta = props.META.get(pid)
        if meta is None:
            print("unknown or not-applicable property %s" % pid)
            return 3
        ids = [cid for cid, c in C.REGISTRY.items() if pid in c.props and (not a.only or a.only in cid)]
        ctx = mp.get_context("spawn")
        results = []
        if ids:
            with ctx.Pool(min(a.jobs, len(ids))) as pool:
                results = pool.map(_worker, [(cid, repo, a.tier) for cid in ids], chunksize=1)
        lean = report.lean_status(pid, a.tier)
        bounded = None if a.no_bounded else run_bounded(pid, a.tier, seed, repo)
        if a.only:
            meta = dict(meta, min_obligations=0)       # a developer run over a subset of the contracts
        code = report.finish(pid, a.tier, seed, repo, results, bounded, lean, load_known(), time.time() - t0, meta)
        return code
    except SystemExit:
        raise
    except BaseException as e:
        traceback.print_exc()
        print("CHECKER-BROKEN property=%s %s" % (pid, e))
        return 3


def do_replay(pid, path, repo):
    d = json.load(open(path))
    print(json.dumps({k: d.get(k) for k in ("property", "obligation", "witness", "reproducer", "verifier_output")}, indent=1)[:4000])
    call = d.get("call")
    if call:
        from pyvc import replay as rp
        out = rp.run_call(repo, call)
        print("replayed on %s:" % repo, json.dumps({k: v for k, v in out.items() if k != "tb"})[:2000])
    elif d.get("reproducer"):
        py = "/venv/bin/python" if os.path.exists("/venv/bin/python") else sys.executable
        p = subprocess.run([py, "-c", d["reproducer"]], capture_output=True, text=True, env=dict(os.environ, PYTHONPATH=repo + os.pathsep + VERIF))
        print(p.stdout[-3000:], p.stderr[-3000:])
        return 1 if p.returncode != 0 else 0
    return 0


if __name__ == "__main__":
    sys.exit(main())
