"""setup_cmd: offline, from files on disk only. Compiles the Lean lemmas (if present) and self-checks the tool chain."""
import os, subprocess, sys, hashlib
VERIF = os.path.dirname(os.path.dirname(os.path.abspath(__file__)))
def main():
    import z3
    print("z3", z3.get_version_string())
    src = os.path.join(VERIF, "lemmas", "lean", "Lemmas.lean")
    if os.path.exists(src):
        stamp = os.path.join(VERIF, "lemmas", "lean", "Lemmas.checked")
        try:
            p = subprocess.run(["lean", src], capture_output=True, text=True, timeout=1500, cwd="/opt/veriftools/mathlib4")
            ok = p.returncode == 0 and "error" not in p.stdout and "sorry" not in p.stdout
            print("lean:", "ok" if ok else "FAILED", p.stdout[-500:], p.stderr[-500:])
            if ok:
                open(stamp, "w").write(hashlib.sha256(open(src, "rb").read()).hexdigest())
            elif os.path.exists(stamp):
                os.unlink(stamp)
        except Exception as e:
            print("lean not run:", e)
    return 0
if __name__ == "__main__":
    sys.exit(main())
