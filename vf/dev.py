"""developer runner: python3-vt -m vf.dev [contract ids...]"""
import sys, os, json, importlib, time
sys.path.insert(0, os.path.dirname(os.path.dirname(os.path.abspath(__file__))))
from pyvc import frontend
repo = frontend.repo_root()
frontend.ensure_importable(repo)
from pyvc import contract as C
import contracts.all  # noqa

sel = sys.argv[1:]
tot = ok = 0
t0 = time.time()
for cid, c in C.REGISTRY.items():
    if sel and not any(s in cid for s in sel):
        continue
    r = C.verify(c, repo, os.environ.get("VERIF_TIER", "quick"))
    status = "ERROR " + r["error"] if r["error"] else ("OUT-OF-REACH " + r["out_of_reach"] if r["out_of_reach"] else "")
    n = len(r["obligations"]); d = sum(1 for o in r["obligations"] if o["verdict"] == "unsat")
    tot += n; ok += d
    print("%-34s paths=%-3d obligations=%-3d discharged=%-3d %.2fs %s" % (cid, r["n_paths"], n, d, r.get("seconds", 0), status))
    for o in r["obligations"]:
        if o["verdict"] != "unsat":
            print("    %s: %s witness=%s confirmed=%s outcome=%s %s" % (o["name"], o["verdict"], o.get("witness"), o.get("confirmed"),
                                                                       o.get("replay_outcome"), o.get("replay_error", "")))
print("total obligations %d discharged %d  %.1fs" % (tot, ok, time.time() - t0))
