"""Per-property metadata: claimed level, claim text, assumptions.  MANIFEST.json is generated from this table
(python3-vt -m vf.mkmanifest) so that the two never drift apart."""

TECH_P = "contract-based deductive verification: VCs generated from the real AST by PyVC, discharged by z3/cvc5"
TECH_PB = TECH_P + "; bounded contract check (small-scope enumeration against independent oracles) for the parts out of PyVC's reach, labelled bounded"

META = {
    "C11": dict(
        built=True, bounded=True, level="proof", min_obligations=70, design="§6 C11",
        claim=("Every classifier that decides in which collection of which segment an L/C/E/G line is filed "
               "(from_end, to_end, _substring_type, _alignment_type_for_substring_types, E and G _refkey_for_s, _segment_role, _is_sid1_from, "
               "the three _initialize_references, the derived neighbourhood queries) satisfies a contract whose postcondition is the "
               "specification's edge semantics (specs/edges.py, a relation on the degenerate empty-segment cells); proved for ALL positions, "
               "orientations and interval kinds, not for a table of samples; plus consistency lemmas between the E-line readings."),
        note=("Trusted: PyVC engine + builtin models, z3/cvc5, the spec functions, the shape preconditions (positions are non-negative ints or "
              "LastPos; orientations are + or -); attribute reads of positional fields give the decoded field value (contract of "
              "DynamicFields.__getattribute__, exercised by the bounded twin); 'after later mutations' rests on the C02 invariant."),
        technique=TECH_P,
        assumptions=["shape: positions non-negative, orientations in {+,-}", "C02 reference-graph invariant for 'after later mutations'"]),
}

B_NOTE = (" The bounded part is a stand-in (never counted as proved): the same contract checked at run time on the real functions over the stated small scope, "
          "against oracles written independently of gfapy (bounded/oracle.py, specs/grammar.py).")

META.update({
    "C01": dict(
        built=True, bounded=True, level="exploration", tierP=False, min_obligations=0, design="§6 C01",
        claim=("BOUNDED: view(write(parse T)) = view(T) under the documented normalisations, no INVALID marker, and write∘parse is a fixed point, for every closed subset of <=2 (quick) / <=3 (thorough) "
               "catalogue lines of each version in both orders over string/list/LF-file/CRLF-file/trailing-newline entry points, vlevel 0-3, explicit/auto version, and for every tag datatype x value pool. "
               "The field-level mechanisms (decoders accept exactly the grammar) are proved under C04; the document-level statement itself is not within PyVC's reach (orchestration over the object graph)."),
        note="Bounded exploration against the independent tokenizer/view oracle; JSON canonicalisation and float spelling compared through Python's json/float." + B_NOTE,
        technique="bounded contract check of Gfa.__init__/__str__ against an independent text oracle (stand-in; the deductive part of this property is the field-level obligations reported under C04/C20)",
        assumptions=["documents drawn from the catalogue of bounded/universe.py", "json/float canonical forms taken from CPython"]),
    "C02": dict(
        built=True, bounded=True, level="exploration", tierP=False, min_obligations=0, design="§6 C02",
        claim=("BOUNDED: the invariant WF (ownership, lookup under the current identifier, forward closure, reference/back-reference symmetry with multiplicity, removed lines unowned) "
               "holds after construction in both arrival orders and at the end of every history of <=2 (quick) / <=3 (thorough) legal steps (rm, disconnect, rename, add) on the shared universe."),
        note="WF is evaluated on the real object graph (_records, _data, _refs) by bounded/state.py." + B_NOTE,
        technique="bounded invariant monitor (class invariant as pre/post of every public mutator) over enumerated histories",
        assumptions=["histories drawn from bounded/histories.py", "symmetry for group lines (P/O/U) is checked as >=1 back-reference per referenced line"]),
    "C04": dict(
        built=True, bounded=True, level="other", min_obligations=100, design="§6 C04",
        claim=("PROVED (all strings, unbounded): for the datatype modules within PyVC's reach (see functions_under_contract) the accept language of validate_encoded and of decode equals the oracle grammar "
               "on document fields, modulo the listed ~ cells; `$` only on the last position of a segment with a known sequence, for both segments of an E line; the P-line list-size rule (n-1, n or a single '*' overlaps, for all sizes). BOUNDED: the remaining datatypes (J, B, alignments, lists), validate_decoded∘decode, and the line/record level "
               "(field counts, tags, predefined tag types, cross-field rules) by exhaustive short strings and single-point mutations against specs/grammar.py."),
        note="Fields are quantified over [^\\t\\n]* (the readers split on TAB/NEWLINE). The regular part is exact; JSON well-formedness, numeric ranges of B arrays and record-level rules are bounded only." + B_NOTE,
        technique=TECH_PB,
        assumptions=["document fields contain no TAB/NEWLINE", "oracle grammar specs/grammar.py incl. its ~ cells"]),
    "C05": dict(
        built=True, bounded=True, level="exploration", tierP=False, min_obligations=0, design="§6 C05",
        claim=("BOUNDED: after every history of the C02 space (plus tag set/delete) the canonical content of the Gfa equals that of the independent text model "
               "(documented removal cascade, dropped mentions, rename by substitution), and re-parsing the written text gives the same content."),
        note="Oracle: bounded/oracle.py TextModel written from doc/tutorial/references.rst and the property text." + B_NOTE,
        technique="bounded contract check of the mutators against an independent text model",
        assumptions=["histories drawn from bounded/histories.py"]),
    "C07": dict(
        built=True, bounded=True, level="other", min_obligations=100, design="§6 C07",
        claim=("PROVED (all strings): for the datatype modules within reach, every exception class that can escape decode/validate_encoded/unsafe_decode is a subclass of gfapy.Error "
               "(implicit IndexError/ValueError/AttributeError paths are generated, not ignored); Path._compute_required_links indexes its lists in range for every pair of list sizes (InconsistencyError otherwise). BOUNDED: lines, documents and API strings (short strings exhaustively, single-point mutations, levels 0-3)."),
        note="Termination and recursion depth are not decided (partial correctness); RecursionError on pathological nesting is a known limit of the technique." + B_NOTE,
        technique=TECH_PB,
        assumptions=["arguments are str (the property quantifies over strings)", "termination not proved"]),
    "C03": dict(
        built=True, bounded=True, level="exploration", tierP=False, min_obligations=0, design="§6 C03",
        claim=("BOUNDED: for every closed catalogue document of <=2 (quick) / <=3 (thorough) primary lines, all permutations of its lines (up to 5 / 6 lines, else seeded samples) build the same version, "
               "identifier namespace, canonical content, per-line reference targets and back-reference sets; no placeholder remains; WF holds. Same-identifier O lines keep their relative order "
               "(C17 defines their concatenation by arrival) and documents whose paths do not determine their links (unspecified overlaps over parallel links) are excluded as not pinned."),
        note="The permutation quantifier is not within PyVC's reach (commutativity of add_line needs functional contracts of the whole orchestration)." + B_NOTE,
        technique="bounded contract check of Gfa.__init__ (view(result) = specview(multiset(lines))) over all permutations of small documents",
        assumptions=["documents drawn from bounded/universe.py"]),
    "C08": dict(
        built=True, bounded=True, level="exploration", tierP=False, min_obligations=0, design="§6 C08",
        claim=("BOUNDED: on every catalogue state, each of ~25 operations per version that are meant to fail (duplicates, identifier clashes across record types, version conflicts, malformed fields, "
               "inconsistent header values, contradictory group tags, illegal edits, renames to names in use) leaves the full-state snapshot (content, version, identifiers, per-line references and "
               "back-references) unchanged when it raises; two failing calls followed by a legal add behave like a fresh Gfa."),
        note="Observable state = written content, version, names, and per-line reference/back-reference identities (bounded/state.py snapshot); the line queue and the integer-name counter are not observed." + B_NOTE,
        technique="bounded frame check (state' = state on exceptional exit) of the public mutators over enumerated failing operations",
        assumptions=["failing-operation list of bounded/c08.py"]),
    "C09": dict(
        built=True, bounded=True, level="exploration", tierP=False, min_obligations=0, design="§6 C09",
        claim=("BOUNDED (exhaustive over the identifier pool): on 3 catalogue states per version, adding every identified record type / renaming every identified line to every identifier class "
               "(in use by the same type, by another type, fresh, '*', integer-looking) raises NotUniqueError iff the identifier is in use; afterwards identifiers are pairwise distinct, "
               "line(id) returns the carrier, a rename equals substitution in the independent text model, unused_name() is fresh."),
        note="Renaming a U/O line onto an existing group of the same type is not pinned (documented merge vs. error)." + B_NOTE,
        technique="bounded check of the UNIQ invariant and of the add/rename contracts against the text model",
        assumptions=["states of bounded/c09.py"]),
    "C10": dict(
        built=True, bounded=True, level="exploration", tierP=False, min_obligations=0, design="§6 C10",
        claim=("BOUNDED: on catalogue Gfas at vlevel 0/1/3 every read-only call of the list in bounded/c10.py (about 60 kinds: writes, field reads, validation, clone/eq/diff, alignment complement and lengths, "
               "link complement/equivalence/compatibility against every other link, neighbourhoods, topology, path and set resolution) is made twice in random order: the full-state snapshot never changes "
               "and the two answers are equal. to_gfa2_s of L/C lines assigns an ID by design and is not in the list."),
        note="The frame obligations (modifies = {}) on the real functions are being brought under PyVC contract function by function; until then the claim is bounded." + B_NOTE,
        technique="bounded frame check (modifies nothing) of the read-only API",
        assumptions=["read-only API list of bounded/c10.py"]),
    "C13": dict(
        built=True, bounded=True, level="exploration", tierP=False, min_obligations=0, design="§6 C13",
        claim=("BOUNDED (exhaustive within the bound): for every set of <=3 (quick) / <=4 (thorough) of 17 line kinds x explicit version None/gfa1/gfa2, ALL orders of the lines give the same outcome, "
               "which equals the oracle F(set of kinds): gfa1 / gfa2 / VersionError for mixed evidence or an unknown VN; every line ends up in the Gfa exactly once."),
        note="Oracle written from the property text (bounded/c13.py). vlevel 1; lines are added one by one and the queue processed, so that missing-segment validation does not mask the version outcome." + B_NOTE,
        technique="bounded check of the version decision against an order-free oracle over all permutations",
        assumptions=["line kinds of bounded/c13.py"]),
    "C16": dict(
        built=True, bounded=True, level="exploration", tierP=False, min_obligations=0, design="§6 C16",
        claim=("BOUNDED: on seeded random GFA1 and GFA2 graphs (<=4 segments, <=5 edges from an orientation-complete pool with self-links, hairpins, containments, internal alignments), optionally after "
               "removing a segment, connected_components equals the union-find classes over the dovetail records of the document, segment_connected_component returns the class of its argument, "
               "and n_dovetails / n_containments / n_internals / n_dead_ends equal the counts over the records and segment ends."),
        note="Oracle: bounded/oracle.py (union-find, independent E-line classification)." + B_NOTE,
        technique="bounded check of the topology queries against a union-find oracle",
        assumptions=["graphs of bounded/c16.py (VERIF_SEED)"]),
    "C18": dict(
        built=True, bounded=True, level="other", min_obligations=100, design="§6 C18",
        claim=("PROVED (all strings): for the datatype modules within reach, L(decode) and L(validate_encoded) coincide with the grammar (hence input accepted by the safe decoder is accepted by every "
               "other level's check of the same datatype) and unsafe_decode raises only gfapy.Error. BOUNDED: same canonical content and text at levels 0-3 and monotone acceptance on the catalogue and "
               "the tag value pool; assignment programs per tag datatype (valid/invalid values; reported at set at level 3, at write at level 2, by validate()/validate_field() at every level)."),
        note="Known finding KF-level0-echo: level 0 echoes non-canonical delayed values." + B_NOTE,
        technique=TECH_PB,
        assumptions=["value pools of bounded/c18.py"]),
    "C19": dict(
        built=True, bounded=True, level="exploration", tierP=False, min_obligations=0, design="§6 C19",
        claim=("BOUNDED: every line (and the merged header) of catalogue Gfas, incl. J/B/H-tagged lines, repeated header tags, fragments and custom records, at vlevel 0/1/3: the clone is detached, "
               "reference-free, writes the same text, compares equal; editing in place every mutable value reachable from the clone never changes the original or its Gfa, and vice versa."),
        note="The alias table of clone() (which value classes are copied / shared) is being brought under PyVC contract; until then bounded." + B_NOTE,
        technique="bounded check of the clone contract (fresh, equal, no shared mutable state)",
        assumptions=["mutation procedure of bounded/c19.py"]),
    "C20": dict(
        built=True, bounded=True, level="exploration", tierP=False, min_obligations=0, design="§6 C20",
        claim=("BOUNDED (exhaustive over the pool): integers at every B-subtype boundary +-1 and beyond, finite/non-finite floats, strings incl. tabs/newlines/non-ASCII, characters, nested JSON, integer "
               "arrays spanning and exceeding each subtype, float/mixed/empty arrays, byte arrays x declared or default datatype x vlevel 0-3: default datatype, written syntax in the grammar, smallest "
               "array subtype, reparse gives an equal value with the same datatype; unrepresentable values are reported by validate() and by writing at level >= 2."),
        note="bool is outside the stated value set (written as i:True): recorded as assumption, not claimed." + B_NOTE,
        technique="bounded check of set/write/parse round trip against the grammar oracle",
        assumptions=["value pool of bounded/c20.py", "bool values excluded"]),
    "C06": dict(
        built=True, bounded=True, level="exploration", tierP=False, min_obligations=0, design="§6 C06",
        claim=("BOUNDED: GFA1 graphs with known lengths (every orientation pair x segment pairs incl. self-links x 8 CIGARs incl. asymmetric and full-length ones, named/unnamed links, containments at offset "
               "0/1/flush right, chains with forward/reverse/two-segment/single-segment paths): to_gfa2() output is valid at vlevel 3, segments keep length/sequence/tags, every E line has the oracle "
               "coordinates ($ exactly at a segment end) and the same alignment, paths visit the same oriented segments, and to_gfa1() of the result equals the original modulo assigned IDs/LN."),
        note="A link whose overlap covers a whole segment is indistinguishable from a containment in GFA2: its round trip is not pinned. Oracle coordinates: bounded/c06.py from the GFA specifications." + B_NOTE,
        technique="bounded check of the conversion contracts against an independent coordinate oracle (the arithmetic kernels are being brought under PyVC contract)",
        assumptions=["graphs of bounded/c06.py"]),
    "C12": dict(
        built=True, bounded=True, level="exploration", tierP=False, min_obligations=0, design="§6 C12",
        claim=("BOUNDED: every orientation pair x (distinct segments | self-link) x CIGAR pool over M,I,D,P,=,X,H: complement fields vs the independent oracle, receiver unchanged, involution, exchange of "
               "reference/query lengths, symmetric and repeatable equivalence tests, equal hashes, is_eql iff same canonical edge; graph level: adding the complement adds nothing and raises nothing, "
               "_search_link finds the stored link from both forms, a different link is a different edge, paths in both directions resolve to the stored link with the right direction."),
        note="S and N operations are outside the claim (folded by the complement)." + B_NOTE,
        technique="bounded check of the link/CIGAR contracts against an independent complement oracle (the algebraic laws are being brought under PyVC contract)",
        assumptions=["CIGAR pool of bounded/c12.py"]),
    "C14": dict(
        built=True, bounded=True, level="exploration", tierP=False, min_obligations=0, design="§6 C14",
        claim=("BOUNDED: seeded GFA1 graphs (2-5 segments with sequences or '*', 1-5 links with self-links, hairpins, branching, cycles; overlaps '*' or match-only): linear_paths equals the reference "
               "maximal chains (end degrees computed on the text; compared up to reversal / rotation of a cycle); after merge_linear_paths the merged segments spell the reference sequence (overlap-trimmed, "
               "members oriented by the traversal) with agreeing length, the outward links are those of the reference model (up to reversal of each merged segment), components are preserved, WF holds, "
               "and merging again changes nothing. The break point of a merged cycle is not pinned."),
        note="Reference implementation: bounded/c14.py." + B_NOTE,
        technique="bounded check of linear_paths/merge_linear_paths against a reference implementation on the text",
        assumptions=["graphs of bounded/c14.py (VERIF_SEED)", "GFA2: only as the image of GFA1 graphs with match-only CIGARs (differential against the GFA1 merge)"]),
    "C15": dict(
        built=True, bounded=True, level="exploration", tierP=False, min_obligations=0, design="§6 C15",
        claim=("BOUNDED: seeded GFA1 graphs, target segment named A / A*2 / X*3 with or without counts, 0-5 links and containments (self-links, hairpins), factor -1..4, every distribution policy, given or "
               "automatic copy names: k-1 fresh distinct copies equal to the original with counts // k; without distribution every edge of the target is copied onto every copy with counts // k; with "
               "distribution no link is invented, links are removed on one end only (the requested one) and every former neighbour stays linked to some copy; factor 1 changes nothing, factor 0 equals "
               "removal in the text model, a negative factor is refused without change; the rest of the graph is untouched; WF and UNIQ hold."),
        note="Reference model: bounded/c15.py. _auto_select_distribute_end is additionally under PyVC contract (contracts/c15.py)." + B_NOTE,
        technique="bounded check of multiply against a reference model on the text; " + TECH_P + " for the end-selection kernel",
        assumptions=["graphs of bounded/c15.py (VERIF_SEED)", "GFA2 graphs: copies and edges only (no distribution oracle); internal alignments are outside the property"]),
    "C17": dict(
        built=True, bounded=True, level="exploration", tierP=False, min_obligations=0, design="§6 C17",
        claim=("BOUNDED: seeded GFA2 graphs over 4 segments and 1-5 of 7 edges with 1-2 O groups (walks with omitted edges/segments, random item lists, nested groups with +/-) and 0-2 U groups, lines in a "
               "seeded arrival order: captured_path equals the reference walk (unique fitting edge supplied, segments supplied for edges, nested paths inlined/reversed) or raises NotFound/NotUnique exactly "
               "when the reference does; induced segment and edge sets equal the reference; multi-line U/O definitions concatenate items in arrival order and unite tags."),
        note="Degenerate item lists (same edge twice, consecutive parallel edges, a segment repeated after a nested path) are not pinned. Mutually nested groups recurse without bound (not checked)." + B_NOTE,
        technique="bounded check of group resolution against a reference implementation on the text",
        assumptions=["graphs of bounded/c17.py (VERIF_SEED)"]),
})

NOT_BUILT_REASON = "check not built yet at this commit (work in progress; see DESIGN.md §7 priorities)"
ALL = ["C%02d" % i for i in range(1, 21)]


# ---- deductive coverage added after the first bounded pass: which properties now also carry proof obligations
_P = {
    "C01": (10, "PROVED: _parse_gfa_tag returns exactly the name / datatype / value substrings of an accepted tag (the tag reappears unchanged); Multiline._split writes, for every tag of the merged header, "
                "one H line carrying that name, its DECLARED datatype and its value at the header's level (loop invariant, all tag counts); integer_type chooses the array subtype. "),
    "C02": (40, "PROVED: Connection.connect registers a line only after its references are set up and, when that fails, takes back the references and exactly the placeholders created during the call (nothing that existed before; loop invariant); the substitution of a placeholder unregisters it before the real line is registered. PROVED (all list contents, unbounded): _delete_reference removes exactly one occurrence keeping the order of the others (loop invariant), _add_reference adds exactly one occurrence at the end / front; "
                "UpdateReferences.__update_reference_in_list, removal case: afterwards the list holds no None and no mention of the removed line, every other element survives; replacement case: same length, same "
                "objects, every mention re-pointed (loop invariants over a list that is written while it is iterated); no KeyError/IndexError. "),
    "C03": (20, "PROVED: Path._initialize_links records for the j-th step the stored link and '-' iff it matches in complement form with the overlap, independently of the steps before it (loop invariant, all path lengths); __is_replaced_by_complement is the stated Boolean function (ends decide when an overlap is unspecified); the substitution protocol of placeholders. PROVED: when a placeholder line is replaced (__update_reference_in_list, replacement case) every oriented reference to it in the list is re-pointed and its orientation is inverted iff the "
               "real line is the complement form - for every list, so independently of which of the two arrived first. "),
    "C05": (28, "PROVED: the list helpers the removal cascade relies on (_delete_reference; __update_reference_in_list drops EVERY mention of a removed line and nothing else); FieldData.delete removes value and "
                "datatype of a tag (the tag is as if never present) and routes the identifier tag of a connected link / containment through the renaming path. "),
    "C06": (55, "PROVED (all lengths and positions): link and containment coordinates equal the specification (each coordinate carries $ iff it equals the segment length), beg/end accessors, LastPos subtraction, "
                "the E-line readings (_segment_role, _is_sid1_from, oriented_from/to, pos, overlap direction), CIGAR reference/query lengths as weighted sums (loop invariants), interval classification. "),
    "C08": (160, "PROVED: Connection.connect / _substitute_virtual_line / _import_references: a line refused before or while its references are set up leaves owner, registry and every pre-existing line untouched (event order + loop invariant over the log of new placeholders); SameID._process_not_unique reports contradicting tags and foreign record types before any write. PROVED: FieldData._set_existing_field raises only before its first write (5 receiver classes, ghost 'dirty' flag); Creators.__add_line_unknown_version: a line that cannot be parsed, a header that "
                 "cannot be merged or that names an unsupported version is refused with version, guess, queue, header count untouched. "),
    "C09": (160, "PROVED: connect refuses a line that refers to its own identifier or whose identifier names a placeholder of another record type, before anything is touched; a group line is merged only into a group of its own type (6 class pairs). PROVED: _set_existing_field re-enters the registry only under a free identifier (or the line's own); FieldData.delete of the identifier tag of a connected line goes through that path. "),
    "C10": (160, "PROVED (frame obligations, all inputs): for ~200 functions of the read-only API the modular effect analysis of the real source shows writes(F) = {} modulo five named benign caches; "
                 "every field decoder is undecorated and write-free; CIGAR.complement additionally has a functional + frame contract (fresh result, receiver unchanged, loop invariant); WriterWoSequence.__str__ restores its temporary write. "),
    "C12": (50, "PROVED: path resolution (Path._initialize_links, all path lengths) and placeholder replacement (__is_replaced_by_complement, __update_reference_in_list) record the direction of traversal as stated. PROVED (all CIGAR lengths, unbounded): complement()[k] = swap(self[n-1-k]) with lengths kept and the receiver unchanged; length_on_reference / length_on_query are the weighted sums; "
                "Operation equality; is_same / is_complement / is_eql are the stated Boolean functions; E-line overlap direction; symbol inversion; the number of links a path requires and that no index leaves "
                "its list; replacement of a placeholder link flips the recorded direction iff the real link is its complement. "),
    "C13": (24, "PROVED (finite tables, every entry): Lines.GFA1Specific / GFA2Specific and RECORD_TYPE_VERSIONS hold exactly the classes / record types of each version. PROVED: Creators.__add_line_unknown_version decides the version as the stated function of the arriving line's kind, processes the queue once and only after the version is set; "
                "Gfa.from_file hands vlevel, version and dialect unchanged to the constructor and reads the file once into that object. "),
    "C14": (55, "PROVED (finite table, every entry): the Watson-Crick table maps every IUPAC code to its complement in both cases and is an involution; the GFA1-style setters of E lines write the reference their getters read. PROVED kernels: from_end / to_end, symbol inversion, connectivity symbol, CIGAR length sums. "),
    "C15": (13, "PROVED: e.from_segment / to_segment / from_orient / to_orient = v on an E line write the sid (sid1 or sid2, by positions and orientations) that the getter reads - the renaming step of the copies relies on it. PROVED: _auto_select_distribute_end satisfies the documented clauses for all sizes; the window arithmetic of _distribute_links covers every neighbour (SMT lemma, also in Lean). "),
    "C16": (4, "PROVED kernels: from_end / to_end end types, connectivity symbol. "),
    "C17": (5, "PROVED: SameID._process_not_unique: the items of a group defined over several lines are the stored items followed by the new ones (all lengths), only a group of the same type is extended, tags are checked before anything is written. "),
    "C19": (160, "PROVED (frame): clone() and every other read-only function writes nothing to the receiver, the object returned by clone() shares no attribute value with it, and the field decoders are "
                 "undecorated write-free functions (no memoised mutable result shared between lines) (effect analysis, see C10). "),
    "C20": (30, "PROVED (all integer ranges): integer_type returns the smallest subtype of the right signedness that holds [lo,hi] and raises ValueError iff none does; Multiline._split keeps the declared datatype of "
                "every header tag; FieldData.delete forgets the datatype of a deleted tag. "),
}
# contracts added in parts 3-5 (text appended to the PROVED part of the claim)
_P_MORE = {
    "C11": "PROVED (part 9): Other.other_oriented_segment answers with the TO side iff the argument equals the FROM side, else the FROM side iff it equals the TO side, else None (tolerant) / NotFoundError (both sides compared through OrientedLine.__eq__). ",
    "C01": "PROVED: Writer.to_list writes every positional field and every tag in order, a field that cannot be encoded as its fallback text with the `# INVALID` marker (two loop invariants); Writer.field_to_s encodes a value with the datatype of its field; FieldArray._vpush / Multiline.add keep the datatype of a header tag given on several lines; Segment._subclass tells the segment syntax from the fields in front of the tags, and its tag test accepts every tag of every datatype (regex inclusion). ",
    "C02": "PROVED: Disconnection.disconnect performs its seven steps in the order that keeps the registry and the collections consistent, _disconnect_dependent_lines visits every dependant of every declared collection; the instance replaced by _substitute_virtual_line is left detached (no owner, no share in the adopted collections). PROVED (part 7): Creators._register_line stores a line exactly once under the key Destructors._unregister_line looks for (name / identity / identity within the sub-collection of a fragment's external sequence, collections created on demand), and _unregister_line pops exactly that entry - the sub-collection of an external sequence iff its last fragment leaves - and nothing else. ",
    "C03": "PROVED: Link.is_compatible / _direct / _complement are the stated Boolean functions (an unspecified overlap on EITHER side matches), so that a path and its link meet in both arrival orders; the tags of group lines sharing an identifier are united with their datatypes whatever the order. ",
    "C04": "PROVED: validate_interval (E and F lines, connected or not) raises iff begin > end or `$` is misused, and the record-specific validation of E and F lines applies it to exactly their two intervals; the Field_* contracts pin every datatype with a grammar on ALL strings (a value followed by a newline is refused). ",
    "C05": "PROVED: disconnect / _disconnect_dependent_lines (order of the steps; every dependant of every declared collection, each once). PROVED (part 7): Destructors._unregister_line (exactly the entry of the removed line leaves the registry); Link.is_compatible / _direct / _complement (the path over a removed link is found through the link from either form); Disconnection._remove_nonfield_backreferences: every set and path that lists a removed gap has the mention dropped exactly once, and a group left without items is disconnected exactly once iff it is still connected, nothing else (two passes of one loop, invariant with a frame for the collection still to be walked). ",
    "C06": "PROVED: Ordered._find_edge_from_path_to_segment (the edge an O line leaves implicit, with its orientation: what the conversion of an ordered group to a GFA1 path writes). PROVED (part 7): Path._initialize_links records the direction in which each step uses its link (what to_gfa2 writes as the sign of the edge); Ordered._check_gfa1_path_steps: an ordered group has a GFA1 path as counterpart iff every edge of its captured path is a dovetail from the previous to the next oriented segment, read forwards or as its complement (ValueError otherwise; loop invariant over the steps, every length). PROVED (part 9): Containment.rpos = pos + CIGAR.length_on_reference (under contract), an unspecified overlap refused with gfapy.ValueError. ",
    "C07": "PROVED: validate_interval raises gfapy errors only; the Field_* contracts hold for every string. ",
    "C08": "PROVED: Multiplication.multiply checks requested copy names (count, names carried by or referred to by a line, repeats) before anything is changed, and raises nothing afterwards; FieldArray._vpush / Multiline.add refuse a contradicting header value before writing; the tag loops of SameID write nothing before the check has passed. PROVED (part 7): Creators._register_line notes a virtual line in the log of the connect in progress iff one is open; Connection._validate_no_reference_to_own_name writes nothing. ",
    "C09": "PROVED: Finders._search_duplicate finds the line an arriving line collides with by record type and identifier; the instance replaced by a later line is detached, so that renaming it cannot touch the registry; the names computed for copies are fresh (ComputeCopyNames). PROVED (part 7): Connection._validate_no_reference_to_own_name refuses a line iff one of its reference fields mentions its own identifier - text, line or oriented reference, single or in a list (two loop invariants, all numbers of fields and items); Creators._register_line / Destructors._unregister_line keep the registry keyed by identifier and move the counter of integer names to max(counter, n) exactly for ASCII digit names of at most 1000 characters. ",
    "C12": "PROVED: Link.is_compatible / _direct / _complement; Finders._search_duplicate hands a link to the link search; Finders._search_link returns the first dovetail of the from-segment that is a link compatible with the request in either form, None iff there is none or the segment is unknown (loop invariant with early exit). PROVED (part 9): Canonical.canonicize returns the link itself iff is_canonical(), else what complement() returns; Other.other_oriented_segment answers with the TO side iff the argument equals the FROM side, else the FROM side iff it equals the TO side, else None (tolerant) / NotFoundError. ",
    "C13": "PROVED: Segment._subclass: GFA1 syntax iff two fields precede the maximal run of tag-looking fields, GFA2 iff three, FormatError otherwise (descending loop, all numbers of fields), and its tag test accepts the tags of every datatype A i f Z J H B; __add_line_GFA1 / __add_line_GFA2 merge a header only if it names no version or their own (any other VN, also one beginning like it, is refused before anything is kept), refuse a segment written in the other syntax, and connect every other record once. PROVED (part 7): in a Gfa of the rGFA dialect a line that would fix the version gfa2 (GFA2 segment, E F G U O, VN 2.0) is refused with VersionError at every level before anything is kept (AddLineUnknownVersion); process_line_queue sets the version to the guess before the first queued line is added and hands every queued line to add_line exactly once, in order, then empties the queue (loop invariant, every queue length). ",
    "C14": "PROVED: Link.is_compatible / _direct / _complement (the link a path step asks for is found whatever side leaves the overlap unspecified). ",
    "C15": "PROVED: Multiplication.multiply as orchestrator, for every factor, list of copy names and distribution setting: factor < 0 refused, 0 = one removal, 1 = nothing, k >= 2 = one division of the counts by k, k-1 clones named by the requested (checked) or computed names in order, one distribution iff a policy is given (two loop invariants; callees as ghost events, see assumptions); __divide_counts sets each of KC/RC/FC that the line carries once to value div factor; __divide_segment_and_connection_counts divides the counts of the segment once and of every edge exactly once (an edge of the segment with itself is listed twice); __clone_segment_and_connections makes one connected copy of the segment and exactly one connected clone per edge, in which every end that was the segment is the copy, a named edge carries a fresh name and the originals are untouched; _compute_copy_names returns factor-1 pairwise distinct names none of which is carried or referred to by a line (for loop with an inner while loop). PROVED (part 7): Multiplication._distribute_links: member m of [original] + copies keeps on the distributed end exactly the links whose signature is among the signatures m .. m+max(n-k,0) of the original's links (clamped slice), every other connected link of that end is disconnected once, nothing else is touched (two loop invariants with quantified frame, all numbers of copies and links; assumed: the links on that end of different members are different lines); with the window-cover lemma no former neighbour loses all its links. ",
    "C16": "PROVED: n_dovetails, n_containments, n_internals = (sum over the segments of the sizes of the corresponding collections) div 2, n_dead_ends = number of empty dovetail collections (loop invariants over a recursive sum, all numbers of segments); the sum is twice the number of records by the double-counting lemma collections_sum_twice (Lean), given the reference-graph invariant of C02. ",
    "C17": "PROVED: the tag loops of SameID: a tag the new line does not define is imported with the stored value under the stored DATATYPE (declared before the value is set), a tag both define must agree (false values are values), all numbers of tags; Ordered._find_edge_from_path_to_segment supplies the one edge that joins two adjacent oriented segments with its orientation, NotFoundError iff none fits, NotUniqueError iff two DIFFERENT edges fit (an edge of a segment with itself is listed twice and counts once) - the only step of group resolution within reach. ",
    "C18": "PROVED: Writer.field_to_s: at level >= 2 the text that is written has been validated whatever the stored value was (text or decoded value); Writer.to_list marks a line with an unwritable field; FieldData._set_existing_field validates at level 3 before storing; the decoded value of a list of identifiers is valid iff it is not empty and every element is an identifier (loop invariant). PROVED (part 7): FieldData.set validates the value of a NEW tag against its default datatype at level 3 before datatype and value are stored; a refused value leaves nothing behind. ",
    "C19": "PROVED: Cloning.clone copies every field by kind (reference -> identifier text, JSON -> round trip, array / list / text / position -> fresh object; loop invariant over all fields), hands the copy to the constructor with version and dialect of the original, gives the clone a datatype table of its own and neither owner nor collections; Line.__eq__ is true iff record type and field names agree and every field holds equal values or is written the same way. ",
    "C20": "PROVED: _set_existing_field drops the datatype of a tag exactly when None is assigned to a tag that has a value; Writer.field_to_s / to_list; DeleteTag for four receiver classes; FieldData.set by case (a new tag is stored together with the default datatype of its value, every refusal precedes every write); the table of default datatypes holds the documented entries (finite table). ",
    "C10": "PROVED (part 7): Gfa.to_gfa2_s and Gfa.to_gfa2 hand what _gfa1_edges_without_id recorded before the first conversion to _take_back_assigned_ids exactly once on every way out, also when a line cannot be converted (try/finally); _take_back_assigned_ids removes the ID of exactly the recorded edges that are connected and have one, puts the two registries back and resets the counter (loop invariant); _gfa1_edges_without_id records exactly the links and containments without ID tag (filter over both collections), the counter, and COPIES of the two registries. ",
}
for _p, _t in _P_MORE.items():
    if _p in _P:
        _P[_p] = (_P[_p][0], _P[_p][1] + _t)
    else:
        META[_p]["claim"] = _t + META[_p]["claim"]          # (C04, C07: tier P from the start; floors and technique as declared above)
for _p, (_n, _txt) in _P.items():
    META[_p]["tierP"] = True
    META[_p]["min_obligations"] = _n
    if META[_p]["level"] in ("exploration",):
        META[_p]["level"] = "other"
    META[_p]["claim"] = _txt + META[_p]["claim"]
    META[_p]["technique"] = TECH_PB

# floors on the number of obligations generated per run (vacuity guard): about 70 % of the count on the tree of part 5
_FLOORS = {"C01": 70, "C02": 175, "C03": 120, "C04": 195, "C05": 400, "C06": 128, "C07": 215, "C08": 460, "C09": 420, "C10": 240, "C11": 114, "C12": 108,
           "C13": 65, "C14": 90, "C15": 88, "C16": 56, "C17": 46, "C18": 490, "C19": 235, "C20": 410}
for _p, _n in _FLOORS.items():
    META[_p]["min_obligations"] = _n
