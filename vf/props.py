"""Per-property metadata: claimed level, claim text, assumptions.  MANIFEST.json is generated from this table
(python3-vt -m vf.mkmanifest) so that the two never drift apart."""

TECH_P = "contract-based deductive verification: VCs generated from the real AST by PyVC, discharged by z3/cvc5"
TECH_PB = TECH_P + "; bounded contract check (small-scope enumeration against independent oracles) for the parts out of PyVC's reach, labelled bounded"

META = {
    "C11": dict(
        built=True, level="proof", min_obligations=90, design="§6 C11",
        claim=("Every classifier that decides in which collection of which segment an L/C/E/G line is filed "
               "(from_end, to_end, _substring_type, _alignment_type_for_substring_types, E and G _refkey_for_s, _segment_role, _is_sid1_from, "
               "the three _initialize_references, the derived neighbourhood queries) satisfies a contract whose postcondition is the "
               "specification's edge semantics (specs/edges.py, a relation on the degenerate empty-segment cells); proved for ALL positions, "
               "orientations and interval kinds, not for a table of samples; plus consistency lemmas between the E-line readings."),
        note=("Trusted: PyVC engine + builtin models, z3/cvc5, the spec functions, the shape preconditions (positions are non-negative ints or "
              "LastPos; orientations are + or -); attribute reads of positional fields give the decoded field value (contract of "
              "DynamicFields.__getattribute__, exercised by the bounded twin); 'after later mutations' rests on the C02 invariant."),
        technique=TECH_P,
        assumptions=["shape: positions non-negative, orientations in {+,-}", "C02 reference-graph invariant for 'after later mutations'"]),
}

NOT_BUILT_REASON = "check not built yet at this commit (work in progress; see DESIGN.md §7 priorities)"
ALL = ["C%02d" % i for i in range(1, 21)]
