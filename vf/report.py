"""Turn contract results + bounded results into verdict lines, replay files and the evidence file."""
import json, os, re, sys, time, hashlib

VERIF = os.path.dirname(os.path.dirname(os.path.abspath(__file__)))

BUILTIN_ASSUMPTIONS = [
    "assumed builtin contract: int(str) accepts ws*[+-]?d+(_d+)*ws* on ASCII input, sign abstraction only (value uninterpreted)",
    "assumed builtin contract: float(str) accept language incl. inf/nan/underscores; float VALUES uninterpreted (machine arithmetic not treated as mathematical)",
    "assumed builtin contract: re.match/re.search = CPython re._parser translated to RegLan ($ also before final newline, \\Z end of string only, . excludes newline)",
    "assumed builtin contract: isinstance/getattr resolved on the live classes imported from $VERIF_REPO (closed world, no monkeypatching)",
    "Python int = mathematical integer (exact); bool not modelled as int",
    "termination and recursion depth not proved (partial correctness)",
]
EXTRACTION_DROPS = ["docstrings and comments", "message arguments of raise (class and path condition kept)", "progress logging"]


def lean_status(pid, tier):
    d = os.path.join(VERIF, "lemmas", "lean")
    src = os.path.join(d, "Lemmas.lean")
    if not os.path.exists(src):
        return None
    stamp = os.path.join(d, "Lemmas.checked")
    ok = os.path.exists(stamp) and os.path.getmtime(stamp) >= os.path.getmtime(src) and open(stamp).read().strip() == hashlib.sha256(open(src, "rb").read()).hexdigest()
    return {"file": "lemmas/lean/Lemmas.lean", "checked_at_setup": ok}


def _san(s):
    return re.sub(r"[^A-Za-z0-9_.-]+", "_", s)[:150]


def match_known(known, pid, tier_kind, **kw):
    """known findings that are OPEN and match"""
    out = []
    for k in known:
        if k.get("status", "open") != "open" or k.get("property") != pid or k.get("tier", "B") != tier_kind:
            continue
        if tier_kind == "P":
            if k.get("contract") and k["contract"] != kw.get("contract"):
                continue
            if k.get("obligation_re") and not re.search(k["obligation_re"], kw.get("obligation", "")):
                continue
            w = kw.get("witness") or {}
            ok = True
            for name, rx_ in (k.get("witness") or {}).items():
                if not re.fullmatch(rx_, json.dumps(w.get(name), sort_keys=True) if not isinstance(w.get(name), str) else w.get(name), re.S):
                    ok = False
            if ok:
                out.append(k)
        else:
            if re.fullmatch(k.get("signature", "$^"), kw.get("signature", "")):
                out.append(k)
    return out


def finish(pid, tier, seed, repo, results, bounded, lean, known, wall, meta):
    lines = []
    violations = 0
    undecided = 0
    broken = 0
    n_obl = n_dis = 0
    known_hit = {}
    functions = []
    out_of_reach = []
    backends = {}
    solver_s = 0.0
    samples = []
    batteries = []
    rdir = os.path.join(VERIF, "replays", pid)
    for r in results:
        if r.get("error"):
            broken += 1
            lines.append("CHECKER-BROKEN property=%s contract=%s %s" % (pid, r["contract"], r["error"].splitlines()[0][:300]))
            sys.stderr.write(r["error"] + "\n")
            continue
        if r.get("info"):
            functions.append(dict(contract=r["contract"], file=r["info"]["file"], qualname=r["info"]["qualname"], lines=r["info"]["lines"],
                                  sha256=r["info"]["sha256"], fragment=r.get("fragment"), paths=r.get("n_paths"),
                                  obligations=len(r["obligations"]), inlined_callees=r.get("inlined", []), callees_replaced_by_models=r.get("callee_models", []),
                                  moved_from=r["info"].get("moved_from")))
        for b in r.get("batteries", []):
            batteries.append(dict(contract=r["contract"], target=b["target"], ok=b["ok"], seconds=b["seconds"]))
            if not b["ok"]:
                out_ = b.get("outcome") or {}
                if out_.get("kind") == "return":
                    violations += 1
                    os.makedirs(rdir, exist_ok=True)
                    path = os.path.join(rdir, "battery_" + _san(r["contract"] + "_" + b["target"].split(":")[-1]) + ".json")
                    json.dump(dict(property=pid, obligation="battery:%s" % b["target"], contract=r["contract"], tier="bounded", outcome=out_, repo=repo,
                                   reproducer="PYTHONPATH=%s:%s /venv/bin/python -c 'from bounded import replay_helpers as r; print(r.%s())'" % (repo, VERIF, b["target"].split(":")[-1])),
                              open(path, "w"), indent=1, default=str)
                    lines.append("VIOLATION property=%s replay=%s" % (pid, path))
                else:
                    broken += 1
                    lines.append("CHECKER-BROKEN property=%s battery %s did not run: %s" % (pid, b["target"], str(out_)[:300]))
        if r.get("out_of_reach"):
            out_of_reach.append(dict(contract=r["contract"], fn=r["fn"], reason=r["out_of_reach"]))
            continue
        for o in r["obligations"]:
            n_obl += 1
            solver_s += o.get("seconds", 0)
            for be, (v, s) in o.get("backends", {}).items():
                b = backends.setdefault(be, dict(queries=0, sat=0, unsat=0, unknown=0, seconds=0.0))
                b["queries"] += 1; b["seconds"] = round(b["seconds"] + s, 4)
                b[v if v in ("sat", "unsat") else "unknown"] += 1
            if len(samples) < 2 and o["verdict"] == "unsat":
                samples.append(dict(obligation=o["name"], verdict="unsat", backend=o["backend"], seconds=o["seconds"]))
            if o["verdict"] == "unsat":
                n_dis += 1
            elif o["verdict"] == "sat":
                res = o.get("residual")
                ks = match_known(known, pid, "P", contract=r["contract"], obligation=o["name"], witness=o.get("witness"))
                if ks and (res is None or res == "unsat"):
                    for k in ks:
                        known_hit[k["id"]] = k
                    continue
                violations += 1
                os.makedirs(rdir, exist_ok=True)
                path = os.path.join(rdir, _san(o["name"]) + ".json")
                confirmed = o.get("confirmed")
                call = o.get("replay")
                rec = dict(property=pid, obligation=o["name"], contract=r["contract"], function=r["fn"], function_sha256=(r.get("info") or {}).get("sha256"),
                           witness=o.get("witness"), call=call, outcome=o.get("replay_outcome"), confirmed_on_real_code=bool(confirmed),
                           contract_holds_on_replay=o.get("contract_holds_on_replay"),
                           verifier_output=dict(verdict=o["verdict"], backends=o.get("backends"), replay_error=o.get("replay_error")),
                           repo=repo, reproducer=("echo '%s' | PYTHONPATH=%s /venv/bin/python %s/pyvc/replay_child.py" % (json.dumps(call), repo, VERIF)) if call else None)
                json.dump(rec, open(path, "w"), indent=1, default=str)
                lines.append("VIOLATION property=%s replay=%s%s" % (pid, path, "" if confirmed else " no-failing-input-found"))
            elif o["verdict"] == "unknown":
                undecided += 1
                lines.append("UNDECIDED property=%s obligation=%s reason=solver-unknown %s" % (pid, o["name"], o.get("backends")))
            else:
                broken += 1
                lines.append("CHECKER-BROKEN property=%s obligation=%s verdict=%s %s" % (pid, o["name"], o["verdict"], o.get("backends")))
    # ---- bounded tier
    bcov = None
    if bounded is not None:
        if bounded.get("error"):
            broken += 1
            lines.append("CHECKER-BROKEN property=%s bounded driver: %s" % (pid, bounded["error"][-1500:]))
        else:
            bcov = {k: bounded.get(k) for k in ("evaluations", "distinct_nontrivial", "rule", "bound", "exhaustive", "seconds", "checks")}
            for f in bounded.get("failures", []):
                ks = match_known(known, pid, "B", signature=f.get("signature", ""))
                if ks:
                    for k in ks:
                        known_hit[k["id"]] = k
                    continue
                violations += 1
                os.makedirs(rdir, exist_ok=True)
                path = os.path.join(rdir, "bounded_" + _san(f.get("signature", "case")) + "_" + hashlib.sha256(json.dumps(f, sort_keys=True, default=str).encode()).hexdigest()[:8] + ".json")
                json.dump(dict(property=pid, obligation="bounded:" + f.get("signature", ""), tier="bounded", repo=repo, **f), open(path, "w"), indent=1, default=str)
                lines.append("VIOLATION property=%s replay=%s" % (pid, path))
    for r_ in out_of_reach:
        if bcov is None:
            undecided += 1
            lines.append("UNDECIDED property=%s obligation=%s reason=out-of-reach:%s" % (pid, r_["contract"], r_["reason"][:200]))
        else:
            lines.append("NOTE property=%s contract=%s out of reach this run (%s); bounded twin decides" % (pid, r_["contract"], r_["reason"][:200]))
    min_obl = meta.get("min_obligations", 1)
    if meta.get("tierP", True) and n_obl < min_obl and not out_of_reach:
        broken += 1
        lines.append("CHECKER-BROKEN property=%s only %d obligations generated (< %d committed): vacuous run" % (pid, n_obl, min_obl))
    # every open finding listed for this property is announced on every run (whether or not this run's sample reproduced it)
    for k in known:
        if k.get("property") == pid and k.get("status", "open") == "open":
            lines.append("KNOWN-FINDING: property=%s %s [%s]" % (pid, " ".join(k["what"].split()), "reproduced in this run" if k["id"] in known_hit else "listed; not sampled in this run"))
    # ---- evidence
    level = meta["level"]
    if level == "proof" and (n_dis != n_obl or out_of_reach or n_obl == 0):
        level = "other"
    cov = dict(obligations=n_obl, discharged=n_dis,
               checker_cmd="./check %s --tier %s  (PyVC: VCs from the real AST under %s, discharged by z3 5.1 API%s)" % (
                   pid, tier, repo, ", cvc5 1.0.3 and z3 4.8.12 on every obligation" if tier == "thorough" else "; cvc5/z3-4.8 CLI on unknown"),
               trusted_base=["PyVC symbolic executor (pyvc/engine.py) and its builtin models", "z3 / cvc5", "CPython ast parser",
                             "contract texts under /verif/contracts and spec functions under /verif/specs"] + ([("Lean 4 lemmas %s" % json.dumps(lean))] if lean else []),
               functions_under_contract=functions, backends=backends, solver_time_s=round(solver_s, 3), out_of_reach=out_of_reach,
               extraction_drops=EXTRACTION_DROPS, known_findings_matched=sorted(known_hit),
               explanation=meta["claim"], samples=samples)
    if batteries:
        cov["contract_batteries"] = dict(note="BOUNDED (never counted as proved): the concrete battery of each contract (bounded/replay_helpers.py) run on the real code in this run",
                                         run=len(batteries), passed=sum(1 for b in batteries if b["ok"]), batteries=batteries)
    if bcov:
        cov["bounded"] = bcov
        cov["evaluations"] = bcov.get("evaluations") or 0
        cov["distinct_nontrivial"] = bcov.get("distinct_nontrivial") or 0
        cov["rule"] = "BOUNDED stand-in (never counted as proved): " + str(bcov.get("rule"))
        cov["exhaustive"] = bool(bcov.get("exhaustive"))
        cov["samples"] = samples + list(bounded.get("samples", []))[:3]
    else:
        cov["evaluations"] = n_obl
        cov["distinct_nontrivial"] = n_dis
        cov["rule"] = "one evaluation = one proof obligation (path x clause) generated from the real AST; distinct_nontrivial = obligations discharged (unsat) by the solver"
    if not cov["samples"]:
        cov["samples"] = [dict(note="no obligation discharged in this run")]
    # callee contracts: a contract sees its callees through models; a modelled callee that is itself under contract (anywhere in the
    # registry) is carried by that contract, the others are ASSUMED contracts on dependencies
    from pyvc.contract import REGISTRY
    proved_q = {c.fn.split("::")[-1] for c in REGISTRY.values() if c.fn}
    assumed = sorted({m for f in functions for m in f.get("callees_replaced_by_models", []) if m.split(":")[-1] not in proved_q})
    carried = sorted({m for f in functions for m in f.get("callees_replaced_by_models", []) if m.split(":")[-1] in proved_q})
    cov["callee_contracts"] = dict(note="a calling contract sees a callee only through the model it supplies; 'also_under_contract' = the callee has a contract of its own in "
                                        "this registry (the model is written from it but not mechanically compared with it); 'assumed' = no contract of its own",
                                   also_under_contract=carried, assumed=assumed)
    callee_assumptions = ["assumed callee contract (model supplied by the calling contract, callee body not verified against it): " + m for m in assumed]
    ev = dict(property_id=pid, tier=tier, seed=seed, level=level, coverage=cov,
              assumptions=BUILTIN_ASSUMPTIONS + meta.get("assumptions", []) + callee_assumptions, wall_s=round(wall, 2), violations=violations)
    # developer runs against a scratch copy (tools/try_seed.sh) redirect the evidence so that /verif/evidence always describes /repo
    evdir = os.environ.get("VERIF_EVIDENCE_DIR") or os.path.join(VERIF, "evidence")
    os.makedirs(evdir, exist_ok=True)
    json.dump(ev, open(os.path.join(evdir, pid + ".json"), "w"), indent=1, default=str)
    for l in lines:
        print(l)
    print("SUMMARY property=%s tier=%s obligations=%d discharged=%d contracts=%d out_of_reach=%d bounded=%s violations=%d undecided=%d broken=%d wall=%.1fs" % (
        pid, tier, n_obl, n_dis, len(results), len(out_of_reach), (bcov or {}).get("evaluations"), violations, undecided, broken, wall))
    # a violation found is reported as such even when another part of the run could not be carried out (both lines are printed);
    # exit 3 is for runs that found nothing but are not to be trusted
    if violations:
        return 1
    if broken:
        return 3
    if undecided:
        return 2
    return 0
