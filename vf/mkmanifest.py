"""regenerate MANIFEST.json from vf/props.py"""
import json, os, sys
VERIF = os.path.dirname(os.path.dirname(os.path.abspath(__file__)))
sys.path.insert(0, VERIF)
from vf import props

BASE = "cd /repo && /venv/bin/python -m pytest -ra -q -p no:cacheprovider --timeout=900 --continue-on-collection-errors"
m = dict(version=1,
         setup_cmd="python3-vt -m vf.setup",
         hooks=dict(guard="GFAPY_VERIF", enable="no hooks in /repo: every contract is a sidecar under /verif (GFAPY_VERIF is unused)",
                    baseline_off_cmd=BASE, source_commits=[], add_only=True),
         engines=[dict(name="PyVC", path="pyvc/", serves_properties=[p for p in props.ALL if props.META.get(p, {}).get("built")],
                       kind_free_text="verification-condition generator over the real Python AST (path-wise symbolic execution against sidecar contracts) + z3 5.1 / z3 4.8 / cvc5 back ends + counter-model replay on the real code"),
                  dict(name="bounded", path="bounded/", serves_properties=[p for p in props.ALL if props.META.get(p, {}).get("bounded")],
                       kind_free_text="bounded stand-in: the same contracts checked at run time on the real functions by exhaustive small-scope enumeration against independent oracles; labelled bounded, never counted as proved")],
         checks=[], not_applicable=[],
         notes="See DESIGN.md. Exit codes of ./check: 0 held, 1 VIOLATION, 2 undecided, 3 checker broken.")
for p in props.ALL:
    md = props.META.get(p)
    if not md or not md.get("built"):
        m["not_applicable"].append(dict(property_id=p, reason=(md or {}).get("na_reason", props.NOT_BUILT_REASON)))
        continue
    m["checks"].append(dict(property_id=p, quick_cmd="./check %s --tier quick" % p, thorough_cmd="./check %s --tier thorough" % p,
                            evidence_file="/verif/evidence/%s.json" % p, replay_cmd_template="./check %s --replay {path}" % p,
                            engine="PyVC" + ("+bounded" if md.get("bounded") else ""),
                            level_claimed=dict(category=md["level"], text=md["claim"], design_ref="DESIGN.md " + md["design"]),
                            level_note=md["note"], technique=md["technique"]))
json.dump(m, open(os.path.join(VERIF, "MANIFEST.json"), "w"), indent=1)
print("MANIFEST.json: %d checks, %d not_applicable" % (len(m["checks"]), len(m["not_applicable"])))
