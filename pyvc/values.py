"""Symbolic value domain of PyVC (see DESIGN.md §2.2)."""
import z3

I = z3.IntSort()
B = z3.BoolSort()
Str = z3.StringSort()


class Unsupported(Exception):
    """construct outside the supported subset: the function is out of reach for this run"""


class Pos:
    """GFA2 position: int (last=False) or gfapy.LastPos (last=True)"""
    def __init__(self, v, last):
        self.v, self.last = v, last

    def __repr__(self):
        return "Pos(%s,%s)" % (self.v, self.last)


class Obj:
    """symbolic record with identity; fields live in the path state's heap"""
    _n = [0]

    def __init__(self, cls=None, tag=None):
        Obj._n[0] += 1
        self.oid = Obj._n[0]
        self.cls = cls
        self.tag = tag

    def __repr__(self):
        return "Obj#%d<%s%s>" % (self.oid, getattr(self.cls, "__name__", self.cls), ":" + self.tag if self.tag else "")


class Exc:
    """an exception instance: its class (a live Python class) and, when tracked, its message value"""
    def __init__(self, cls, args=()):
        self.cls, self.args = cls, tuple(args)

    def __repr__(self):
        return "Exc(%s)" % self.cls.__name__


class VStr:
    """a string computed from a root string variable; membership is lowered to the root through `lift`"""
    def __init__(self, root, lift, desc="view"):
        self.root, self.lift, self.desc = root, lift, desc

    def __repr__(self):
        return "VStr(%s of %s)" % (self.desc, self.root)


class Opt:
    """optional value: None when isnone holds, else val"""
    def __init__(self, isnone, val):
        self.isnone, self.val = isnone, val

    def __repr__(self):
        return "Opt(%s,%s)" % (self.isnone, self.val)


class SList:
    """by-value symbolic list: length n and element array el (Int -> sort); `mk` wraps an element term as a value"""
    def __init__(self, n, el, mk=None):
        self.n, self.el, self.mk = n, el, (mk or (lambda t: t))

    def __repr__(self):
        return "SList(n=%s)" % self.n


class Ref:
    """reference to one of unboundedly many heap objects (lines, operations): t is an Int term; fields are z3 arrays in St.zh"""
    def __init__(self, t, cls=None):
        self.t, self.cls = t, cls

    def __repr__(self):
        return "Ref(%s)" % self.t


NONE_T = z3.IntVal(-1)          # id of None among kinded heap objects (kind[-1] == 0)


class SliceV:
    def __init__(self, lo, hi):
        self.lo, self.hi = lo, hi


class LRef:
    """list object with identity on the z3 heap (L_n, L_e)"""
    def __init__(self, lid, mk=None):
        self.id, self.mk = lid, (mk or (lambda t: Ref(t)))

    def __repr__(self):
        return "LRef(%s)" % self.id


class RefsDict:
    """the `_refs` dict of a Ref (dict of list objects with identity)"""
    def __init__(self, owner):
        self.owner = owner


class BoundMethod:
    def __init__(self, recv, func, name=None):
        self.recv, self.func, self.name = recv, func, name or getattr(func, "__name__", "?")

    def __repr__(self):
        return "BoundMethod(%r.%s)" % (self.recv, self.name)


class StrMethod:
    def __init__(self, recv, name):
        self.recv, self.name = recv, name


class Unknown:
    """an opaque value (e.g. a message string); any observation of it is Unsupported"""
    def __init__(self, what="?"):
        self.what = what

    def __repr__(self):
        return "Unknown(%s)" % self.what


def S(x):
    """lift a Python constant to z3"""
    if isinstance(x, bool):
        return z3.BoolVal(x)
    if isinstance(x, int):
        return z3.IntVal(x)
    if isinstance(x, str):
        return z3.StringVal(x)
    return x


def is_sym(x):
    return isinstance(x, z3.ExprRef)


def conc(x):
    """concrete Python value of a z3 literal, else None-marker"""
    if isinstance(x, (bool, int, str)) or x is None:
        return x
    if is_sym(x):
        x = z3.simplify(x)
        if z3.is_int_value(x):
            return x.as_long()
        if z3.is_true(x):
            return True
        if z3.is_false(x):
            return False
        if z3.is_string_value(x):
            return z3_unescape(x.as_string())
    return NotConcrete


import re as _re


def z3_unescape(t):
    """z3 prints non-printable characters as \\u{hex}"""
    return _re.sub(r"\\u\{([0-9a-fA-F]+)\}", lambda m: chr(int(m.group(1), 16)), t)


class _NC:
    def __repr__(self):
        return "NotConcrete"


NotConcrete = _NC()

_ctr = [0]


def fresh(name, sort):
    _ctr[0] += 1
    return z3.Const("%s!%d" % (name, _ctr[0]), sort)
