import re
"""Contracts, cases, obligations and their discharge (DESIGN §2.3, §2.7–2.9)."""
import json, os, subprocess, sys, tempfile, time, traceback, hashlib, z3
from . import frontend, rx, simp
from .engine import Engine, St
from .values import *

REGISTRY = {}          # contract id -> Contract instance
Z3_TIMEOUT_MS = int(os.environ.get("PYVC_Z3_TIMEOUT_MS", "10000"))


def register(cls):
    inst = cls()
    inst.id = getattr(cls, "id", None) or cls.__name__
    if inst.id in REGISTRY:
        raise RuntimeError("duplicate contract id " + inst.id)
    REGISTRY[inst.id] = inst
    return cls


class Case:
    def __init__(self, label, args, post, pre=(), symbols=None, replay=None, models=None, inline=(), invariants=None,
                 name_calls=None, zh=None, minimize=(), extra=None, heap=None, expect_paths=1, alloc=None, confirm=None, options=None):
        self.label, self.args, self.post, self.pre = label, args, post, list(pre)
        self.symbols = symbols or {}
        self.replay = replay
        self.models, self.inline, self.invariants, self.name_calls = models or {}, inline, invariants or {}, name_calls or {}
        self.zh = zh
        self.heap = heap
        self.minimize = list(minimize)
        self.extra = extra           # extra(engine, paths) -> list of (name, hyps, goal): lemma-style obligations over the paths
        self.expect_paths = expect_paths
        self.alloc = alloc
        self.options = options       # engine options (kinds, alloc_lists, list_mk)
        self.confirm = confirm       # confirm(witness, replay outcome) -> True (violation reproduced) / False / None


class Contract:
    fn = None            # "gfapy/...py::Qual.name"
    props = ()
    fragment = "I"
    doc = ""

    def cases(self, ctx):
        raise NotImplementedError

    def func(self, ctx):
        f, moved = frontend.resolve(ctx.repo, self.fn)
        self.moved = moved
        return f


class Ctx:
    def __init__(self, repo):
        self.repo = repo
        self.gfapy = frontend.ensure_importable(repo)

    def fn(self, spec):
        return frontend.resolve(self.repo, spec)[0]

    def fn_opt(self, spec):
        """helper functions that a refactoring may have removed or not yet introduced: None when absent"""
        try:
            return frontend.resolve(self.repo, spec)[0]
        except LookupError:
            return None


# ------------------------------------------------------------------------------------------ solving
def _solve_api(hyps, goal, timeout_ms, facts=()):
    from . import simp
    s = z3.Solver()
    s.set("timeout", timeout_ms)
    s.add(*simp.prepare(list(facts), list(hyps), goal))
    t0 = time.time()
    r = s.check()
    return str(r), time.time() - t0, s


def _solve_cli(smt2, backend, timeout_s):
    with tempfile.NamedTemporaryFile("w", suffix=".smt2", delete=False, dir=os.environ.get("PYVC_TMP", None)) as f:
        f.write(smt2)
        path = f.name
    try:
        if backend == "z3-4.8":
            cmd = ["/usr/bin/z3", "-T:%d" % timeout_s, path]
        else:
            cmd = ["/usr/bin/cvc5", "--strings-exp", "--tlimit=%d" % (timeout_s * 1000), path]
        t0 = time.time()
        try:
            p = subprocess.run(cmd, capture_output=True, text=True, timeout=timeout_s + 5)
            out = (p.stdout or "").strip().splitlines()
            r = out[0].strip() if out else "unknown"
            if r not in ("sat", "unsat", "unknown"):
                r = "unknown(%s)" % r[:60]
        except subprocess.TimeoutExpired:
            r = "unknown(timeout)"
        return r, time.time() - t0
    finally:
        os.unlink(path)


def smt2_text(solver):
    return "(set-logic ALL)\n" + solver.to_smt2()


def discharge(name, hyps, goal, tier="quick", facts=()):
    """returns dict(verdict, backend, seconds, backends={...}, solver) ; verdict in unsat/sat/unknown"""
    r, secs, s = _solve_api(hyps, goal, Z3_TIMEOUT_MS if tier == "quick" else 3 * Z3_TIMEOUT_MS, facts)
    res = dict(name=name, verdict=r if r in ("sat", "unsat") else "unknown", backend="z3-5.1-api", seconds=round(secs, 4),
               backends={"z3-5.1-api": [r, round(secs, 4)]})
    need_others = (res["verdict"] == "unknown") or tier == "thorough"
    if need_others:
        try:
            text = smt2_text(s)
        except Exception as e:
            text = None
        if text is not None:
            for be in ("cvc5-1.0.3", "z3-4.8"):
                r2, secs2 = _solve_cli(text, be, 10 if tier == "quick" else 30)
                res["backends"][be] = [r2, round(secs2, 4)]
                res["seconds"] = round(res["seconds"] + secs2, 4)
                if res["verdict"] == "unknown" and r2 in ("sat", "unsat"):
                    res["verdict"], res["backend"] = r2, be
                elif r2 in ("sat", "unsat") and res["verdict"] in ("sat", "unsat") and r2 != res["verdict"]:
                    res["verdict"] = "disagree"
        res["smt2_sha"] = hashlib.sha256((text or "").encode()).hexdigest()[:16]
        if os.environ.get("PYVC_DUMP") and text and res["verdict"] == "unknown":
            # (debugging aid: the undecided query as SMT-LIB text)
            with open(os.path.join(os.environ["PYVC_DUMP"], re.sub(r"[^A-Za-z0-9_.-]", "_", name)[:120] + "_" + res["smt2_sha"] + ".smt2"), "w") as fh:
                fh.write(text)
    if res["verdict"] == "unknown" and z3.is_and(goal):
        # a conjunction the solvers cannot decide as a whole: every conjunct (flattened) is its own query under the same premises; the
        # obligation is discharged iff every conjunct is (a conjunct that is refuted refutes the obligation)
        parts = []
        def flat(g):
            if z3.is_and(g):
                for c in g.children():
                    flat(c)
            else:
                parts.append(g)
        flat(goal)
        verdicts = []
        extra_s = 0.0
        for gpart in parts:
            r3, secs3, s3 = _solve_api(hyps, gpart, Z3_TIMEOUT_MS if tier == "quick" else 3 * Z3_TIMEOUT_MS, facts)
            extra_s += secs3
            verdicts.append(r3)
            if r3 == "sat":
                res["verdict"], res["backend"], s = "sat", "z3-5.1-api (conjunct %d of %d)" % (len(verdicts), len(parts)), s3
                break
            if r3 != "unsat":
                break
        res["seconds"] = round(res["seconds"] + extra_s, 4)
        res["backends"]["z3-5.1-api/per-conjunct"] = [",".join(verdicts), round(extra_s, 4)]
        if len(verdicts) == len(parts) and all(v == "unsat" for v in verdicts):
            res["verdict"], res["backend"] = "unsat", "z3-5.1-api (%d conjuncts, each its own query)" % len(parts)
    res["_solver"] = s
    return res


def model_values(solver, symbols, minimize=()):
    """concrete witness for the input symbols; tries small sizes first (list lengths, string lengths)"""
    t_begin = time.time()
    def attempt(extra):
        if time.time() - t_begin > 12:
            return None
        s2 = z3.Solver(); s2.set("timeout", 2000)
        s2.add(*solver.assertions()); s2.add(*extra)
        return s2 if s2.check() == z3.sat else None
    best = None
    from . import simp
    if any(simp.has_quantifier(a) for a in solver.assertions()):
        t_begin -= 100          # quantified obligations: take the solver's own model, no bounded re-solving
    strs = [v for v in symbols.values() if is_sym(v) and v.sort() == Str]
    ints = list(minimize)
    for bound in (0, 1, 2, 3, 4, 6):
        extra = [z3.Length(v) <= bound for v in strs] + [z3.And(-bound <= v, v <= bound) for v in ints]
        if not extra:
            break
        best = attempt(extra)
        if best is not None:
            break
    if best is None:
        best = attempt([])
    if best is None:
        try:
            m = solver.model()
        except Exception:
            return None
    else:
        m = best.model()
    out = {}
    for k, v in symbols.items():
        if isinstance(v, Pos):
            out[k] = {"pos": m.eval(v.v, model_completion=True).as_long(), "last": bool(z3.is_true(m.eval(v.last, model_completion=True)))}
        else:
            c = conc(m.eval(v, model_completion=True))
            out[k] = c if c is not NotConcrete else str(m.eval(v, model_completion=True))
    return out


# ------------------------------------------------------------------------------------------ verification of one contract
def _run_batteries(res, cases, repo):
    """concrete batteries of the contracts (bounded/replay_helpers.py) are run on their own on every run - also when the symbolic part is out
    of reach for the current code: they are the run-time check of the same contract on the real code over a stated finite set of cases
    (bounded, never counted as proved)"""
    if "batteries" in res:
        return
    res["batteries"] = []
    seen = set()
    from .dsl import battery_confirm
    from . import replay as rp
    for case in cases:
        if case.replay is None or case.confirm is not battery_confirm:
            continue
        try:
            call = case.replay({})
        except Exception:
            continue
        if not call or call.get("args") or call["target"] in seen:
            continue
        seen.add(call["target"])
        t1 = time.time()
        out = rp.run_call(repo, call, timeout=300)
        if out.get("kind") == "timeout":
            # the battery drives the real code through a fixed, small set of calls (seconds); not finishing in 300 s is a call that does
            # not terminate (C07: "no call fails to terminate")
            out = {"kind": "return", "value": "the battery did not finish within %d s: a call on the real code does not terminate" % out["seconds"]}
        ok = out.get("kind") == "return" and out.get("value") is True
        if out.get("kind") == "raise" and "/gfapy/" in str(out.get("raised_in")) and "/bounded/" not in str(out.get("raised_in")):
            out = {"kind": "return", "value": "the battery was stopped by %s raised in %s: %s" % (out.get("exc"), out.get("raised_in"), out.get("msg"))}
        res["batteries"].append(dict(target=call["target"], ok=ok, seconds=round(time.time() - t1, 3),
                                     outcome={k: v for k, v in out.items() if k != "tb"} if not ok else None))


def _callee_name(k):
    """name of a callee that a case replaces by a model (the callee's contract as this contract assumes it)"""
    if isinstance(k, tuple):
        return "builtin:" + ".".join(str(x) for x in k)
    q = getattr(k, "__qualname__", None) or getattr(k, "__name__", None) or repr(k)
    m = getattr(k, "__module__", None)
    if isinstance(k, property):
        q = getattr(k.fget, "__qualname__", "property"); m = getattr(k.fget, "__module__", None)
    return "%s:%s" % (m, q) if m else q


def verify(contract, repo, tier="quick"):
    """run in a worker: returns a JSON-able result"""
    t_start = time.time()
    ctx = Ctx(repo)
    res = dict(contract=contract.id, fn=contract.fn, props=list(contract.props), fragment=contract.fragment, cases=[],
               obligations=[], out_of_reach=None, info=None, inlined=[], error=None, n_paths=0)
    if hasattr(contract, "custom"):
        try:
            func = contract.func(ctx)
            node, info = frontend.load_function(repo, func)
            res["info"] = info
            res["obligations"] = contract.custom(ctx, tier)
            res["summary"] = getattr(contract, "analysis_summary", None)
        except Exception as e:
            res["error"] = "custom contract failed: %s\n%s" % (e, traceback.format_exc())
        res["seconds"] = round(time.time() - t_start, 3)
        return res
    try:
        func = contract.func(ctx)
        node, info = frontend.load_function(repo, func)
        info["moved_from"] = getattr(contract, "moved", None)
        res["info"] = info
        cases = contract.cases(ctx)
    except LookupError as e:
        res["out_of_reach"] = "function not found: %s" % e
        return res
    except Exception as e:
        res["error"] = "contract setup failed: %s\n%s" % (e, traceback.format_exc())
        return res
    res["callee_models"] = sorted({_callee_name(k) for case in cases for k in (case.models or {})})
    for case in cases:
        E = Engine(repo, models=case.models, inline=case.inline, invariants=case.invariants, name_calls=case.name_calls, alloc=case.alloc, options=case.options)
        st0 = St(pc=tuple(case.pre), zh=case.zh, heap=case.heap)
        # cover: the precondition is satisfiable
        s = z3.Solver(); s.set("timeout", 5000); s.add(*case.pre)
        if s.check() == z3.unsat:
            res["error"] = "vacuous precondition in case %s" % case.label
            return res
        try:
            paths = E.run(func, case.args, st0, label=info["qualname"]) if case.args is not None else []
        except Unsupported as e:
            res["out_of_reach"] = "case %s: %s" % (case.label, e)
            _run_batteries(res, cases, repo)
            return res
        except KeyError as e:
            # an invariant of the contract names a local variable (or heap field) that this version of the function does not have: the
            # function was reshaped (a renamed local, a restructured loop); the contract cannot be applied as it stands - undecided
            # here, not a defect of the code and not a crash of the checker; the batteries and the bounded twin still run
            res["out_of_reach"] = "case %s: the contract refers to %s, which this version of the function does not have (contract out of date for this shape of the code)" % (case.label, e)
            _run_batteries(res, cases, repo)
            return res
        except Exception as e:
            tb = traceback.extract_tb(e.__traceback__)
            if tb and "/contracts/" in tb[-1].filename:
                # raised inside a callback of the contract itself (an invariant, a model) while it was applied to this version of the
                # function: the contract was written for another shape of the code (e.g. a for loop that became a while loop).  Undecided here.
                res["out_of_reach"] = "case %s: the contract does not fit this shape of the function (%s: %s at %s:%d)" % (
                    case.label, type(e).__name__, e, os.path.basename(tb[-1].filename), tb[-1].lineno)
                _run_batteries(res, cases, repo)
                return res
            res["error"] = "engine failure in case %s: %s\n%s" % (case.label, e, traceback.format_exc())
            return res
        res["n_paths"] += len(paths)
        res["inlined"] = sorted(set(res["inlined"]) | set("%s::%s@%s" % (i["file"], i["qualname"], i["sha256"][:12]) for i in E.inlined.values()))
        if case.args is not None and len(paths) == 0:
            res["error"] = "case %s: no path through the function (%d expected): vacuous" % (case.label, case.expect_paths)
            return res
        if case.args is not None and len(paths) < case.expect_paths:
            # fewer paths than when the contract was written: the code lost a case distinction.  The obligations of the remaining paths are
            # still generated (a lost distinction that matters fails one of them); the fact is recorded in the evidence.
            res.setdefault("notes", []).append("case %s: %d paths, %d when the contract was written" % (case.label, len(paths), case.expect_paths))
        obls = []
        for i, (kind, val, st) in enumerate(paths):
            try:
                goal = case.post(kind, val, st)
            except Unsupported as e:
                res["out_of_reach"] = "case %s post: %s" % (case.label, e)
                _run_batteries(res, cases, repo)
                return res
            desc = "raise %s" % val.cls.__name__ if kind == "raise" else kind
            obls.append(("%s/%s/path%d[%s]:post" % (contract.id, case.label, i, desc), list(st.pc), goal, kind, val))
        for nm, st, goal in E.obl:
            obls.append(("%s/%s/%s" % (contract.id, case.label, nm), list(st.pc), goal, "side", None))
        if case.extra:
            for nm, hyps, goal in case.extra(E, paths):
                obls.append(("%s/%s/%s" % (contract.id, case.label, nm), list(hyps), goal, "lemma", None))
        for nm, hyps, goal, kind, val in obls:
            if isinstance(goal, bool):
                goal = z3.BoolVal(goal)
            d = discharge(nm, hyps, goal, tier, E.facts)
            solver = d.pop("_solver")
            if d["verdict"] == "unknown" and case.replay is not None and case.confirm is not None and kind != "lemma":
                # the solver could not decide; a contract with a concrete battery on the real code may still refute the obligation by a failing input
                try:
                    from . import replay as rp
                    call = case.replay({})
                    out = rp.run_call(repo, call) if call is not None else None
                    if out is not None and case.confirm({}, out):
                        d["verdict"] = "sat"
                        d["refuted_by"] = "concrete battery on the real code (solver verdict was unknown)"
                        d["witness"] = None; d["replay"] = call; d["confirmed"] = True; d["contract_holds_on_replay"] = False
                        d["replay_outcome"] = {k: v for k, v in out.items() if k != "tb"}
                        d["case"] = case.label
                        res["obligations"].append(d)
                        continue
                except Exception as e:
                    d["replay_error"] = "%s: %s" % (type(e).__name__, e)
            if d["verdict"] == "sat":
                w = model_values(solver, case.symbols, case.minimize)
                d["witness"] = w
                d["confirmed"] = None
                if w is None and case.replay is not None and case.confirm is not None:
                    w = {}
                if w is not None and case.replay is not None:
                    try:
                        from . import replay as rp
                        call = case.replay(w)
                        d["replay"] = call
                        if call is not None:
                            out = rp.run_call(repo, call)
                            d["replay_outcome"] = {k: v for k, v in out.items() if k != "tb"}
                            if case.confirm is not None:
                                g2 = None
                                c_ = case.confirm(w, out)
                                d["confirmed"] = bool(c_) if c_ is not None else None
                                d["contract_holds_on_replay"] = (not c_) if c_ is not None else None
                            elif out.get("kind") == "return":
                                g2 = case.post("return", rp.to_value(out["value"]), None)
                            elif out.get("kind") == "raise":
                                g2 = case.post("raise", Exc(rp.exc_class(out["exc"])), None)
                            else:
                                g2 = None
                            if g2 is not None:
                                holds = rp.evaluate(g2, case.symbols, w)
                                d["confirmed"] = (holds is False)
                                d["contract_holds_on_replay"] = holds
                    except Exception as e:
                        d["replay_error"] = "%s: %s" % (type(e).__name__, e)
                d["case"] = case.label
            if d["verdict"] == "unsat" and tier == "thorough" and kind not in ("lemma",):
                # vacuity: an obligation whose premises are unsatisfiable sits on an infeasible path (the pruning of the executor is
                # incomplete for quantified path conditions).  That is sound, but a case in which NO post obligation, or a loop for which
                # NO preservation obligation, has satisfiable premises proves nothing: flagged below.
                s3 = z3.Solver(); s3.set("timeout", 5000); s3.add(*simp.prepare(E.facts, list(hyps)))
                d["premises"] = str(s3.check())
                d["group"] = ("post:" + case.label) if nm.endswith(":post") else (nm.rsplit(":", 1)[0] + ":" + case.label if nm.endswith(":preserved") else None)
            res["obligations"].append(d)
        if tier == "thorough":
            groups = {}
            for d in res["obligations"]:
                if d.get("group") and d.get("case", case.label) == case.label and d.get("premises"):
                    groups.setdefault(d["group"], []).append(d)
            for gname, ds in groups.items():
                if gname.endswith(":" + case.label) and all(d["premises"] == "unsat" for d in ds):
                    for d in ds:
                        d["verdict"] = "vacuous"
    _run_batteries(res, cases, repo)
    res["seconds"] = round(time.time() - t_start, 3)
    return res
