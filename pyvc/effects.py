"""Modular frame (effect) analysis of the real source: for every function under $VERIF_REPO/gfapy, the set of abstract
locations it may write, computed bottom-up over the call graph (DESIGN §2.5).  One obligation per read-only API function:
    writes(F) ⊆ declared frame   (∅ modulo the benign caches)
Precision devices: (1) freshness — objects allocated after entry (literals, comprehensions, constructor calls, list()/copy/
clone results) are in nobody's frame; (2) access paths rooted at `self` and at the parameters, instantiated at call sites;
(3) property loads are calls to their getters; (4) builtin constructors shadow nothing; (5) class-hierarchy analysis by
method name over the closed world of gfapy for receivers of unknown class.
Soundness caveats (stated in the evidence): reflection (`getattr(self, name)(...)` with a computed name) is resolved only
for the literal-format idiom `"prefix_{}".format(x)`; writes through aliases stored in containers by callees are attributed
to the container's root; exceptions do not matter (may-write analysis)."""
import ast, os, hashlib

MUTATORS = {"append", "extend", "insert", "pop", "remove", "clear", "update", "add", "discard", "sort", "reverse", "setdefault", "popitem",
            "__setitem__", "__delitem__", "appendleft", "popleft"}
PURE_BUILTIN_METHODS = {"get", "keys", "values", "items", "copy", "index", "count", "join", "split", "format", "upper", "lower", "strip", "rstrip",
                        "lstrip", "startswith", "endswith", "isdigit", "isascii", "find", "replace", "encode", "decode", "group", "groups", "intersection",
                        "union", "difference", "issubset", "__lt__", "__iter__", "isupper", "islower", "search", "match", "finditer", "to_bytes"}
FRESH_CALLS = {"list", "dict", "set", "tuple", "sorted", "reversed", "frozenset", "bytes", "bytearray", "str", "int", "float", "bool", "len", "range",
               "enumerate", "zip", "map", "filter", "min", "max", "sum", "any", "all", "abs", "repr", "id", "hash", "isinstance", "issubclass", "type",
               "getattr", "hasattr", "iter", "next", "super", "deepcopy", "print", "open", "round", "ord", "chr"}
ELEMS_SHARED = {"list", "tuple", "sorted", "reversed", "set", "frozenset", "filter", "iter"}      # fresh container, elements are the argument's elements

IMM, FRESH, SELF, UNK = "imm", "fresh", "self", "unknown"


def STATE(root):
    return ("state", root)


def PARAM(p):
    return ("param", p)


def join(a, b):
    if a == b:
        return a
    if a == IMM:
        return b
    if b == IMM:
        return a
    if a == FRESH and b == FRESH:
        return FRESH
    for x in (a, b):
        if x == UNK:
            return UNK
    # different roots: keep the 'worst' (non-fresh) one; if both are non-fresh and differ, unknown
    na = a if a != FRESH else None
    nb = b if b != FRESH else None
    if na is None:
        return nb
    if nb is None:
        return na
    return na if root_of(na) == root_of(nb) else UNK


def root_of(c):
    if c == SELF:
        return "self"
    if isinstance(c, tuple):
        if c[0] == "state":
            return c[1]
        if c[0] == "param":
            return c[1]
    return c


def state_of(c):
    """class of something reachable from an object of class c"""
    if c in (IMM, FRESH, UNK):
        return c
    if c == SELF:
        return STATE("self")
    if isinstance(c, tuple) and c[0] == "param":
        return STATE(c[1])
    return c


class Func:
    def __init__(self, module, cls, node, path):
        self.module, self.cls, self.node, self.path = module, cls, node, path
        self.name = node.name
        self.qual = (cls + "." if cls else "") + node.name
        self.is_property = any((isinstance(d, ast.Name) and d.id == "property") for d in node.decorator_list)
        self.is_setter = any(isinstance(d, ast.Attribute) and d.attr == "setter" for d in node.decorator_list)
        self.is_static = any(isinstance(d, ast.Name) and d.id in ("staticmethod",) for d in node.decorator_list)
        self.is_classmethod = any(isinstance(d, ast.Name) and d.id in ("classmethod",) for d in node.decorator_list)
        a = node.args
        self.params = [x.arg for x in a.args]
        self.has_self = bool(cls) and not self.is_static and bool(self.params)
        self.direct = set()       # direct writes: ("self", what) | ("param", p, what) | ("unknown", what)
        self.calls = []           # (callee name, kind, receiver class, [arg classes], lineno)
        self.writes = set()       # fixpoint result
        self.aliases = set()      # attributes of freshly allocated objects bound to state reachable from self / a parameter
        self.ret = IMM            # class of the returned value relative to self/params


class Analysis:
    def __init__(self, repo):
        self.repo = repo
        self.funcs = []
        self.by_name = {}
        self.props = {}
        self.classes = set()
        for dp, dn, fn in os.walk(os.path.join(repo, "gfapy")):
            for f in sorted(fn):
                if f.endswith(".py"):
                    p = os.path.join(dp, f)
                    try:
                        tree = ast.parse(open(p).read())
                    except SyntaxError:
                        continue
                    self._collect(tree, os.path.relpath(p, repo), None)
        for fu in self.funcs:
            if fu.is_setter:
                continue
            self.by_name.setdefault(fu.name, []).append(fu)
            if fu.is_property:
                self.props.setdefault(fu.name, []).append(fu)
        self.setters = {}
        for fu in self.funcs:
            if fu.is_setter:
                self.setters.setdefault(fu.name, []).append(fu)
        # two global rounds: the second one uses the classes of the returned values computed by the first
        for rnd in range(2):
            for fu in self.funcs:
                fu.direct = set(); fu.calls = []; fu.aliases = set()
                prev = fu.ret
                fu.ret = IMM
                Intra(self, fu).run()
                if rnd == 0:
                    fu.ret_first = fu.ret
            self.round = rnd
        self._fixpoint()

    def ret_class(self, name, kind="method"):
        """FRESH if every candidate returns a freshly allocated (or immutable) value"""
        cands = self.props.get(name, []) if kind == "getter" else self.by_name.get(name, [])
        if not cands:
            return None
        rs = {getattr(c, "ret_first", UNK) for c in cands}
        if rs <= {FRESH, IMM}:
            return FRESH
        return None

    def _collect(self, tree, path, cls):
        for n in tree.body:
            if isinstance(n, ast.ClassDef):
                self.classes.add(n.name)
                self._collect(n, path, n.name if cls is None else cls + "." + n.name)
            elif isinstance(n, ast.FunctionDef):
                self.funcs.append(Func(path, cls, n, path))

    def _fixpoint(self):
        for fu in self.funcs:
            fu.writes = set(fu.direct)
        changed = True
        rounds = 0
        while changed and rounds < 50:
            changed = False
            rounds += 1
            for fu in self.funcs:
                new = set(fu.writes)
                for (cname, kind, recv, args, lineno) in fu.calls:
                    cands = self.setters.get(cname, []) if kind == "setter" else self.by_name.get(cname, [])
                    if kind == "getter":
                        cands = self.props.get(cname, [])
                    for c in cands:
                        for w in c.writes:
                            new |= self._translate(w, c, recv, args, cname)
                if new != fu.writes:
                    fu.writes = new
                    changed = True

    def _translate(self, w, callee, recv, args, cname):
        """a write of the callee expressed in the caller's terms"""
        def at(cls_, what):
            if cls_ in (FRESH, IMM):
                return set()
            if cls_ == SELF:
                return {("self", what)}
            if cls_ == UNK:
                return {("unknown", what)}
            if isinstance(cls_, tuple) and cls_[0] == "state":
                return {("self", what)} if cls_[1] == "self" else {("param", cls_[1], what)}
            if isinstance(cls_, tuple) and cls_[0] == "param":
                return {("param", cls_[1], what)}
            return {("unknown", what)}
        if w[0] == "self":
            if not callee.has_self:
                return {("unknown", w[1])}
            return at(recv, w[1])
        if w[0] == "param":
            p = w[1]
            ps = callee.params[1:] if callee.has_self else callee.params
            if p in ps and ps.index(p) < len(args):
                return at(args[ps.index(p)], w[2])
            out = set()
            for a in args:
                out |= at(a, w[2])
            return out
        return {w}

    def lookup(self, path, qual):
        for fu in self.funcs:
            if fu.path == path and fu.qual == qual and not fu.is_setter:
                return fu
        c = [fu for fu in self.funcs if fu.qual == qual and not fu.is_setter]
        return c[0] if len(c) == 1 else None


class Intra(ast.NodeVisitor):
    def __init__(self, A, fu):
        self.A, self.fu = A, fu
        self.env = {}
        self.elem = {}       # name -> class of the elements of the container bound to it
        for i, p in enumerate(fu.params):
            if i == 0 and fu.has_self and not fu.is_classmethod:
                self.env[p] = SELF
            elif i == 0 and fu.is_classmethod:
                self.env[p] = IMM
            else:
                self.env[p] = PARAM(p)

    def run(self):
        # two passes so that loops see the classes assigned later in their bodies
        for _ in range(2):
            for st in self.fu.node.body:
                self.stmt(st)

    # ------------------------------------------------ expressions
    def cls(self, e):
        if e is None or isinstance(e, (ast.Constant, ast.JoinedStr, ast.Compare)):
            return IMM
        if isinstance(e, ast.Name):
            if e.id in self.env:
                return self.env[e.id]
            return IMM if (e.id in FRESH_CALLS or e.id in ("gfapy", "re", "json", "True", "False", "None") or e.id in self.A.classes) else UNK
        if isinstance(e, (ast.List, ast.Dict, ast.Set, ast.ListComp, ast.SetComp, ast.DictComp, ast.GeneratorExp)):
            return FRESH
        if isinstance(e, ast.Tuple):
            return FRESH
        if isinstance(e, ast.Attribute):
            base = self.cls(e.value)
            if e.attr in self.A.props:
                self.fu.calls.append((e.attr, "getter", base, [], e.lineno))
                if self.A.ret_class(e.attr, "getter") == FRESH:
                    return FRESH
            if base == IMM:
                return IMM                 # module / class attribute
            return state_of(base)
        if isinstance(e, ast.Subscript):
            self.cls(e.slice) if not isinstance(e.slice, ast.Slice) else None
            base = self.cls(e.value)
            if isinstance(e.slice, ast.Slice):
                return FRESH if base != UNK else FRESH      # a slice is a new list (elements shared)
            if base == FRESH and isinstance(e.value, ast.Name):
                return self.elem.get(e.value.id, IMM)
            return state_of(base)
        if isinstance(e, ast.BoolOp):
            c = IMM
            for v in e.values:
                c = join(c, self.cls(v))
            return c
        if isinstance(e, ast.IfExp):
            self.cls(e.test)
            return join(self.cls(e.body), self.cls(e.orelse))
        if isinstance(e, (ast.BinOp,)):
            l, r = self.cls(e.left), self.cls(e.right)
            return FRESH if (isinstance(e.op, ast.Add)) else IMM
        if isinstance(e, ast.UnaryOp):
            self.cls(e.operand)
            return IMM
        if isinstance(e, ast.Call):
            return self.call(e)
        if isinstance(e, ast.Lambda):
            return IMM
        if isinstance(e, ast.Starred):
            return self.cls(e.value)
        return UNK

    def elem_cls(self, e):
        """class of the elements of the container denoted by e"""
        if isinstance(e, ast.Name):
            c = self.env.get(e.id, UNK)
            if c == FRESH:
                return self.elem.get(e.id, IMM)
            return state_of(c)
        if isinstance(e, (ast.List, ast.Tuple, ast.Set)):
            c = IMM
            for x in e.elts:
                c = join(c, self.cls(x))
            return c
        if isinstance(e, (ast.ListComp, ast.SetComp, ast.GeneratorExp)):
            saved = dict(self.env)
            for g in e.generators:
                self.bind(g.target, self.elem_cls(g.iter))
                for i in g.ifs:
                    self.cls(i)
            c = self.cls(e.elt)
            self.env = saved
            return c
        if isinstance(e, ast.Call):
            f = e.func
            if isinstance(f, ast.Name) and f.id in ELEMS_SHARED and e.args:
                return self.elem_cls(e.args[0])
            if isinstance(f, ast.Name) and f.id == "enumerate" and e.args:
                return self.elem_cls(e.args[0])
            if isinstance(f, ast.Attribute) and f.attr in ("values", "items", "keys", "copy"):
                return state_of(self.cls(f.value)) if self.cls(f.value) != FRESH else self.elem_cls(f.value)
            c = self.cls(e)
            return state_of(c) if c != FRESH else IMM
        if isinstance(e, ast.BinOp) and isinstance(e.op, ast.Add):
            return join(self.elem_cls(e.left), self.elem_cls(e.right))
        if isinstance(e, ast.Subscript) and isinstance(e.slice, ast.Slice):
            return self.elem_cls(e.value)
        c = self.cls(e)
        return state_of(c) if c != FRESH else IMM

    def call(self, e):
        f = e.func
        args = [self.cls(a) for a in e.args] + [self.cls(k.value) for k in e.keywords]
        if isinstance(f, ast.Name):
            n = f.id
            if n in self.env and self.env[n] != IMM:
                for a in args:
                    self.write_to(a, "argument of a call through a variable", e)
                return UNK
            if n in FRESH_CALLS or n in self.A.classes or n[:1].isupper():
                if n == "setattr" and args:
                    self.write_to(args[0], "setattr", e)
                return FRESH
            if n in self.A.by_name:
                self.fu.calls.append((n, "func", IMM, args, e.lineno))
                return UNK
            return UNK
        if isinstance(f, ast.Attribute):
            name = f.attr
            if isinstance(f.value, ast.Call) and isinstance(f.value.func, ast.Name) and f.value.func.id == "super":
                recv = SELF
            else:
                recv = self.cls(f.value)
            if name in MUTATORS and name not in self.A.by_name:
                self.write_to(recv, name + "()", e)
                return IMM
            if name in MUTATORS and name in self.A.by_name:
                # e.g. Multiline.add / FieldData.set share their name with container mutators: both readings
                if recv not in (FRESH, IMM):
                    self.write_to(recv, name + "()", e)
                self.fu.calls.append((name, "method", recv, args, e.lineno))
                return IMM
            if name == "__class__":
                return FRESH               # self.__class__(...): a new instance
            if name in self.A.by_name and recv != IMM:
                self.fu.calls.append((name, "method", recv, args, e.lineno))
                if name in ("clone", "complement", "inverted", "copy", "to_list", "to_gfa1", "to_gfa2", "to_version"):
                    return FRESH
                if self.A.ret_class(name) == FRESH:
                    return FRESH
                return state_of(recv) if recv not in (FRESH, IMM) else FRESH
            if name in self.A.by_name and recv == IMM:
                # module-level / class-level call: gfapy.X.f(args), Cls.f(args)
                self.fu.calls.append((name, "func", IMM, args, e.lineno))
                last = f.value
                if name[:1].isupper() or (isinstance(last, ast.Attribute) and name in ("from_string", "from_list", "_from_string", "_from_list")):
                    return FRESH
                return UNK
            if name[:1].isupper():
                return FRESH               # gfapy.OrientedLine(...), gfapy.line.Header(...)
            if name in PURE_BUILTIN_METHODS:
                if name in ("copy",):
                    return FRESH
                if name in ("get", "values", "items", "keys"):
                    return state_of(recv) if recv != FRESH else (self.elem_cls(f.value) if isinstance(f.value, ast.Name) else IMM)
                return IMM if name not in ("split", "groups") else FRESH
            # unknown method of an unknown object
            if recv in (FRESH, IMM):
                return UNK if recv == FRESH else IMM
            return state_of(recv)
        # call of a computed callee, e.g. getattr(self, "dovetails_{}".format(e))(...)
        self.cls(f)
        return UNK

    # ------------------------------------------------ writes
    def write_to(self, c, what, node):
        if c in (FRESH, IMM):
            return
        line = getattr(node, "lineno", 0)
        label = "%s:%s" % (self.fu.qual, what)
        if c == SELF or (isinstance(c, tuple) and c[0] == "state" and c[1] == "self"):
            self.fu.direct.add(("self", label))
        elif isinstance(c, tuple) and c[0] in ("param", "state"):
            self.fu.direct.add(("param", c[1], label))
        else:
            self.fu.direct.add(("unknown", label))

    def bind(self, tgt, c, elem=None):
        if isinstance(tgt, ast.Name):
            self.env[tgt.id] = join(self.env[tgt.id], c) if tgt.id in self.env and self.env[tgt.id] != c and self._second else c
            if elem is not None:
                self.elem[tgt.id] = join(self.elem.get(tgt.id, elem), elem)
        elif isinstance(tgt, (ast.Tuple, ast.List)):
            for t in tgt.elts:
                self.bind(t, c if c != FRESH else (elem if elem is not None else IMM), None)
        elif isinstance(tgt, ast.Starred):
            self.bind(tgt.value, c)

    _second = False

    def store(self, tgt, valc, node):
        if isinstance(tgt, ast.Name):
            return
        if isinstance(tgt, ast.Attribute):
            base = self.cls(tgt.value)
            if base == FRESH and (valc == SELF or (isinstance(valc, tuple) and valc[0] in ("state", "param"))):
                self.fu.aliases.add("%s:.%s = <%s>" % (self.fu.qual, tgt.attr, ast.unparse(node.value)[:60] if hasattr(node, "value") else "?"))
            if tgt.attr in self.A.setters and base not in (FRESH, IMM):
                self.fu.calls.append((tgt.attr, "setter", base, [valc], tgt.lineno))
            self.write_to(base, "." + tgt.attr, node)
        elif isinstance(tgt, ast.Subscript):
            base = self.cls(tgt.value)
            d = ast.unparse(tgt.value)
            self.write_to(base, "%s[...]" % d, node)
        elif isinstance(tgt, (ast.Tuple, ast.List)):
            for t in tgt.elts:
                self.store(t, valc, node)

    # ------------------------------------------------ statements
    def stmt(self, s):
        if isinstance(s, ast.Assign):
            c = self.cls(s.value)
            el = self.elem_cls(s.value) if c == FRESH else None
            for t in s.targets:
                self.store(t, c, s)
                self.bind(t, c, el)
        elif isinstance(s, ast.AugAssign):
            c = self.cls(s.value)
            if isinstance(s.target, ast.Name):
                cur = self.env.get(s.target.id, UNK)
                if cur not in (FRESH, IMM):
                    # x += [...] on a list that is not fresh mutates it in place
                    self.write_to(cur, "%s += ..." % s.target.id, s)
                if cur == FRESH:
                    self.elem[s.target.id] = join(self.elem.get(s.target.id, IMM), self.elem_cls(s.value))
            else:
                self.store(s.target, c, s)
        elif isinstance(s, ast.AnnAssign):
            if s.value is not None:
                c = self.cls(s.value)
                self.store(s.target, c, s); self.bind(s.target, c)
        elif isinstance(s, ast.Delete):
            for t in s.targets:
                self.store(t, IMM, s)
        elif isinstance(s, ast.Expr):
            self.cls(s.value)
        elif isinstance(s, ast.Return):
            if s.value is not None:
                self.fu.ret = join(self.fu.ret, self.cls(s.value))
        elif isinstance(s, (ast.If, ast.While)):
            self.cls(s.test)
            for x in s.body + s.orelse:
                self.stmt(x)
        elif isinstance(s, ast.For):
            self.cls(s.iter)
            self.bind(s.target, self.elem_cls(s.iter))
            for x in s.body + s.orelse:
                self.stmt(x)
        elif isinstance(s, ast.Try):
            for x in s.body + s.orelse + s.finalbody:
                self.stmt(x)
            for h in s.handlers:
                if h.name:
                    self.env[h.name] = FRESH
                for x in h.body:
                    self.stmt(x)
        elif isinstance(s, ast.With):
            for it in s.items:
                c = self.cls(it.context_expr)
                if it.optional_vars is not None:
                    self.bind(it.optional_vars, FRESH)
            for x in s.body:
                self.stmt(x)
        elif isinstance(s, ast.Raise):
            if s.exc is not None:
                self.cls(s.exc)
        elif isinstance(s, ast.Assert):
            self.cls(s.test)
        elif isinstance(s, ast.FunctionDef):
            # nested function (e.g. generator in from_string): analysed in place with the enclosing environment
            for x in s.body:
                self.stmt(x)
        elif isinstance(s, (ast.Pass, ast.Break, ast.Continue, ast.Import, ast.ImportFrom, ast.Global, ast.Nonlocal)):
            pass
        elif isinstance(s, ast.ClassDef):
            pass
        else:
            self.fu.direct.add(("unknown", "%s:statement %s" % (self.fu.qual, type(s).__name__)))


BENIGN = {
    "FieldData.get:self._data[...]": "lazy decode: the encoded string of a field is replaced by its decoded value (value clause: C01 field round trip)",
    "FieldDatatype._field_or_default_datatype:self._datatype[...]": "the default datatype of a tag is recorded when first computed",
    "Parser._parse_gfa_field:.__error__": "recursion guard while building an error message",
    "Connection.all_references:._refs": "a missing back-reference dict is normalised to {}",
    "Construction.positional_fieldnames:._positional_fieldnames": "custom records compute their positional field names on first use",
}


def residual(fu, frame=()):
    """labels written by fu that are neither benign caches, nor progress logging, nor in the declared frame"""
    return [l for l in labels(fu) if l not in BENIGN and not l.startswith("Logger.") and l not in frame]


def labels(fu):
    """origin labels of everything fu may write (root-insensitive)"""
    return sorted({w[-1] for w in fu.writes})


def report(repo, specs):
    A = Analysis(repo)
    out = {}
    for spec in specs:
        path, qual = spec.split("::")
        fu = A.lookup(path, qual)
        out[spec] = None if fu is None else sorted(map(str, fu.writes))
    return A, out


if __name__ == "__main__":
    import sys
    A = Analysis(sys.argv[1] if len(sys.argv) > 1 else "/repo")
    n = sum(1 for f in A.funcs if f.writes)
    print(len(A.funcs), "functions;", n, "may write")
    for q in sys.argv[2:]:
        for f in A.funcs:
            if f.qual.endswith(q):
                print(f.path, f.qual, labels(f)[:14])
