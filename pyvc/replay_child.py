"""Replay of a counter-model against the REAL code.  Runs under /venv/bin/python (the test suite's interpreter) with
PYTHONPATH=$VERIF_REPO; reads a JSON call description on stdin, writes a JSON outcome on stdout.  No z3 here.

value specs:  int | str | bool | None | {"pos": n, "last": bool} | {"line": text, "version": v, "vlevel": n}
              | {"list": [...]} | {"tuple": [...]} | {"segend": [seg, "L"|"R"]} | {"oline": [line, "+"|"-"]}
              | {"cigar": "3M1I"} | {"placeholder": true} | {"ns": {attr: spec}} (plain attribute bag)
              | {"gfa": text_or_lines, "vlevel": n, "get": ident} (line `ident` of a Gfa built from the text)
call spec:    {"target": "pkg.mod:Qual.name", "self": spec?, "args": [spec], "kwargs": {..}, "attr": bool}
"""
import sys, json, importlib, os, traceback


def build(spec):
    import gfapy
    if isinstance(spec, (int, str, bool, float)) or spec is None:
        return spec
    if isinstance(spec, list):
        return [build(x) for x in spec]
    if "pos" in spec:
        return gfapy.LastPos(spec["pos"], valid=True) if spec.get("last") else spec["pos"]
    if "line" in spec:
        kw = {}
        if "version" in spec: kw["version"] = spec["version"]
        if "vlevel" in spec: kw["vlevel"] = spec["vlevel"]
        return gfapy.Line(spec["line"], **kw)
    if "list" in spec:
        return [build(x) for x in spec["list"]]
    if "tuple" in spec:
        return tuple(build(x) for x in spec["tuple"])
    if "segend" in spec:
        return gfapy.SegmentEnd(build(spec["segend"][0]), spec["segend"][1])
    if "oline" in spec:
        return gfapy.OrientedLine(build(spec["oline"][0]), spec["oline"][1])
    if "cigar" in spec:
        return gfapy.Alignment(spec["cigar"], version=spec.get("version", "gfa1"))
    if "placeholder" in spec:
        return gfapy.Placeholder()
    if "ns" in spec:
        class NS: pass
        o = NS()
        for k, v in spec["ns"].items():
            setattr(o, k, build(v))
        return o
    if "gfa" in spec:
        g = gfapy.Gfa(spec["gfa"], vlevel=spec.get("vlevel", 1))
        if "get" in spec:
            return g.line(spec["get"])
        if "nth" in spec:
            return [l for l in g.lines][spec["nth"]]
        return g
    if "numeric_array" in spec:
        return gfapy.NumericArray(spec["numeric_array"])
    if "bytearray" in spec:
        return gfapy.ByteArray(spec["bytearray"])
    raise ValueError("unknown spec %r" % (spec,))


def describe(v, depth=0):
    import gfapy
    if isinstance(v, bool) or v is None or isinstance(v, (int, str)):
        return v
    if isinstance(v, float):
        return {"float": repr(v)}
    if isinstance(v, gfapy.LastPos):
        return {"pos": v.value, "last": True}
    if isinstance(v, gfapy.SegmentEnd):
        return {"segend": [describe(v.segment, depth + 1), v.end_type]}
    if isinstance(v, gfapy.OrientedLine):
        return {"oline": [describe(v.line, depth + 1), v.orient]}
    if isinstance(v, gfapy.Placeholder):
        return {"placeholder": True}
    if isinstance(v, gfapy.CIGAR):
        return {"cigar": str(v), "ops": [[op.length, op.code] for op in v]}
    if isinstance(v, gfapy.Line):
        return {"line": str(v), "id": id(v)}
    if isinstance(v, tuple):
        return {"tuple": [describe(x, depth + 1) for x in v]}
    if isinstance(v, list):
        return {"list": [describe(x, depth + 1) for x in v], "cls": type(v).__name__}
    if isinstance(v, dict):
        return {"dict": {str(k): describe(x, depth + 1) for k, x in v.items()}}
    return {"repr": repr(v), "cls": type(v).__name__}


def main():
    call = json.load(sys.stdin)
    import gfapy
    out = {}
    try:
        mod, qual = call["target"].split(":")
        o = importlib.import_module(mod)
        parts = qual.split(".")
        for p in parts:
            o = getattr(o, p) if not isinstance(o, type) else o.__dict__.get(p, getattr(o, p, None))
        args = [build(a) for a in call.get("args", [])]
        kwargs = {k: build(v) for k, v in call.get("kwargs", {}).items()}
        if "self" in call:
            recv = build(call["self"])
            if isinstance(o, property):
                f = lambda: o.fget(recv)
            elif isinstance(o, (classmethod, staticmethod)):
                f = lambda: o.__func__(*([recv] if isinstance(o, classmethod) else []), *args, **kwargs)
            else:
                f = lambda: o(recv, *args, **kwargs)
        else:
            if isinstance(o, staticmethod):
                o = o.__func__
            f = lambda: o(*args, **kwargs)
        if "self" in call and call.get("observe_self"):
            out_before = describe(recv)
        r = f()
        out = {"kind": "return", "value": describe(r)}
        if "self" in call and call.get("observe_self"):
            out["self_before"] = out_before
            out["self_after"] = describe(recv)
    except BaseException as e:
        out = {"kind": "raise", "exc": type(e).__module__ + "." + type(e).__name__, "is_gfapy_error": isinstance(e, gfapy.Error),
               "msg": str(e)[:300], "tb": traceback.format_exc()[-1500:],
               "raised_in": (traceback.extract_tb(e.__traceback__)[-1].filename if e.__traceback__ else None)}
    json.dump(out, sys.stdout)


if __name__ == "__main__":
    main()
