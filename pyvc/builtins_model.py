"""Assumed contracts of CPython builtins (DESIGN §2.4).  Listed in every evidence file; cross-checked against CPython by
pyvc/crosscheck.py.  A model yields (tag, value, state)."""
import builtins, re, inspect, z3, json, binascii, copy
from . import rx
from .values import *

d = z3.Range("0", "9")
ws = rx.chars(rx.WS_CHARS)
WS = z3.Star(ws)
digs = z3.Concat(z3.Plus(d), z3.Star(z3.Concat(z3.Re("_"), z3.Plus(d))))
zeros = z3.Concat(z3.Plus(z3.Re("0")), z3.Star(z3.Concat(z3.Re("_"), z3.Plus(z3.Re("0")))))
sgn = z3.Option(z3.Union(z3.Re("+"), z3.Re("-")))
PYINT = z3.Concat(WS, sgn, digs, WS)                       # what int(str) accepts on ASCII input
PYINT_ZERO = z3.Concat(WS, sgn, zeros, WS)
PYINT_NEG = z3.Intersect(z3.Concat(WS, z3.Re("-"), digs, WS), z3.Complement(PYINT_ZERO))
INTSTR = z3.Concat(z3.Option(z3.Re("-")), z3.Union(z3.Re("0"), z3.Concat(z3.Range("1", "9"), z3.Star(d))))   # str(int)
INTSTR_NEG = z3.Concat(z3.Re("-"), z3.Range("1", "9"), z3.Star(d))
INTSTR_ZERO = z3.Re("0")


def _ci(word):
    return rx.cat(z3.Union(z3.Re(c.lower()), z3.Re(c.upper())) for c in word)


_exp = z3.Concat(z3.Union(z3.Re("e"), z3.Re("E")), sgn, digs)
_mant = z3.Union(z3.Concat(digs, z3.Option(z3.Concat(z3.Re("."), z3.Option(digs)))), z3.Concat(z3.Re("."), digs))
PYFLOAT = z3.Concat(WS, sgn, z3.Union(z3.Concat(_mant, z3.Option(_exp)), _ci("inf"), _ci("infinity"), _ci("nan")), WS)
ASCII = z3.Star(z3.Range("\x00", "\x7f"))
HEXPAIRS = z3.Star(z3.Loop(z3.Union(d, z3.Range("a", "f"), z3.Range("A", "F")), 2, 2))


class FloatV:
    def __init__(self, src=None):
        self.src = src


class MatchObj:
    """a successful re.match / re.search result (always truthy)"""
    def __init__(self, pat, subject):
        self.pat, self.subject = pat, subject


class Builtins:
    def __init__(self, E):
        self.E = E
        t = self.table = {}
        t[builtins.int] = self.b_int
        t[builtins.float] = self.b_float
        t[builtins.str] = self.b_str
        t[builtins.repr] = self.b_repr
        t[builtins.len] = self.b_len
        t[builtins.isinstance] = self.b_isinstance
        t[builtins.list] = self.b_list
        t[builtins.tuple] = self.b_list
        t[builtins.reversed] = self.b_reversed
        t[builtins.enumerate] = self.b_enumerate
        t[builtins.range] = self.b_range
        t[builtins.type] = self.b_type
        t[builtins.all] = self.b_all
        t[builtins.any] = self.b_any
        t[builtins.hash] = self.b_hash
        t[builtins.abs] = self.b_abs
        t[builtins.min] = self.b_minmax(True)
        t[builtins.max] = self.b_minmax(False)
        t[re.match] = self.b_re_match
        t[re.search] = self.b_re_search
        t[object.__new__] = self.b_object_new
        t[builtins.getattr] = self.b_getattr
        t[builtins.hasattr] = self.b_hasattr

    # ------------------------------------------------------------- numbers
    def b_int(self, st, pos, kw):
        E = self.E
        (x,) = pos
        if isinstance(x, bool):
            yield ("val", int(x), st)
        elif E.is_int(x):
            yield ("val", x, st)
        elif isinstance(x, Pos):
            # int(LastPos) = value (LastPos.__int__), int(int) = itself
            yield ("val", x.v, st)
        elif isinstance(x, str):
            try:
                yield ("val", int(x), st)
            except ValueError:
                yield ("raise", Exc(ValueError), st)
        elif E.is_text(x):
            ok = E.member(x, PYINT)
            n = fresh("int", I)
            E.facts.extend([(n < 0) == E.member(x, PYINT_NEG), (n == 0) == E.member(x, PYINT_ZERO)])
            if E.feasible(st, ok):
                yield ("val", n, st.assume(ok))
            if E.feasible(st, z3.Not(ok)):
                yield ("raise", Exc(ValueError), st.assume(z3.Not(ok)))
        elif x is None or isinstance(x, (list, tuple, dict, Obj)):
            if isinstance(x, Obj) and x.cls is not None and hasattr(x.cls, "__int__"):
                raise Unsupported("int() of object with __int__")
            yield ("raise", Exc(TypeError), st)
        elif isinstance(x, Opt):
            if E.feasible(st, x.isnone):
                yield ("raise", Exc(TypeError), st.assume(x.isnone))
            if E.feasible(st, z3.Not(x.isnone)):
                yield from self.b_int(st.assume(z3.Not(x.isnone)), [x.val], kw)
        elif isinstance(x, FloatV):
            raise Unsupported("int(float)")
        else:
            raise Unsupported("int(%r)" % (x,))

    def b_float(self, st, pos, kw):
        E = self.E
        (x,) = pos
        if isinstance(x, str):
            try:
                float(x); yield ("val", FloatV(x), st)
            except ValueError:
                yield ("raise", Exc(ValueError), st)
        elif E.is_text(x):
            ok = E.member(x, PYFLOAT)
            if E.feasible(st, ok):
                yield ("val", FloatV(x), st.assume(ok))
            if E.feasible(st, z3.Not(ok)):
                yield ("raise", Exc(ValueError), st.assume(z3.Not(ok)))
        elif E.is_int(x) or isinstance(x, FloatV):
            yield ("val", FloatV(None), st)
        elif x is None:
            yield ("raise", Exc(TypeError), st)
        else:
            raise Unsupported("float(%r)" % (x,))

    def b_abs(self, st, pos, kw):
        (x,) = pos
        if isinstance(x, int):
            yield ("val", abs(x), st)
        elif self.E.is_int(x):
            yield ("val", z3.If(x < 0, -x, x), st)
        else:
            raise Unsupported("abs")

    def b_minmax(self, is_min):
        def f(st, pos, kw):
            xs = pos[0] if len(pos) == 1 else pos
            if not isinstance(xs, (list, tuple)) or not xs or not all(self.E.is_int(x) for x in xs):
                raise Unsupported("min/max")
            r = S(xs[0])
            for x in xs[1:]:
                r = z3.If(S(x) < r, S(x), r) if is_min else z3.If(S(x) > r, S(x), r)
            yield ("val", r, st)
        return f

    # ------------------------------------------------------------- text
    def int_to_str(self, n):
        """str(n) for a symbolic int: a fresh text constrained by sign facts"""
        E = self.E
        r = fresh("str", Str)
        E.facts.extend([z3.InRe(r, INTSTR), (n < 0) == z3.InRe(r, INTSTR_NEG), (n == 0) == z3.InRe(r, INTSTR_ZERO)])
        return r

    def b_str(self, st, pos, kw):
        E = self.E
        if not pos:
            yield ("val", "", st); return
        (x,) = pos
        if isinstance(x, (str, int, bool)) or x is None:
            yield ("val", str(x), st)
        elif E.is_text(x):
            yield ("val", x, st)
        elif is_sym(x) and x.sort() == I:
            yield ("val", self.int_to_str(x), st)
        elif isinstance(x, Pos):
            yield ("val", Unknown("str(pos)"), st)
        elif isinstance(x, Obj) and x.cls is not None:
            f = None
            for k in x.cls.__mro__[:-1]:
                if "__str__" in k.__dict__:
                    f = k.__dict__["__str__"]; break
            if f is None:
                yield ("val", Unknown("str(obj)"), st)
            elif f in E.models or f in E.inline:
                yield from E.call_function(f, [x], {}, st, "str")
            else:
                yield ("val", Unknown("str(%s)" % x.cls.__name__), st)
        else:
            yield ("val", Unknown("str"), st)

    def b_repr(self, st, pos, kw):
        yield ("val", Unknown("repr"), st)

    def b_len(self, st, pos, kw):
        E = self.E
        (x,) = pos
        if isinstance(x, (list, tuple, dict, str)):
            yield ("val", len(x), st)
        elif isinstance(x, SList):
            yield ("val", x.n, st)
        elif isinstance(x, LRef):
            yield ("val", st.zh["L_n"][x.id], st)
        elif E.is_text(x):
            n = fresh("len", I)
            E.facts.extend([n >= 0, (n == 0) == E.member(x, rx.EPS), (n == 1) == E.member(x, rx.ANY)])
            yield ("val", n, st)
        elif isinstance(x, Obj) and x.cls is not None and hasattr(x.cls, "__len__"):
            f = inspect.getattr_static(x.cls, "__len__")
            yield from E.call_function(f, [x], {}, st, "len")
        elif x is None or E.is_int(x):
            yield ("raise", Exc(TypeError), st)
        else:
            raise Unsupported("len(%r)" % (x,))

    def pyclass_cases(self, x, st):
        """yield (python class or tuple of classes the value is an instance of, state)"""
        E = self.E
        import gfapy
        if hasattr(x, "pyvc_class"):
            yield (x.pyvc_class, st)
        elif isinstance(x, bool):
            yield (bool, st)
        elif isinstance(x, (int, str, list, tuple, dict, float)) or x is None:
            yield (type(x), st)
        elif is_sym(x):
            if x.sort() == I:
                yield (int, st)
            elif x.sort() == Str:
                yield (str, st)
            elif z3.is_bool(x):
                yield (bool, st)
            else:
                raise Unsupported("class of %r" % (x,))
        elif isinstance(x, VStr):
            yield (str, st)
        elif isinstance(x, Pos):
            cl = conc(x.last)
            if cl is True:
                yield (gfapy.LastPos, st)
            elif cl is False:
                yield (int, st)
            else:
                if E.feasible(st, x.last):
                    yield (gfapy.LastPos, st.assume(x.last))
                if E.feasible(st, z3.Not(x.last)):
                    yield (int, st.assume(z3.Not(x.last)))
        elif isinstance(x, Obj):
            if x.cls is None:
                raise Unsupported("class of untyped record")
            yield (x.cls, st)
        elif isinstance(x, Ref):
            if x.cls is None:
                kinds = E.options.get("kinds")
                if not kinds or "kind" not in st.zh:
                    raise Unsupported("class of untyped ref")
                kd = st.zh["kind"][x.t]
                for code, cls in kinds.items():
                    if E.feasible(st, kd == code):
                        yield (cls, st.assume(kd == code))
                return
            yield (x.cls, st)
        elif isinstance(x, Exc):
            yield (x.cls, st)
        elif isinstance(x, Opt):
            if E.feasible(st, x.isnone):
                yield (type(None), st.assume(x.isnone))
            if E.feasible(st, z3.Not(x.isnone)):
                yield from self.pyclass_cases(x.val, st.assume(z3.Not(x.isnone)))
        elif isinstance(x, (SList, LRef)):
            yield (list, st)
        elif isinstance(x, FloatV):
            yield (float, st)
        elif inspect.isclass(x):
            yield (type, st)
        else:
            raise Unsupported("class of %r" % (x,))

    def b_isinstance(self, st, pos, kw):
        x, cls = pos
        classes = cls if isinstance(cls, tuple) else (cls,)
        if not all(inspect.isclass(c) for c in classes):
            raise Unsupported("isinstance with non-class")
        for k, st2 in self.pyclass_cases(x, st):
            yield ("val", any(issubclass(k, c) for c in classes), st2)

    def b_type(self, st, pos, kw):
        (x,) = pos
        for k, st2 in self.pyclass_cases(x, st):
            yield ("val", k, st2)

    def b_list(self, st, pos, kw):
        if not pos:
            yield ("val", [], st); return
        (x,) = pos
        if isinstance(x, (list, tuple)):
            yield ("val", list(x), st)
        elif isinstance(x, SList):
            yield ("val", SList(x.n, x.el, x.mk), st)
        elif isinstance(x, LRef):
            c = self.E.contents(x, st)
            yield ("val", c, st)
        elif isinstance(x, dict):
            yield ("val", list(x.keys()), st)
        else:
            raise Unsupported("list(%r)" % (x,))

    def b_reversed(self, st, pos, kw):
        (x,) = pos
        if isinstance(x, (list, tuple)):
            yield ("val", list(reversed(x)), st)
        elif isinstance(x, (SList, LRef)):
            c = self.E.contents(x, st)
            k = z3.Int("k!rev")
            yield ("val", SList(c.n, z3.Lambda([k], c.el[c.n - 1 - k]), c.mk), st)
        else:
            raise Unsupported("reversed")

    def b_enumerate(self, st, pos, kw):
        from .engine import EnumIter
        (x,) = pos
        if isinstance(x, (list, tuple)):
            yield ("val", list(enumerate(x)), st)
        elif isinstance(x, (SList, LRef)):
            yield ("val", EnumIter(self.E.contents(x, st)), st)
        else:
            raise Unsupported("enumerate")

    def b_range(self, st, pos, kw):
        cs = [conc(p) for p in pos]
        if any(c is NotConcrete for c in cs):
            if len(pos) == 1 and self.E.is_int(pos[0]):
                n = S(pos[0]); k = z3.Int("k!rg")
                yield ("val", SList(z3.If(n < 0, 0, n), z3.Lambda([k], k), lambda t: t), st); return
            if len(pos) in (2, 3) and all(self.E.is_int(p) for p in pos) and (len(pos) == 2 or cs[2] in (1, -1)):
                # range(a, b) / range(a, b, 1): a, a+1, ..., b-1;  range(a, b, -1): a, a-1, ..., b+1  (empty when the bound is already passed)
                a, b = S(pos[0]), S(pos[1]); k = z3.Int("k!rg")
                if len(pos) == 2 or cs[2] == 1:
                    yield ("val", SList(z3.If(b - a < 0, 0, b - a), z3.Lambda([k], a + k), lambda t: t), st); return
                yield ("val", SList(z3.If(a - b < 0, 0, a - b), z3.Lambda([k], a - k), lambda t: t), st); return
            if len(pos) == 3 and all(self.E.is_int(p) for p in pos[:2]) and isinstance(cs[2], int) and not isinstance(cs[2], bool) and cs[2] >= 2:
                # range(a, b, c) with a constant step c >= 2: a, a+c, ...; ceil((b-a)/c) elements
                a, b = S(pos[0]), S(pos[1]); c = cs[2]; k = z3.Int("k!rg")
                yield ("val", SList(z3.If(b - a <= 0, 0, (b - a + (c - 1)) / c), z3.Lambda([k], a + c * k), lambda t: t), st); return
            raise Unsupported("symbolic range")
        yield ("val", list(range(*cs)), st)

    def b_all(self, st, pos, kw):
        (x,) = pos
        if isinstance(x, (list, tuple)):
            ts = [self.E.truth(v) for v in x]
            yield ("val", z3.And(*ts) if ts else True, st)
        elif isinstance(x, (SList, LRef)):
            c = self.E.contents(x, st); k = z3.Int("k!all")
            yield ("val", z3.ForAll([k], z3.Implies(z3.And(0 <= k, k < c.n), self.E.truth(c.mk(c.el[k])))), st)
        else:
            raise Unsupported("all")

    def b_any(self, st, pos, kw):
        (x,) = pos
        if isinstance(x, (list, tuple)):
            ts = [self.E.truth(v) for v in x]
            yield ("val", z3.Or(*ts) if ts else False, st)
        elif isinstance(x, (SList, LRef)):
            c = self.E.contents(x, st); k = z3.Int("k!any")
            yield ("val", z3.Exists([k], z3.And(0 <= k, k < c.n, self.E.truth(c.mk(c.el[k])))), st)
        else:
            raise Unsupported("any")

    def b_hash(self, st, pos, kw):
        (x,) = pos
        if x is None:
            yield ("val", fresh("hash", I), st)
        elif isinstance(x, Obj) and x.cls is not None:
            f = None
            for k in x.cls.__mro__[:-1]:
                if "__hash__" in k.__dict__:
                    f = k.__dict__["__hash__"]; break
            if f is None:
                yield ("val", fresh("hash", I), st)
            elif f is None.__class__:
                yield ("raise", Exc(TypeError), st)
            else:
                for tag, v, st2 in self.E.call_function(f, [x], {}, st, "hash"):
                    if tag == "val" and not self.E.is_int(v):
                        yield ("raise", Exc(TypeError), st2)       # __hash__ must return an int
                    else:
                        yield (tag, v, st2)
        else:
            yield ("val", fresh("hash", I), st)

    def b_object_new(self, st, pos, kw):
        cls = pos[0]
        yield ("val", Obj(cls), st)

    def b_getattr(self, st, pos, kw):
        o, name = pos[0], conc(pos[1])
        if not isinstance(name, str):
            raise Unsupported("getattr with symbolic name")
        for out in self.E.load_attr(o, name, st):
            if out[0] == "raise" and len(pos) == 3 and out[1].cls is AttributeError:
                yield ("val", pos[2], out[2])
            else:
                yield out

    def b_hasattr(self, st, pos, kw):
        o, name = pos[0], conc(pos[1])
        if not isinstance(name, str):
            raise Unsupported("hasattr with symbolic name")
        for out in self.E.load_attr(o, name, st):
            if out[0] == "raise" and out[1].cls is AttributeError:
                yield ("val", False, out[2])
            elif out[0] == "raise":
                yield out
            else:
                yield ("val", True, out[2])

    # ------------------------------------------------------------- re
    def b_re_match(self, st, pos, kw):
        pat, s = pos[0], pos[1]
        if not isinstance(pat, str):
            raise Unsupported("symbolic pattern")
        try:
            L = rx.match_lang(pat)
        except NotImplementedError as e:
            raise Unsupported("regex %r: %s" % (pat, e))
        if s is None or self.E.is_int(s):
            yield ("raise", Exc(TypeError), st); return
        if isinstance(s, (Obj, Pos, list, tuple, dict)):
            yield ("raise", Exc(TypeError), st); return
        yield ("val", Opt(z3.Not(self.E.member(s, L)), MatchObj(pat, s)), st)

    def b_re_search(self, st, pos, kw):
        pat, s = pos[0], pos[1]
        if not isinstance(pat, str):
            raise Unsupported("symbolic pattern")
        try:
            L = rx.search_lang(pat)
        except NotImplementedError as e:
            raise Unsupported("regex %r: %s" % (pat, e))
        if s is None or self.E.is_int(s) or isinstance(s, (Obj, Pos, list, tuple, dict)):
            yield ("raise", Exc(TypeError), st); return
        yield ("val", Opt(z3.Not(self.E.member(s, L)), MatchObj(pat, s)), st)

    # ------------------------------------------------------------- methods of str / list
    def str_method(self, recv, name, pos, kw, st):
        E = self.E
        if isinstance(recv, RefsDict) and name == "get":
            # dict.get(key, default) on the collections of a line: the list object stored under key, else the default
            key = S(pos[0])
            has = st.zh["refs_has"][recv.owner.t][key]
            if E.feasible(st, has):
                yield ("val", LRef(st.zh["refs"][recv.owner.t][key], E.options.get("list_mk")), st.assume(has))           # (list_mk: a contract may say of which class the collected lines are)
            if E.feasible(st, z3.Not(has)):
                yield ("val", pos[1] if len(pos) > 1 else None, st.assume(z3.Not(has)))
            return
        if isinstance(recv, str) and name == "format" and E.options.get("format_model"):
            # a contract may give the text built from a template and symbolic arguments an abstract identity of its own
            yield ("val", E.options["format_model"](recv, pos), st); return
        if isinstance(recv, str) and name == "format":
            cs = [conc(p) for p in pos]
            if all(c is not NotConcrete and isinstance(c, (str, int)) for c in cs) and not kw:
                try:
                    yield ("val", recv.format(*cs), st); return
                except Exception:
                    pass
            # a "{}" template applied to one text is that text
            if recv == "{}" and len(pos) == 1 and E.is_text(pos[0]):
                yield ("val", pos[0], st); return
            yield ("val", Unknown("format"), st); return
        if isinstance(recv, str) and name == "join":
            (x,) = pos
            if isinstance(x, (list, tuple)) and all(isinstance(conc(v), str) for v in x):
                yield ("val", recv.join(conc(v) for v in x), st); return
            yield ("val", Unknown("join"), st); return
        if isinstance(recv, str):
            cs = [conc(p) for p in pos]
            if all(c is not NotConcrete for c in cs):
                try:
                    yield ("val", getattr(recv, name)(*cs), st)
                except Exception as e:
                    yield ("raise", Exc(type(e)), st)
                return
        if isinstance(recv, SList) and name == "copy" and not pos:
            yield ("val", SList(recv.n, recv.el, recv.mk), st)        # a new list with the same elements (symbolic lists are values: no aliasing to model)
            return
        if isinstance(recv, (list, tuple)) and name in ("index", "count", "copy"):
            cs = [conc(p) for p in pos]
            if all(c is not NotConcrete for c in cs) and all(conc(v) is not NotConcrete for v in recv):
                try:
                    yield ("val", getattr([conc(v) for v in recv], name)(*cs), st)
                except Exception as e:
                    yield ("raise", Exc(type(e)), st)
                return
        if E.is_text(recv) and name == "split":
            from .engine import PieceList
            sep = conc(pos[0]) if pos else None
            if not isinstance(sep, str) or len(sep) != 1:
                raise Unsupported("split with separator %r" % (sep,))
            yield ("val", PieceList(recv, sep), st); return
        if E.is_text(recv) and name in ("startswith", "endswith"):
            c = conc(pos[0])
            if not isinstance(c, str):
                raise Unsupported("startswith symbolic")
            L = z3.Concat(z3.Re(c), rx.ALL) if name == "startswith" else z3.Concat(rx.ALL, z3.Re(c))
            yield ("val", E.member(recv, L), st); return
        if isinstance(recv, MatchObj) and name == "group":
            gi = conc(pos[0]) if pos else 0
            if not isinstance(gi, int) or gi < 1:
                raise Unsupported("group(%r)" % (gi,))
            try:
                lifts = rx.group_lifts(recv.pat)
            except NotImplementedError as e:
                raise Unsupported(str(e))
            if gi not in lifts:
                yield ("raise", Exc(IndexError), st); return
            subj = recv.subject
            root = subj.root if isinstance(subj, VStr) else subj
            base = subj.lift if isinstance(subj, VStr) else (lambda R: R)
            if not is_sym(root):
                raise Unsupported("group of a concrete subject")
            yield ("val", VStr(root, lambda R, base=base, l=lifts[gi]: base(l(R)), "group%d" % gi), st); return
        if isinstance(recv, LRef) and name == "remove":
            # list.remove(x): the FIRST element identical/equal to x is removed; ValueError when there is none (identity == equality for heap ids)
            zh = dict(st.zh)
            n = zh["L_n"][recv.id]; el = zh["L_e"][recv.id]
            x = E.unwrap_ref(pos[0])
            k = z3.Int("k!rm")
            absent = z3.ForAll([k], z3.Implies(z3.And(0 <= k, k < n), el[k] != x))
            yield ("raise", Exc(ValueError), st.assume(absent))
            p = fresh("p!rm", I)
            first = z3.And(0 <= p, p < n, el[p] == x, z3.ForAll([k], z3.Implies(z3.And(0 <= k, k < p), el[k] != x)))
            zh["L_e"] = z3.Store(zh["L_e"], recv.id, z3.Lambda([k], z3.If(k < p, el[k], el[k + 1])))
            zh["L_n"] = z3.Store(zh["L_n"], recv.id, n - 1)
            yield ("val", None, st.assume(first).with_zh(zh)); return
        if isinstance(recv, LRef) and name in ("pop", "append", "insert"):
            zh = dict(st.zh)
            n = zh["L_n"][recv.id]; el = zh["L_e"][recv.id]
            k = z3.Int("k!lm")
            if name == "pop":
                if len(pos) > 1 or (pos and conc(pos[0]) not in (0, -1)):
                    raise Unsupported("pop(%r)" % (pos,))
                empty = n <= 0
                if E.feasible(st, empty):
                    yield ("raise", Exc(IndexError), st.assume(empty))
                first = bool(pos) and conc(pos[0]) == 0
                val = recv.mk(el[0] if first else el[n - 1])
                if first:
                    zh["L_e"] = z3.Store(zh["L_e"], recv.id, z3.Lambda([k], el[k + 1]))
                zh["L_n"] = z3.Store(zh["L_n"], recv.id, n - 1)
                yield ("val", val, st.assume(z3.Not(empty)).with_zh(zh)); return
            if name == "append":
                zh["L_e"] = z3.Store(zh["L_e"], recv.id, z3.Store(el, n, E.unwrap_ref(pos[0])))
                zh["L_n"] = z3.Store(zh["L_n"], recv.id, n + 1)
                yield ("val", None, st.with_zh(zh)); return
            if name == "insert":
                if conc(pos[0]) != 0:
                    raise Unsupported("insert at %r" % (pos[0],))
                zh["L_e"] = z3.Store(zh["L_e"], recv.id, z3.Lambda([k], z3.If(k == 0, E.unwrap_ref(pos[1]), el[k - 1])))
                zh["L_n"] = z3.Store(zh["L_n"], recv.id, n + 1)
                yield ("val", None, st.with_zh(zh)); return
        if E.is_text(recv) and name == "find":
            c = conc(pos[0])
            if not isinstance(c, str) or len(c) != 1 or len(pos) != 1:
                raise Unsupported("find with %r" % (pos,))
            n = fresh("find", I)
            E.facts.extend([n >= -1, (n == -1) == z3.Not(E.member(recv, z3.Concat(rx.ALL, z3.Re(c), rx.ALL)))])
            yield ("val", n, st); return
        if self.E.is_int(recv) and name == "__lt__":
            o = pos[0]
            if E.is_int(o):
                yield ("val", S(recv) < S(o), st); return
            raise Unsupported("int.__lt__ on %r" % (o,))
        raise Unsupported("method %s of %r" % (name, recv))

    def comprehension_over_pieces(self, e, g, it, st):
        raise Unsupported("comprehension over split pieces")
