"""Python `re` pattern  ->  z3 RegLan, with CPython semantics.

* parsed with CPython's own re._parser (so the pattern is read exactly as `re` reads it);
* `re.match` anchors at 0 and is a *prefix* match unless the pattern ends in `$`;
* `$` matches at the end or before a final "\\n";  `.` excludes "\\n";
* only constructs that occur in gfapy are supported; anything else raises NotImplementedError
  (the calling function is then out of reach for this run, never silently mistranslated).
"""
import z3
try:
    import re._parser as sp, re._constants as sc
except ImportError:                                   # Python < 3.11
    import sre_parse as sp, sre_constants as sc

RS = z3.ReSort(z3.StringSort())
ANY = z3.AllChar(RS)
ALL = z3.Star(ANY)
EMPTYSET = z3.Empty(RS)
EPS = z3.Re("")
NL = z3.Re("\n")
DOT = z3.Diff(ANY, NL)
WS_CHARS = " \t\n\r\x0b\x0c"


def lit(c):
    return z3.Re(chr(c) if isinstance(c, int) else c)


def alt(xs):
    xs = list(xs)
    if not xs:
        return EMPTYSET
    return xs[0] if len(xs) == 1 else z3.Union(*xs)


def cat(xs):
    xs = list(xs)
    if not xs:
        return EPS
    return xs[0] if len(xs) == 1 else z3.Concat(*xs)


def chars(s):
    return alt(z3.Re(c) for c in s)


def _cls(items):
    neg = False
    parts = []
    for op, av in items:
        if op is sc.NEGATE:
            neg = True
        elif op is sc.LITERAL:
            parts.append(lit(av))
        elif op is sc.RANGE:
            parts.append(z3.Range(chr(av[0]), chr(av[1])))
        elif op is sc.CATEGORY:
            if av is sc.CATEGORY_DIGIT:
                parts.append(z3.Range("0", "9"))           # ASCII restriction (stated assumption)
            elif av is sc.CATEGORY_SPACE:
                parts.append(chars(WS_CHARS))
            elif av is sc.CATEGORY_NOT_SPACE:
                parts.append(z3.Diff(ANY, chars(WS_CHARS)))
            else:
                raise NotImplementedError("category %r" % (av,))
        else:
            raise NotImplementedError("class item %r" % (op,))
    r = alt(parts)
    return z3.Diff(ANY, r) if neg else r


def _tr(seq, at_end, at_start=True):
    out = []
    items = list(seq)
    for idx, (op, av) in enumerate(items):
        last = at_end and idx == len(items) - 1
        first = at_start and idx == 0
        if op is sc.LITERAL:
            out.append(lit(av))
        elif op is sc.NOT_LITERAL:
            out.append(z3.Diff(ANY, lit(av)))
        elif op is sc.ANY:
            out.append(DOT)
        elif op is sc.IN:
            out.append(_cls(av))
        elif op is sc.AT:
            if av is sc.AT_BEGINNING:
                if not first:
                    raise NotImplementedError("^ not at start")
            elif av is sc.AT_END:
                if not last:
                    raise NotImplementedError("$ not at end")
                out.append(z3.Option(NL))
            elif av is sc.AT_END_STRING:
                if not last:
                    raise NotImplementedError("\\Z not at end")
                # \Z: the end of the string and nothing else (no optional final newline)
            else:
                raise NotImplementedError("anchor %r" % (av,))
        elif op is sc.SUBPATTERN:
            out.append(_tr(av[3], last, first))
        elif op is sc.BRANCH:
            out.append(alt(_tr(b, last, first) for b in av[1]))
        elif op in (sc.MAX_REPEAT, sc.MIN_REPEAT):
            lo, hi, sub = av
            r = _tr(sub, False, False)
            if lo == 0 and hi == sc.MAXREPEAT:
                out.append(z3.Star(r))
            elif lo == 1 and hi == sc.MAXREPEAT:
                out.append(z3.Plus(r))
            elif lo == 0 and hi == 1:
                out.append(z3.Option(r))
            elif hi == sc.MAXREPEAT:
                out.append(z3.Concat(z3.Loop(r, lo, lo), z3.Star(r)))
            else:
                out.append(z3.Loop(r, lo, hi))
        else:
            raise NotImplementedError("regex op %r" % (op,))
    return cat(out)


def _ends_anchored(parsed):
    """True iff every alternative of the pattern ends with `$` (so that no trailing text is allowed)."""
    items = list(parsed)
    if not items:
        return False
    op, av = items[-1]
    if op is sc.AT and av in (sc.AT_END, sc.AT_END_STRING):
        return True
    if op is sc.SUBPATTERN:
        return _ends_anchored(av[3])
    if op is sc.BRANCH:
        return all(_ends_anchored(b) for b in av[1])
    return False


def _starts_anchored(parsed):
    items = list(parsed)
    if not items:
        return False
    op, av = items[0]
    if op is sc.AT and av is sc.AT_BEGINNING:
        return True
    if op is sc.SUBPATTERN:
        return _starts_anchored(av[3])
    if op is sc.BRANCH:
        return all(_starts_anchored(b) for b in av[1])
    return False


def _branchwise(parsed, fn):
    """patterns such as ^\\*$|^[A-Z]+$ : top-level alternation whose branches carry their own anchors"""
    items = list(parsed)
    if len(items) == 1 and items[0][0] is sc.BRANCH:
        return alt(fn(b) for b in items[0][1][1])
    return fn(parsed)


def match_lang(pat):
    """{ s | re.match(pat, s) is not None }"""
    def one(p):
        body = _tr(p, True, True)
        return body if _ends_anchored(p) else z3.Concat(body, ALL)
    return _branchwise(sp.parse(pat), one)


def search_lang(pat):
    """{ s | re.search(pat, s) is not None }"""
    def one(p):
        body = _tr(p, True, True)
        pre = EPS if _starts_anchored(p) else ALL
        post = EPS if _ends_anchored(p) else ALL
        return z3.Concat(pre, body, post)
    return _branchwise(sp.parse(pat), one)


def fullmatch_lang(pat):
    """the language of the pattern itself, '$' read as plain end (used by the oracle grammars)"""
    def one(p):
        items = [it for it in p if not (it[0] is sc.AT)]
        return _tr(items, False, False)
    return _branchwise(sp.parse(pat), one)


def member_concrete(w, lang):
    """evaluate membership of a concrete Python string (z3 simplify is the evaluator)"""
    r = z3.simplify(z3.InRe(z3.StringVal(w), lang))
    if z3.is_true(r):
        return True
    if z3.is_false(r):
        return False
    s = z3.Solver()
    s.set("timeout", 5000)
    s.add(r)
    return s.check() == z3.sat


def _fixed_width(items):
    """width of a parsed sequence if every string it matches has the same length, else None"""
    w = 0
    for op, av in items:
        if op in (sc.LITERAL, sc.NOT_LITERAL, sc.ANY, sc.IN):
            w += 1
        elif op is sc.AT:
            continue
        elif op is sc.SUBPATTERN:
            x = _fixed_width(av[3])
            if x is None:
                return None
            w += x
        elif op in (sc.MAX_REPEAT, sc.MIN_REPEAT):
            lo, hi, sub = av
            x = _fixed_width(sub)
            if x is None or lo != hi:
                return None
            w += x * lo
        elif op is sc.BRANCH:
            ws = {_fixed_width(b) for b in av[1]}
            if len(ws) != 1 or None in ws:
                return None
            w += ws.pop()
        else:
            return None
    return w


def group_lifts(pat):
    """for a pattern that is a top-level concatenation in which every capture group except possibly the last item has a
    fixed width: { group number -> lift }, where lift(R) is the language of subjects (accepted by re.match) whose group lies in R.
    The decomposition is then unique, so 'exists a decomposition' coincides with the regex engine's choice."""
    p = list(sp.parse(pat))
    anchored = _ends_anchored(p)
    items = [it for it in p if not (it[0] is sc.AT)]
    langs = []
    for idx, (op, av) in enumerate(items):
        last = idx == len(items) - 1
        if not last and _fixed_width([(op, av)]) is None:
            raise NotImplementedError("group extents not determined in %r" % pat)
        langs.append(_tr([(op, av)], False, False))
    tail = (z3.Option(NL) if anchored else ALL)
    out = {}
    for idx, (op, av) in enumerate(items):
        if op is sc.SUBPATTERN and av[0] is not None:
            def lift(R, idx=idx):
                parts = [z3.Intersect(langs[j], R) if j == idx else langs[j] for j in range(len(items))]
                return cat(parts + [tail])
            out[av[0]] = lift
    return out
