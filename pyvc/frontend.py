"""Locate the real source text of a function under $VERIF_REPO on every run (nothing cached across runs)."""
import ast, hashlib, importlib, inspect, os, sys, types

_cache = {}     # per-process only


def repo_root():
    return os.environ.get("VERIF_REPO", "/repo")


def ensure_importable(repo=None):
    repo = repo or repo_root()
    if sys.path[0] != repo:
        sys.path.insert(0, repo)
    import gfapy
    real = os.path.realpath(os.path.dirname(os.path.dirname(gfapy.__file__)))
    if real != os.path.realpath(repo):
        raise RuntimeError("gfapy imported from %s, not from %s" % (real, repo))
    return gfapy


def _parse(path):
    if path not in _cache:
        src = open(path).read()
        _cache[path] = (src, ast.parse(src))
    return _cache[path]


def _start(n):
    return min([n.lineno] + [d.lineno for d in getattr(n, "decorator_list", [])])


def _find(tree, qual, firstlineno=None):
    node = tree
    parts = qual.split(".")
    for i, part in enumerate(parts):
        nxt = [n for n in node.body if isinstance(n, (ast.FunctionDef, ast.ClassDef)) and n.name == part]
        if not nxt:
            return None
        if i == len(parts) - 1 and firstlineno is not None:
            exact = [n for n in nxt if _start(n) == firstlineno]
            if exact:
                nxt = exact
        node = nxt[-1]          # a later definition shadows an earlier one (property getter/setter pairs: matched by line)
    return node if isinstance(node, ast.FunctionDef) else None


def unwrap(f):
    if isinstance(f, property):
        return f.fget
    if isinstance(f, (classmethod, staticmethod)):
        return f.__func__
    if isinstance(f, types.MethodType):
        return f.__func__
    return f


def load_function(repo, func):
    """AST of live function object `func`, re-read from its source file"""
    func = unwrap(func)
    path = inspect.getsourcefile(func)
    if path is None:
        raise LookupError("no source for %r" % (func,))
    src, tree = _parse(path)
    qual = func.__qualname__
    node = _find(tree, qual, func.__code__.co_firstlineno)
    if node is None:
        # decorated or nested: search by line number
        for n in ast.walk(tree):
            if isinstance(n, ast.FunctionDef) and n.name == func.__name__ and n.lineno <= func.__code__.co_firstlineno <= n.end_lineno:
                node = n
    if node is None:
        raise LookupError("function %s not found in %s" % (qual, path))
    seg = ast.get_source_segment(src, node)
    rel = os.path.relpath(path, repo)
    info = dict(file=rel, qualname=qual, lines=[node.lineno, node.end_lineno],
                sha256=hashlib.sha256(seg.encode()).hexdigest())
    return node, info


def resolve(repo, spec):
    """'gfapy/lastpos.py::LastPos._from_string' -> live function object.
    If the function is not at that place, a unique definition with the same qualified name elsewhere under gfapy/ is used
    (DESIGN §3, robustness to moves); returns (func, moved_from or None)."""
    path, qual = spec.split("::")
    setter = qual.endswith("#set")          # 'Class.prop#set': the setter of a property
    if setter:
        qual = qual[:-4]
    ensure_importable(repo)
    def get(path):
        mod = path[:-3].replace("/", ".")
        if mod.endswith(".__init__"):
            mod = mod[:-9]
        m = importlib.import_module(mod)
        o = m
        for part in qual.split("."):
            if inspect.isclass(o) and part.startswith("__") and not part.endswith("__"):
                part = "_%s%s" % (o.__name__.lstrip("_"), part)        # private name mangling
            o = inspect.getattr_static(o, part) if inspect.isclass(o) else getattr(o, part)
        if setter:
            if not isinstance(o, property) or o.fset is None:
                raise AttributeError("no setter for %s" % qual)
            return o.fset
        return unwrap(o)
    try:
        return get(path), None
    except (ImportError, AttributeError):
        pass
    hits = []
    for dp, dn, fn in os.walk(os.path.join(repo, "gfapy")):
        for f in fn:
            if f.endswith(".py"):
                p = os.path.join(dp, f)
                try:
                    _, tree = _parse(p)
                except SyntaxError:
                    continue
                if _find(tree, qual) is not None:
                    hits.append(os.path.relpath(p, repo))
    if len(hits) == 1:
        return get(hits[0]), path
    raise LookupError("function %s not found (candidates: %s)" % (spec, hits))
