"""Query preparation: (1) cone of influence for the definitional facts of Skolem terms, (2) all pure membership
constraints on one string variable merged into ONE str.in_re of a Boolean combination of regular languages
(the only string encoding all three back ends decide quickly; see DESIGN §2.4)."""
import z3


def consts_of(f, acc=None):
    acc = set() if acc is None else acc
    seen = set()
    def go(e):
        if e.get_id() in seen:
            return
        seen.add(e.get_id())
        if z3.is_const(e) and e.decl().kind() == z3.Z3_OP_UNINTERPRETED:
            acc.add(e.decl().name())
        for c in e.children():
            go(c)
    go(f)
    return acc


def relevant_facts(facts, formulas):
    names = set()
    for f in formulas:
        if isinstance(f, z3.ExprRef):
            consts_of(f, names)
    fc = [(f, consts_of(f)) for f in facts]
    out = []
    changed = True
    used = [False] * len(fc)
    while changed:
        changed = False
        for i, (f, cs) in enumerate(fc):
            if used[i]:
                continue
            sk = {c for c in cs if "!" in c}
            if sk & names:
                used[i] = True
                out.append(f)
                names |= cs
                changed = True
    return out


def _as_lang(e, var):
    """regex R with  e <=> var in R, or None if e is not a pure Boolean combination of memberships of var"""
    if z3.is_app(e):
        k = e.decl().kind()
        if k == z3.Z3_OP_SEQ_IN_RE:
            s, r = e.children()
            if z3.is_const(s) and s.decl().kind() == z3.Z3_OP_UNINTERPRETED and (var[0] is None or s.decl().name() == var[0]):
                var[0] = s.decl().name(); var[1] = s
                return r
            return None
        if k == z3.Z3_OP_NOT:
            r = _as_lang(e.children()[0], var)
            return None if r is None else z3.Complement(r)
        if k in (z3.Z3_OP_AND, z3.Z3_OP_OR):
            rs = [_as_lang(c, var) for c in e.children()]
            if any(r is None for r in rs):
                return None
            if len(rs) == 1:
                return rs[0]
            return z3.Intersect(*rs) if k == z3.Z3_OP_AND else z3.Union(*rs)
        if k == z3.Z3_OP_TRUE or k == z3.Z3_OP_FALSE:
            return None
        if k == z3.Z3_OP_EQ and e.children()[0].sort() == z3.StringSort():
            a, b = e.children()
            if z3.is_string_value(b) and z3.is_const(a) and a.decl().kind() == z3.Z3_OP_UNINTERPRETED and (var[0] is None or a.decl().name() == var[0]):
                var[0] = a.decl().name(); var[1] = a
                return z3.Re(b.as_string())
            return None
    return None


def merge_memberships(conjuncts):
    """conjuncts: list of z3 Bool.  Pure membership conjuncts over the same variable are merged per variable."""
    per = {}
    rest = []
    for c in conjuncts:
        var = [None, None]
        r = _as_lang(c, var) if isinstance(c, z3.ExprRef) else None
        if r is None or var[0] is None:
            rest.append(c)
        else:
            per.setdefault(var[0], [var[1], []])[1].append(r)
    for name, (v, rs) in per.items():
        rest.append(z3.InRe(v, rs[0] if len(rs) == 1 else z3.Intersect(*rs)))
    return rest


def prepare(facts, hyps, goal=None):
    forms = list(hyps) + ([goal] if goal is not None else [])
    fs = relevant_facts(facts, forms)
    conj = list(fs) + list(hyps) + ([z3.Not(goal)] if goal is not None else [])
    return merge_memberships(conj)


_qcache = {}


def has_quantifier(e):
    if not isinstance(e, z3.ExprRef):
        return False
    i = e.get_id()
    if i in _qcache:
        return _qcache[i]
    r = False
    stack = [e]
    seen = set()
    while stack:
        x = stack.pop()
        if x.get_id() in seen:
            continue
        seen.add(x.get_id())
        if z3.is_quantifier(x) and x.is_lambda():
            stack.extend(x.children())          # a lambda (array comprehension) is not a quantified formula: look inside its body
            continue
        if z3.is_quantifier(x):
            r = True
            break
        stack.extend(x.children())
    _qcache[i] = r
    return r
