"""Parent side of the counter-model replay: run the real function under the test-suite interpreter, map the concrete
outcome back into the value domain, and evaluate the SAME contract clause on it (z3 simplify is the evaluator)."""
import json, os, subprocess, sys, importlib, z3
from .values import *

PY = os.environ.get("VERIF_REPLAY_PYTHON", "/venv/bin/python")
HERE = os.path.dirname(os.path.abspath(__file__))


def run_call(repo, call, timeout=60):
    env = dict(os.environ, PYTHONPATH=repo + os.pathsep + os.path.dirname(HERE))
    py = PY if os.path.exists(PY) else sys.executable
    try:
        p = subprocess.run([py, os.path.join(HERE, "replay_child.py")], input=json.dumps(call), capture_output=True, text=True,
                           env=env, timeout=timeout)
    except subprocess.TimeoutExpired:
        return {"kind": "timeout", "seconds": timeout}
    if p.returncode != 0 or not p.stdout.strip():
        return {"kind": "error", "stderr": p.stderr[-2000:]}
    return json.loads(p.stdout)


def to_value(d):
    """JSON description -> engine value"""
    import gfapy
    if isinstance(d, (bool, int, str)) or d is None:
        return d
    if "pos" in d:
        return Pos(z3.IntVal(d["pos"]), z3.BoolVal(bool(d.get("last"))))
    if "tuple" in d:
        return tuple(to_value(x) for x in d["tuple"])
    if "list" in d:
        return [to_value(x) for x in d["list"]]
    if "segend" in d:
        return ("segend", to_value(d["segend"][0]), d["segend"][1])
    if "oline" in d:
        return ("oline", to_value(d["oline"][0]), d["oline"][1])
    if "placeholder" in d:
        return ("placeholder",)
    if "cigar" in d:
        return ("cigar", d["ops"])
    if "line" in d:
        return ("line", d["line"])
    return ("opaque", d)


def exc_class(name):
    mod, _, cls = name.rpartition(".")
    try:
        return getattr(importlib.import_module(mod), cls)
    except Exception:
        return type(name, (Exception,), {})


def evaluate(goal, symbols, witness):
    """substitute the witness into the goal and simplify; returns True / False / None (undetermined)"""
    subs = []
    for k, v in symbols.items():
        w = witness.get(k)
        if isinstance(v, Pos):
            subs.append((v.v, z3.IntVal(w["pos"]))); subs.append((v.last, z3.BoolVal(w["last"])))
        elif is_sym(v):
            if v.sort() == I:
                subs.append((v, z3.IntVal(int(w))))
            elif v.sort() == Str:
                subs.append((v, z3.StringVal(w)))
            elif z3.is_bool(v):
                subs.append((v, z3.BoolVal(bool(w))))
    g = goal if isinstance(goal, z3.ExprRef) else z3.BoolVal(bool(goal))
    g = z3.simplify(z3.substitute(g, *subs)) if subs else z3.simplify(g)
    if z3.is_true(g):
        return True
    if z3.is_false(g):
        return False
    s = z3.Solver(); s.set("timeout", 5000); s.add(z3.Not(g))
    r = s.check()
    if r == z3.unsat:
        return True
    s = z3.Solver(); s.set("timeout", 5000); s.add(g)
    if s.check() == z3.unsat:
        return False
    return None
